package calc

// Bounded universes for the calc-graph explorations. Every key has 1-4 valid variants, `del`, and
// (where the validators can reject anything) one variant that fails validation. Every resource kind
// for which "present but empty" differs from "missing" has an empty-but-valid variant (profile rules
// with no rules, profile labels {}, policy without rules/types, network set without nets, tier
// without order/default action, endpoint without labels/addresses). Names collide on
// purpose: shared IPs, equal orders, the same selector used by two policies, own-vs-inherited label.

import (
	"net/netip"

	v3 "github.com/projectcalico/api/pkg/apis/projectcalico/v3"
	"github.com/projectcalico/api/pkg/lib/numorstring"
	metav1 "k8s.io/apimachinery/pkg/apis/meta/v1"

	"github.com/projectcalico/calico/lib/std/uniquelabels"
	"github.com/projectcalico/calico/libcalico-go/lib/apis/internalapi"
	"github.com/projectcalico/calico/libcalico-go/lib/backend/encap"
	"github.com/projectcalico/calico/libcalico-go/lib/backend/model"
	cnet "github.com/projectcalico/calico/libcalico-go/lib/net"
	"github.com/projectcalico/calico/zzverif/vk"
)

func vcNets(ss ...string) []cnet.IPNet {
	out := make([]cnet.IPNet, len(ss))
	for i, s := range ss {
		out[i] = cnet.MustParseNetwork(s)
	}
	return out
}

func vcF(f float64) *float64 { return &f }

func vcProto(p string) *numorstring.Protocol {
	x := numorstring.ProtocolFromStringV1(p)
	return &x
}

func vcNamedPort(n string) numorstring.Port {
	p, err := numorstring.NamedPort(n)
	if err != nil {
		panic(err)
	}
	return p
}

func vcWEPKey(host, name string) model.WorkloadEndpointKey {
	return model.WorkloadEndpointKey{Hostname: host, OrchestratorID: "orch", WorkloadID: name, EndpointID: "ep"}
}

func vcWEP(iface string, labels map[string]string, profiles []string, nets []string, ports ...model.EndpointPort) func() any {
	return func() any {
		return &model.WorkloadEndpoint{
			State:      "active",
			Name:       iface,
			ProfileIDs: append([]string(nil), profiles...),
			IPv4Nets:   vcNets(nets...),
			Labels:     uniquelabels.Make(labels),
			Ports:      append([]model.EndpointPort(nil), ports...),
		}
	}
}

func vcHEP(labels map[string]string, profiles []string, ips ...string) func() any {
	return func() any {
		h := &model.HostEndpoint{
			Name:       "eth0",
			ProfileIDs: append([]string(nil), profiles...),
			Labels:     uniquelabels.Make(labels),
		}
		for _, s := range ips {
			h.ExpectedIPv4Addrs = append(h.ExpectedIPv4Addrs, cnet.MustParseIP(s))
		}
		return h
	}
}

func vcPort(name, proto string, port uint16) model.EndpointPort {
	return model.EndpointPort{Name: name, Protocol: numorstring.ProtocolFromStringV1(proto), Port: port}
}

func vcProfileLabels(name string, labels map[string]string) func() any {
	return func() any {
		l := map[string]string{}
		for k, v := range labels {
			l[k] = v
		}
		return &v3.Profile{
			TypeMeta:   metav1.TypeMeta{Kind: v3.KindProfile, APIVersion: v3.GroupVersionCurrent},
			ObjectMeta: metav1.ObjectMeta{Name: name},
			Spec:       v3.ProfileSpec{LabelsToApply: l},
		}
	}
}

func vcProfileRules(in, out []model.Rule) func() any {
	return func() any {
		return &model.ProfileRules{InboundRules: append([]model.Rule(nil), in...), OutboundRules: append([]model.Rule(nil), out...)}
	}
}

func vcTier(order *float64, act v3.Action) func() any {
	return func() any {
		t := &model.Tier{DefaultAction: act}
		if order != nil {
			t.Order = vcF(*order)
		}
		return t
	}
}

type vcPol struct {
	Tier  string
	Order *float64
	Sel   string
	Types []string
	In    []model.Rule
	Out   []model.Rule
	// host-endpoint flavours
	Fwd, PreDNAT, Untracked bool
}

func (p vcPol) mk() func() any {
	return func() any {
		m := &model.Policy{
			Tier:           p.Tier,
			Selector:       p.Sel,
			Types:          append([]string(nil), p.Types...),
			InboundRules:   append([]model.Rule(nil), p.In...),
			OutboundRules:  append([]model.Rule(nil), p.Out...),
			ApplyOnForward: p.Fwd,
			PreDNAT:        p.PreDNAT,
			DoNotTrack:     p.Untracked,
		}
		if p.Order != nil {
			m.Order = vcF(*p.Order)
		}
		return m
	}
}

func vcPolKey(name string) model.PolicyKey {
	return model.PolicyKey{Name: name, Kind: v3.KindGlobalNetworkPolicy}
}

// a rule that fails validation: numeric port without a protocol
var vcBadRule = model.Rule{Action: "allow", DstPorts: []numorstring.Port{numorstring.SinglePort(80)}}

func vcProfRulesKey(name string) model.ProfileRulesKey {
	return model.ProfileRulesKey{ProfileKey: model.ProfileKey{Name: name}}
}

// ---------------------------------------------------------------------------------------------
// U-pol: tiers / policies / profiles / label inheritance / ordering

func vcUniversePol() *vcUniverse {
	return &vcUniverse{Name: "pol", Batch: []vcBatchKey{
		// every pair of {valid, invalid, delete} over three keys of validated kinds
		{Key: "p1rules", Choices: []string{"allow", "X", "-"}},
		{Key: "pA", Choices: []string{"t1o2both", "X", "-"}},
		{Key: "w1", Choices: []string{"A", "X", "-"}},
	}, Keys: []vcKeyDef{
		{Name: "w1", Key: vcWEPKey(vcLocal, "w1"), Vars: []vcVariant{
			{Name: "A", Make: vcWEP("cali1", map[string]string{"a": "1"}, []string{"p1"}, []string{"10.0.0.1/32"}, vcPort("http", "tcp", 80))},
			// own label b overrides the b inherited from p1; profile order differs
			{Name: "B", Make: vcWEP("cali1", map[string]string{"a": "2", "b": "own"}, []string{"p2", "p1"}, []string{"10.0.0.2/32"})},
			{Name: "X", Invalid: true, Make: vcWEP("", map[string]string{"a": "1"}, []string{"p1"}, []string{"10.0.0.1/32"})},
		}},
		{Name: "he1", Key: model.HostEndpointKey{Hostname: vcLocal, EndpointID: "he1"}, Vars: []vcVariant{
			{Name: "A", Make: vcHEP(map[string]string{"a": "1"}, []string{"p1"}, "10.0.0.1")},
		}},
		{Name: "p1lab", Key: model.ResourceKey{Kind: v3.KindProfile, Name: "p1"}, Vars: []vcVariant{
			{Name: "b1", Make: vcProfileLabels("p1", map[string]string{"b": "1"})},
			{Name: "none", Make: vcProfileLabels("p1", map[string]string{})},
			{Name: "X", Invalid: true, Make: vcProfileLabels("p1", map[string]string{"bad key!": "1"})},
		}},
		{Name: "p1rules", Key: vcProfRulesKey("p1"), Vars: []vcVariant{
			{Name: "allow", Make: vcProfileRules([]model.Rule{{Action: "allow"}}, []model.Rule{{Action: "allow"}})},
			{Name: "sel", Make: vcProfileRules([]model.Rule{{Action: "allow", SrcSelector: "a == '2'"}}, []model.Rule{{Action: "deny"}, {Action: "allow"}})},
			// valid but EMPTY (the shape of the Kubernetes service-account profiles): not the same as missing
			{Name: "empty", Make: vcProfileRules(nil, nil)},
			{Name: "X", Invalid: true, Make: vcProfileRules([]model.Rule{vcBadRule}, []model.Rule{{Action: "allow"}})},
		}},
		{Name: "t1", Key: model.TierKey{Name: "t1"}, Vars: []vcVariant{
			{Name: "o10deny", Make: vcTier(vcF(10), v3.Deny)},
			{Name: "o30pass", Make: vcTier(vcF(30), v3.Pass)},
			{Name: "nilDeny", Make: vcTier(nil, v3.Deny)},
		}},
		{Name: "t2", Key: model.TierKey{Name: "t2"}, Vars: []vcVariant{
			{Name: "o20deny", Make: vcTier(vcF(20), v3.Deny)},
			{Name: "o10pass", Make: vcTier(vcF(10), v3.Pass)}, // ties with t1=o10deny -> name decides
			{Name: "zero", Make: vcTier(nil, "")},             // valid but empty: no order, no default action
		}},
		{Name: "pA", Key: vcPolKey("pA"), Vars: []vcVariant{
			{Name: "t1o1in", Make: vcPol{Tier: "t1", Order: vcF(1), Sel: "a == '1'", Types: []string{"ingress"}, In: []model.Rule{{Action: "allow"}}}.mk()},
			{Name: "t2nilEg", Make: vcPol{Tier: "t2", Sel: "has(b)", Types: []string{"egress"}, Out: []model.Rule{{Action: "allow", DstSelector: "a == '2'"}}}.mk()},
			{Name: "t1o2both", Make: vcPol{Tier: "t1", Order: vcF(2), Sel: "all()", In: []model.Rule{{Action: "allow", Protocol: vcProto("tcp"), DstPorts: []numorstring.Port{vcNamedPort("http")}}}}.mk()},
			// same selector as t1o1in, other order and direction: a metadata-only change, which can
			// happen while the policy matches nothing
			{Name: "t1o2eg", Make: vcPol{Tier: "t1", Order: vcF(2), Sel: "a == '1'", Types: []string{"egress"}, Out: []model.Rule{{Action: "allow"}}}.mk()},
			{Name: "X", Invalid: true, Make: vcPol{Tier: "t1", Order: vcF(1), Sel: "all()", In: []model.Rule{vcBadRule}}.mk()},
		}},
		{Name: "pB", Key: vcPolKey("pB"), Vars: []vcVariant{
			{Name: "t1o1both", Make: vcPol{Tier: "t1", Order: vcF(1), Sel: "all()", Types: []string{"ingress", "egress"}, In: []model.Rule{{Action: "deny"}}, Out: []model.Rule{{Action: "allow"}}}.mk()}, // ties with pA=t1o1in
			{Name: "t1nilB1", Make: vcPol{Tier: "t1", Sel: "b == '1'", In: []model.Rule{{Action: "deny", NotSrcSelector: "a == '2'"}}}.mk()},
			{Name: "t1o1norules", Make: vcPol{Tier: "t1", Order: vcF(1), Sel: "all()"}.mk()}, // valid but empty: no rules, no types
			// host-endpoint flavours: apply-on-forward (egress-only / ingress-only / both), pre-DNAT, untracked
			{Name: "fwdEg", Make: vcPol{Tier: "t1", Order: vcF(1), Sel: "all()", Types: []string{"egress"}, Fwd: true, Out: []model.Rule{{Action: "allow"}}}.mk()},
			{Name: "fwdIn", Make: vcPol{Tier: "t2", Order: vcF(1), Sel: "all()", Types: []string{"ingress"}, Fwd: true, In: []model.Rule{{Action: "allow"}}}.mk()},
			{Name: "fwdBoth", Make: vcPol{Tier: "t1", Order: vcF(1), Sel: "a == '1'", Fwd: true, In: []model.Rule{{Action: "allow"}}}.mk()},
			{Name: "preDNAT", Make: vcPol{Tier: "t1", Order: vcF(1), Sel: "all()", Types: []string{"ingress"}, Fwd: true, PreDNAT: true, In: []model.Rule{{Action: "allow"}}}.mk()},
			{Name: "untracked", Make: vcPol{Tier: "t1", Order: vcF(1), Sel: "all()", Fwd: true, Untracked: true, In: []model.Rule{{Action: "allow"}}, Out: []model.Rule{{Action: "allow"}}}.mk()},
		}},
	}}
}

// ---------------------------------------------------------------------------------------------
// U-set: IP sets (rule selectors, named ports, negation), shared IPs, remote endpoints, network sets

func vcUniverseSet() *vcUniverse {
	return &vcUniverse{Name: "set", Batch: []vcBatchKey{
		{Key: "p1rules", Choices: []string{"sel", "X", "-"}},
		{Key: "pA", Choices: []string{"srcA2", "-"}},
		{Key: "w1", Choices: []string{"A", "B", "-"}},
	}, Keys: []vcKeyDef{
		{Name: "w1", Key: vcWEPKey(vcLocal, "w1"), Vars: []vcVariant{
			{Name: "A", Make: vcWEP("cali1", map[string]string{"a": "1"}, []string{"p1"}, []string{"10.0.0.1/32"}, vcPort("http", "tcp", 80))},
			{Name: "B", Make: vcWEP("cali1", map[string]string{"a": "2"}, nil, []string{"10.0.0.2/32", "10.0.0.1/32"}, vcPort("http", "udp", 80))},
			{Name: "bare", Make: vcWEP("cali1", nil, []string{"p1"}, nil)}, // valid but empty: no labels, no addresses
		}},
		{Name: "r1", Key: vcWEPKey(vcRemote, "r1"), Vars: []vcVariant{
			{Name: "A", Make: vcWEP("cali9", map[string]string{"a": "2"}, nil, []string{"10.0.0.2/32"}, vcPort("http", "tcp", 8080))}, // shares 10.0.0.2 with w1=B
			{Name: "B", Make: vcWEP("cali9", map[string]string{"a": "1"}, nil, []string{"10.0.0.3/32"})},
		}},
		{Name: "n1", Key: model.NetworkSetKey{Name: "n1"}, Vars: []vcVariant{
			{Name: "A", Make: func() any {
				return &model.NetworkSet{Nets: vcNets("10.0.0.0/24", "10.0.0.2/32"), Labels: uniquelabels.Make(map[string]string{"a": "2"})}
			}},
			{Name: "B", Make: func() any {
				return &model.NetworkSet{Nets: vcNets("0.0.0.0/0", "10.0.0.0/25"), Labels: uniquelabels.Make(map[string]string{"a": "2"})}
			}},
			{Name: "noNets", Make: func() any { // valid but empty: matches the selectors, contributes nothing
				return &model.NetworkSet{Labels: uniquelabels.Make(map[string]string{"a": "2"})}
			}},
		}},
		{Name: "p1rules", Key: vcProfRulesKey("p1"), Vars: []vcVariant{
			{Name: "sel", Make: vcProfileRules([]model.Rule{{Action: "allow", SrcSelector: "a == '2'"}}, nil)},
			{Name: "port", Make: vcProfileRules([]model.Rule{{Action: "allow", Protocol: vcProto("tcp"), DstPorts: []numorstring.Port{vcNamedPort("http")}}}, nil)},
			{Name: "empty", Make: vcProfileRules(nil, nil)}, // valid but empty
			{Name: "X", Invalid: true, Make: vcProfileRules([]model.Rule{vcBadRule}, nil)},
		}},
		{Name: "t1", Key: model.TierKey{Name: "t1"}, Vars: []vcVariant{
			{Name: "o10", Make: vcTier(vcF(10), v3.Deny)},
		}},
		{Name: "pA", Key: vcPolKey("pA"), Vars: []vcVariant{
			{Name: "srcA2", Make: vcPol{Tier: "t1", Order: vcF(1), Sel: "all()", In: []model.Rule{{Action: "allow", SrcSelector: "a == '2'"}}}.mk()},
			{Name: "mixed", Make: vcPol{Tier: "t1", Order: vcF(1), Sel: "all()",
				In:  []model.Rule{{Action: "allow", SrcSelector: "has(a)", NotSrcSelector: "a == '1'"}, {Action: "deny", NotSrcSelector: "a == '2'"}},
				Out: []model.Rule{{Action: "allow", Protocol: vcProto("tcp"), DstSelector: "a == '2'", DstPorts: []numorstring.Port{vcNamedPort("http")}}}}.mk()},
			{Name: "onlyA1", Make: vcPol{Tier: "t1", Order: vcF(1), Sel: "a == '1'", In: []model.Rule{{Action: "allow", SrcSelector: "a == '2'"}}}.mk()},
		}},
		{Name: "pB", Key: vcPolKey("pB"), Vars: []vcVariant{
			// same selector as pA=srcA2 / p1rules=sel: one IP set shared by several rule owners
			{Name: "dstA2", Make: vcPol{Tier: "t1", Order: vcF(2), Sel: "all()", Types: []string{"egress"}, Out: []model.Rule{{Action: "allow", DstSelector: "a == '2'"}}}.mk()},
			{Name: "norules", Make: vcPol{Tier: "t1", Order: vcF(2), Sel: "all()"}.mk()}, // valid but empty
		}},
	}}
}

// ---------------------------------------------------------------------------------------------
// U-route: nodes, VXLAN tunnel config, IP pool, IPAM block, workload addresses

func vcNode(name, bgpV4, vxlanAddr string) func() any {
	return func() any {
		n := &internalapi.Node{
			TypeMeta:   metav1.TypeMeta{Kind: internalapi.KindNode, APIVersion: v3.GroupVersionCurrent},
			ObjectMeta: metav1.ObjectMeta{Name: name},
		}
		if bgpV4 != "" {
			n.Spec.BGP = &internalapi.NodeBGPSpec{IPv4Address: bgpV4}
		}
		n.Spec.IPv4VXLANTunnelAddr = vxlanAddr
		return n
	}
}

func vcBlock(cidr, affinityHost string, borrowedBy ...string) func() any {
	return func() any {
		aff := "host:" + affinityHost
		n := 4
		b := &model.AllocationBlock{
			CIDR:        cnet.MustParseNetwork(cidr),
			Affinity:    &aff,
			Allocations: make([]*int, n),
		}
		b.Attributes = append(b.Attributes, model.AllocationAttribute{})
		for i, host := range borrowedBy {
			ix := len(b.Attributes)
			b.Attributes = append(b.Attributes, model.AllocationAttribute{ActiveOwnerAttrs: map[string]string{model.IPAMBlockAttributeNode: host}})
			b.Allocations[i+1] = &ix
		}
		for i := 0; i < n; i++ {
			if b.Allocations[i] == nil {
				b.Unallocated = append(b.Unallocated, i)
			}
		}
		return b
	}
}

func vcPool(cidr string, vxlan, ipip encap.Mode, masq bool) func() any {
	return func() any {
		return &model.IPPool{CIDR: cnet.MustParseNetwork(cidr), VXLANMode: vxlan, IPIPMode: ipip, Masquerade: masq}
	}
}

func vcStr(s string) func() any { return func() any { return s } }

func vcUniverseRoute() *vcUniverse {
	return &vcUniverse{Name: "route", Keys: []vcKeyDef{
		{Name: "h1", Key: model.ResourceKey{Kind: internalapi.KindNode, Name: vcLocal}, Vars: []vcVariant{
			{Name: "net24", Make: vcNode(vcLocal, "192.168.0.1/24", "10.0.0.0")},
			{Name: "net32", Make: vcNode(vcLocal, "192.168.0.1/32", "")},
		}},
		{Name: "h2", Key: model.ResourceKey{Kind: internalapi.KindNode, Name: vcRemote}, Vars: []vcVariant{
			{Name: "near", Make: vcNode(vcRemote, "192.168.0.2/24", "10.0.1.0")},
			{Name: "far", Make: vcNode(vcRemote, "192.168.1.2/24", "10.0.1.0")},
			{Name: "noBGP", Make: vcNode(vcRemote, "", "")},
		}},
		{Name: "h2tun", Key: model.HostConfigKey{Hostname: vcRemote, Name: "IPv4VXLANTunnelAddr"}, Vars: []vcVariant{
			{Name: "t0", Make: vcStr("10.0.1.0")},
			{Name: "t1", Make: vcStr("10.0.1.1")},
		}},
		{Name: "h2mac", Key: model.HostConfigKey{Hostname: vcRemote, Name: "VXLANTunnelMACAddr"}, Vars: []vcVariant{
			{Name: "m", Make: vcStr("66:00:00:00:00:02")},
		}},
		{Name: "pool", Key: model.IPPoolKey{CIDR: netip.MustParsePrefix("10.0.0.0/16")}, Vars: []vcVariant{
			{Name: "vxlan", Make: vcPool("10.0.0.0/16", encap.Always, encap.Never, true)},
			{Name: "vxlanX", Make: vcPool("10.0.0.0/16", encap.CrossSubnet, encap.Never, false)},
			{Name: "ipip", Make: vcPool("10.0.0.0/16", encap.Never, encap.Always, false)},
		}},
		{Name: "blk", Key: model.BlockKey{CIDR: netip.MustParsePrefix("10.0.1.0/30")}, Vars: []vcVariant{
			{Name: "h2", Make: vcBlock("10.0.1.0/30", vcRemote)},
			{Name: "h2borrowH1", Make: vcBlock("10.0.1.0/30", vcRemote, vcLocal)},
			{Name: "h1", Make: vcBlock("10.0.1.0/30", vcLocal)},
		}},
		{Name: "w1", Key: vcWEPKey(vcLocal, "w1"), Vars: []vcVariant{
			{Name: "in", Make: vcWEP("cali1", map[string]string{"a": "1"}, nil, []string{"10.0.1.1/32"})},  // inside the block (borrowed when the block is h2's)
			{Name: "tun", Make: vcWEP("cali1", map[string]string{"a": "1"}, nil, []string{"10.0.1.0/32"})}, // collides with h2's tunnel address
		}},
	}}
}

// ---------------------------------------------------------------------------------------------
// U-route6: the IPv6 twin of U-route (dual-stack nodes whose IPv6 underlay address / subnet changes
// in place or arrives late, IPv6 VXLAN tunnel address + MAC host config, IPv6 cross-subnet VXLAN
// pool, IPv6 block, workload with an IPv6 address)

func vcNode6(name, bgpV4, bgpV6, vxlanAddr6 string) func() any {
	return func() any {
		n := &internalapi.Node{
			TypeMeta:   metav1.TypeMeta{Kind: internalapi.KindNode, APIVersion: v3.GroupVersionCurrent},
			ObjectMeta: metav1.ObjectMeta{Name: name},
		}
		n.Spec.BGP = &internalapi.NodeBGPSpec{IPv4Address: bgpV4, IPv6Address: bgpV6}
		n.Spec.IPv6VXLANTunnelAddr = vxlanAddr6
		return n
	}
}

func vcWEP6(iface string, labels map[string]string, nets6 ...string) func() any {
	return func() any {
		return &model.WorkloadEndpoint{
			State:    "active",
			Name:     iface,
			IPv6Nets: vcNets(nets6...),
			Labels:   uniquelabels.Make(labels),
		}
	}
}

func vcUniverseRoute6() *vcUniverse {
	return &vcUniverse{Name: "route6", Keys: []vcKeyDef{
		{Name: "h1", Key: model.ResourceKey{Kind: internalapi.KindNode, Name: vcLocal}, Vars: []vcVariant{
			{Name: "netA", Make: vcNode6(vcLocal, "192.168.0.1/24", "fd00::1/64", "fd10::")},
			{Name: "netB", Make: vcNode6(vcLocal, "192.168.0.1/24", "fd00:0:0:1::1/64", "fd10::")}, // only the IPv6 subnet differs
			{Name: "v4only", Make: vcNode6(vcLocal, "192.168.0.1/24", "", "")},
		}},
		{Name: "h2", Key: model.ResourceKey{Kind: internalapi.KindNode, Name: vcRemote}, Vars: []vcVariant{
			{Name: "inA", Make: vcNode6(vcRemote, "192.168.0.2/24", "fd00::2/64", "fd10:0:0:1::")},
			{Name: "inB", Make: vcNode6(vcRemote, "192.168.0.2/24", "fd00:0:0:1::2/64", "fd10:0:0:1::")}, // only the IPv6 underlay address differs
			{Name: "v4only", Make: vcNode6(vcRemote, "192.168.0.2/24", "", "")},
		}},
		{Name: "h2tun6", Key: model.HostConfigKey{Hostname: vcRemote, Name: "IPv6VXLANTunnelAddr"}, Vars: []vcVariant{
			{Name: "t0", Make: vcStr("fd10:0:0:1::")},
			{Name: "t1", Make: vcStr("fd10:0:0:1::1")},
		}},
		{Name: "h2mac6", Key: model.HostConfigKey{Hostname: vcRemote, Name: "VXLANTunnelMACAddrV6"}, Vars: []vcVariant{
			{Name: "m", Make: vcStr("66:00:00:00:06:02")},
		}},
		{Name: "pool6", Key: model.IPPoolKey{CIDR: netip.MustParsePrefix("fd10::/48")}, Vars: []vcVariant{
			{Name: "vxlanX", Make: vcPool("fd10::/48", encap.CrossSubnet, encap.Never, false)},
			{Name: "vxlan", Make: vcPool("fd10::/48", encap.Always, encap.Never, true)},
		}},
		{Name: "blk6", Key: model.BlockKey{CIDR: netip.MustParsePrefix("fd10:0:0:1::/126")}, Vars: []vcVariant{
			{Name: "h2", Make: vcBlock("fd10:0:0:1::/126", vcRemote)},
			{Name: "h1", Make: vcBlock("fd10:0:0:1::/126", vcLocal)},
		}},
		{Name: "w1", Key: vcWEPKey(vcLocal, "w1"), Vars: []vcVariant{
			{Name: "in6", Make: vcWEP6("cali1", map[string]string{"a": "1"}, "fd10:0:0:1::1/128")},
		}},
	}}
}

// ---------------------------------------------------------------------------------------------
// U-dup: endpoints / network sets whose profile list names the same profile twice (legal input:
// the validators only check each name). Explored separately so that the suspected defect H04 cannot
// hide the rest of the space.

func vcUniverseDup() *vcUniverse {
	return &vcUniverse{Name: "dup", Keys: []vcKeyDef{
		{Name: "w1", Key: vcWEPKey(vcLocal, "w1"), Vars: []vcVariant{
			{Name: "p1", Make: vcWEP("cali1", map[string]string{"a": "1"}, []string{"p1"}, []string{"10.0.0.1/32"})},
			{Name: "p1p1", Dup: true, Make: vcWEP("cali1", map[string]string{"a": "1"}, []string{"p1", "p1"}, []string{"10.0.0.1/32"})},
			{Name: "p1p1b", Dup: true, Make: vcWEP("cali1", map[string]string{"a": "2"}, []string{"p1", "p1"}, []string{"10.0.0.1/32"})},
			{Name: "p2", Make: vcWEP("cali1", map[string]string{"a": "1"}, []string{"p2"}, []string{"10.0.0.1/32"})},
		}},
		{Name: "he1", Key: model.HostEndpointKey{Hostname: vcLocal, EndpointID: "he1"}, Vars: []vcVariant{
			{Name: "p1p1", Dup: true, Make: vcHEP(map[string]string{"a": "1"}, []string{"p1", "p1"}, "10.0.0.9")},
		}},
		{Name: "n1", Key: model.NetworkSetKey{Name: "n1"}, Vars: []vcVariant{
			{Name: "p1p1", Dup: true, Make: func() any {
				return &model.NetworkSet{Nets: vcNets("10.1.0.0/24"), Labels: uniquelabels.Make(map[string]string{"a": "2"}), ProfileIDs: []string{"p1", "p1"}}
			}},
		}},
		{Name: "p1lab", Key: model.ResourceKey{Kind: v3.KindProfile, Name: "p1"}, Vars: []vcVariant{
			{Name: "b1", Make: vcProfileLabels("p1", map[string]string{"b": "1"})},
			{Name: "none", Make: vcProfileLabels("p1", map[string]string{})},
		}},
		{Name: "p1rules", Key: vcProfRulesKey("p1"), Vars: []vcVariant{
			{Name: "allow", Make: vcProfileRules([]model.Rule{{Action: "allow"}}, []model.Rule{{Action: "allow"}})},
		}},
		{Name: "t1", Key: model.TierKey{Name: "t1"}, Vars: []vcVariant{
			{Name: "o10", Make: vcTier(vcF(10), v3.Deny)},
		}},
		{Name: "pA", Key: vcPolKey("pA"), Vars: []vcVariant{
			{Name: "hasB", Make: vcPol{Tier: "t1", Order: vcF(1), Sel: "has(b)", In: []model.Rule{{Action: "allow", SrcSelector: "has(b)"}}}.mk()},
		}},
	}}
}

// ---------------------------------------------------------------------------------------------
// plan

// Base states: the explored histories start after this prefix (which is replayed on every instance but
// is not part of the depth bound). "full"/"alt" are populated, in-sync and flushed (teardown, change
// and re-parenting direction); "flap" is populated and flushed followed by changes that were reverted
// again before any flush (coalesced churn); "dangling" (pol only) is populated with references to
// objects that have not arrived; "unsynced" is mid-resync: data delivered, no in-sync,
// nothing flushed.
var vcBases = map[string]map[string][]string{
	"pol": {
		"empty":    nil,
		"full":     {"t1=o10deny", "t2=o20deny", "p1lab=b1", "p1rules=allow", "pA=t1o1in", "pB=t1o1both", "w1=A", "he1=A", "insync", "flush"},
		"alt":      {"t1=nilDeny", "t2=o10pass", "p1lab=b1", "p1rules=sel", "pA=t2nilEg", "pB=t1nilB1", "w1=B", "insync", "flush"},
		"unsynced": {"w1=A", "pA=t1o2both", "pB=t1o1both", "t1=o30pass", "p1rules=sel"},
		// populated + flushed, then a change that was reverted again before any flush (coalesced churn):
		// w1 started and stopped matching pA
		"flap": {"t1=o10deny", "p1rules=allow", "pA=t1o1in", "pB=t1o1both", "w1=B", "insync", "flush", "w1=A", "w1=B"},
		// populated with dangling references: the endpoint's profile has neither labels nor rules yet,
		// pA names a tier that does not exist; both policies select on a label only the profile can give
		"dangling": {"t1=o10deny", "pA=t2nilEg", "pB=t1nilB1", "w1=A", "insync", "flush"},
	},
	"set": {
		"empty":    nil,
		"full":     {"t1=o10", "p1rules=sel", "pA=srcA2", "pB=dstA2", "w1=A", "r1=A", "n1=A", "insync", "flush"},
		"alt":      {"t1=o10", "p1rules=port", "pA=mixed", "w1=B", "r1=A", "n1=B", "insync", "flush"},
		"unsynced": {"w1=A", "r1=A", "pA=mixed", "p1rules=sel", "n1=A"},
		"flap":     {"t1=o10", "p1rules=sel", "pA=onlyA1", "pB=dstA2", "w1=B", "r1=A", "insync", "flush", "w1=A", "w1=B", "r1=B", "r1=A"},
	},
	"route": {
		"empty":    nil,
		"full":     {"h1=net24", "h2=near", "h2tun=t0", "pool=vxlan", "blk=h2", "w1=in", "insync", "flush"},
		"alt":      {"h1=net24", "h2=far", "h2tun=t1", "h2mac=m", "pool=vxlanX", "blk=h2borrowH1", "w1=tun", "insync", "flush"},
		"unsynced": {"w1=in", "blk=h2", "h2tun=t0", "h2=near", "pool=vxlan"},
		"flap":     {"h1=net24", "h2=near", "h2tun=t0", "pool=vxlan", "blk=h2", "w1=in", "insync", "flush", "blk=h1", "blk=h2", "h2tun=t1", "h2tun=t0", "-w1", "w1=in"},
	},
	"route6": {
		"empty":    nil,
		"full":     {"h1=netA", "h2=inA", "h2tun6=t0", "pool6=vxlanX", "blk6=h2", "w1=in6", "insync", "flush"},
		"flap":     {"h1=netA", "h2=inA", "h2tun6=t0", "h2mac6=m", "pool6=vxlanX", "blk6=h2", "insync", "flush", "h1=netB", "h1=netA", "h2=inB", "h2=inA", "blk6=h1", "blk6=h2"},
		"unsynced": {"blk6=h2", "h2=inA", "pool6=vxlanX", "h2tun6=t0"},
	},
	"dup": {
		"empty": nil,
		"full":  {"t1=o10", "p1lab=b1", "p1rules=allow", "pA=hasB", "w1=p1p1", "insync", "flush"},
	},
}

var vcBaseOrder = []string{"empty", "full", "alt", "flap", "dangling", "unsynced"}

func vcUniverses() map[string]*vcUniverse {
	return map[string]*vcUniverse{"pol": vcUniversePol(), "set": vcUniverseSet(), "route": vcUniverseRoute(), "route6": vcUniverseRoute6(), "dup": vcUniverseDup()}
}

func vcPropUniverses(prop *vcProp) []string {
	if prop.Universes != nil {
		return prop.Universes
	}
	return []string{"pol", "set", "route", "route6"}
}

// vcPlan lists the explorations of this run. Quick: graph mode depth 3 from the empty, full, flap and dangling
// base states (alt in the thorough tier) of every universe (+ depth 4 from empty for the property's QuickDeep universes).
// Thorough: additionally the unsynced base, tree mode (no merging) depth 3 from empty, graph mode
// depth 4 from every base and depth 5 from the empty and full bases (deadline permitting).
func vcPlan(c *vk.Ctx, prop *vcProp) []vcPlanItem {
	us := vcUniverses()
	var plan []vcPlanItem
	add := func(un, base string, depth int, tree bool) {
		pre, ok := vcBases[un][base]
		if !ok {
			return
		}
		plan = append(plan, vcPlanItem{U: us[un], Base: base, Pre: pre, Depth: depth, Tree: tree})
	}
	// base states outermost, universes innermost: if a deadline cuts the run short, every universe has
	// at least had its first base states explored
	for _, base := range []string{"empty", "full", "flap", "dangling", "alt"} {
		for _, un := range vcPropUniverses(prop) {
			bases := []string{"empty", "full", "flap", "dangling"}
			if qb, ok := prop.QuickBases[un]; ok && c.Quick() {
				bases = qb
			}
			if c.Thorough() {
				bases = append(bases, "alt")
			}
			for _, bb := range bases {
				if bb == base {
					add(un, base, 3, false)
				}
			}
		}
	}
	// multi-update batches (one OnUpdates call carrying 2-3 KVs): depth 2, at most one batch per history
	for _, un := range vcPropUniverses(prop) {
		if len(us[un].Batch) == 0 {
			continue
		}
		bases := []string{"empty", "full", "dangling", "flap"}
		if c.Quick() {
			bases = prop.QuickBatchBases[un]
		}
		for _, base := range bases {
			if pre, ok := vcBases[un][base]; ok {
				plan = append(plan, vcPlanItem{U: us[un], Base: base, Pre: pre, Depth: 2, Batch: true})
			}
		}
	}
	if c.Quick() {
		for _, un := range prop.QuickDeep {
			add(un, "empty", 4, false)
		}
	}
	if c.Thorough() {
		for _, un := range vcPropUniverses(prop) {
			add(un, "unsynced", 3, false)
			add(un, "empty", 3, true)
		}
		for _, un := range vcPropUniverses(prop) {
			for _, base := range vcBaseOrder {
				add(un, base, 4, false)
			}
		}
		for _, un := range vcPropUniverses(prop) {
			add(un, "empty", 5, false)
			add(un, "full", 5, false)
		}
	}
	return plan
}

// vcAllPlanItems lists every exploration any tier may run (for --replay lookups by name).
func vcAllPlanItems(prop *vcProp) []vcPlanItem {
	us := vcUniverses()
	var plan []vcPlanItem
	for un, u := range us {
		for base, pre := range vcBases[un] {
			for d := 1; d <= 6; d++ {
				plan = append(plan, vcPlanItem{U: u, Base: base, Pre: pre, Depth: d}, vcPlanItem{U: u, Base: base, Pre: pre, Depth: d, Tree: true})
				if len(u.Batch) > 0 {
					plan = append(plan, vcPlanItem{U: u, Base: base, Pre: pre, Depth: d, Batch: true})
				}
			}
		}
	}
	return plan
}

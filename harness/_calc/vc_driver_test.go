package calc

// Shared driver for the calc-graph properties C01, C02, C03, C05 (shape H: explicit-state search over
// histories of datastore updates, replayed on the REAL graph wired exactly like the repo's FV test:
// ValidationFilter -> CalcGraph -> EventSequencer -> shadow dataplane).
//
// One exploration (universe x base state x {graph,tree} x depth) is shared by the four properties;
// each property plugs its own oracle in as vcProp.Check.

import (
	"fmt"
	"sort"
	"strings"
	"sync"
	"testing"

	"github.com/sirupsen/logrus"

	"github.com/projectcalico/calico/felix/config"
	"github.com/projectcalico/calico/felix/labelindex/ipsetmember"
	"github.com/projectcalico/calico/libcalico-go/lib/backend/api"
	"github.com/projectcalico/calico/libcalico-go/lib/backend/model"
	"github.com/projectcalico/calico/zzverif/hbfs"
	"github.com/projectcalico/calico/zzverif/shadowdp"
	"github.com/projectcalico/calico/zzverif/vk"
)

const (
	vcLocal  = "h1"
	vcRemote = "h2"
)

// ---------------------------------------------------------------------------------------------
// universes

type vcVariant struct {
	Name    string
	Make    func() any // builds a fresh value (never shared between graph instances)
	Invalid bool       // must be nil-ed by the ValidationFilter
	Dup     bool       // names the same profile twice
}

type vcKeyDef struct {
	Name string
	Key  model.Key
	Vars []vcVariant
}

type vcUniverse struct {
	Name string
	Keys []vcKeyDef
	// Batch lists, per key, the choices ("variant name" or "-" for delete) that are combined into
	// multi-update batches (several KVs in ONE OnUpdates call, as Typha / a start-of-day snapshot does).
	Batch []vcBatchKey
}

type vcBatchKey struct {
	Key     string
	Choices []string
}

// vcEv is one event of a history.
type vcEv struct {
	Op string // set del flush insync batch
	K  int
	V  int
	B  []vcEv // batch: the set/del sub-events delivered in one OnUpdates call (distinct keys)
}

func (u *vcUniverse) show(e vcEv) string {
	switch e.Op {
	case "set":
		return fmt.Sprintf("set(%s=%s)", u.Keys[e.K].Name, u.Keys[e.K].Vars[e.V].Name)
	case "del":
		return fmt.Sprintf("del(%s)", u.Keys[e.K].Name)
	case "batch":
		parts := make([]string, len(e.B))
		for i, b := range e.B {
			parts[i] = u.show(b)
		}
		return "batch[" + strings.Join(parts, " ") + "]"
	}
	return e.Op
}

// batchAlphabet is every batch of 2 (all ordered pairs of distinct batch keys) and of 3 (the batch keys
// in listed and in reversed order) with every combination of the keys' choices.
func (u *vcUniverse) batchAlphabet() []vcEv {
	choice := func(bk vcBatchKey, c string) vcEv {
		if c == "-" {
			return vcEv{Op: "del", K: u.keyIndex(bk.Key)}
		}
		k := u.keyIndex(bk.Key)
		return vcEv{Op: "set", K: k, V: u.varIndex(k, c)}
	}
	var out []vcEv
	var rec func(keys []vcBatchKey, acc []vcEv)
	rec = func(keys []vcBatchKey, acc []vcEv) {
		if len(keys) == 0 {
			out = append(out, vcEv{Op: "batch", B: append([]vcEv(nil), acc...)})
			return
		}
		for _, c := range keys[0].Choices {
			rec(keys[1:], append(acc, choice(keys[0], c)))
		}
	}
	n := len(u.Batch)
	for i := 0; i < n; i++ {
		for j := 0; j < n; j++ {
			if i != j {
				rec([]vcBatchKey{u.Batch[i], u.Batch[j]}, nil)
			}
		}
	}
	if n >= 3 {
		fwd := u.Batch[:3]
		rec(fwd, nil)
		rec([]vcBatchKey{fwd[2], fwd[1], fwd[0]}, nil)
	}
	return out
}

// alphabet is every set/del of every key plus flush and insync.
func (u *vcUniverse) alphabet() []vcEv {
	var evs []vcEv
	for k, kd := range u.Keys {
		for v := range kd.Vars {
			evs = append(evs, vcEv{Op: "set", K: k, V: v})
		}
		evs = append(evs, vcEv{Op: "del", K: k})
	}
	evs = append(evs, vcEv{Op: "flush"}, vcEv{Op: "insync"})
	return evs
}

func (u *vcUniverse) keyIndex(name string) int {
	for i, k := range u.Keys {
		if k.Name == name {
			return i
		}
	}
	panic("no key " + name + " in universe " + u.Name)
}

func (u *vcUniverse) varIndex(k int, name string) int {
	for i, v := range u.Keys[k].Vars {
		if v.Name == name {
			return i
		}
	}
	panic("no variant " + name + " of " + u.Keys[k].Name)
}

// ev parses "k=v", "-k", "flush", "insync".
func (u *vcUniverse) ev(s string) vcEv {
	switch {
	case s == "flush" || s == "insync":
		return vcEv{Op: s}
	case strings.HasPrefix(s, "-"):
		return vcEv{Op: "del", K: u.keyIndex(s[1:])}
	}
	p := strings.SplitN(s, "=", 2)
	k := u.keyIndex(p[0])
	return vcEv{Op: "set", K: k, V: u.varIndex(k, p[1])}
}

func (u *vcUniverse) evs(ss ...string) []vcEv {
	out := make([]vcEv, len(ss))
	for i, s := range ss {
		out[i] = u.ev(s)
	}
	return out
}

// ---------------------------------------------------------------------------------------------
// one real graph + its shadow dataplane

type vcGraph struct {
	es     *EventSequencer
	cg     *CalcGraph
	vf     *ValidationFilter
	dp     *shadowdp.DP
	inSync bool
}

func vcNewGraph() *vcGraph {
	conf := config.New()
	conf.FelixHostname = vcLocal
	conf.BPFEnabled = true
	conf.Encapsulation = config.Encapsulation{VXLANEnabled: true, VXLANEnabledV6: true}
	g := &vcGraph{dp: shadowdp.New()}
	g.es = NewEventSequencer(conf)
	g.es.Callback = g.dp.OnEvent
	g.cg = NewCalculationGraph(g.es, nil, conf, func() {})
	g.vf = NewValidationFilter(g.cg, conf)
	return g
}

func (g *vcGraph) deliver(key model.Key, val any, ut api.UpdateType) {
	g.vf.OnUpdates([]api.Update{{KVPair: model.KVPair{Key: key, Value: val}, UpdateType: ut}})
}

func (g *vcGraph) insync() {
	if !g.inSync {
		g.inSync = true
		g.vf.OnStatusUpdated(api.InSync)
	}
}

func (g *vcGraph) flush() {
	g.dp.BeginBatch()
	g.cg.Flush()
	g.es.Flush()
	g.dp.EndBatch()
}

// pendingDigest is a canonical digest of what the EventSequencer currently holds unflushed (object
// identities only). It is part of the state key: two states that agree on datastore contents and on
// what the dataplane has, but differ in what is queued, are different states.
func (g *vcGraph) pendingDigest() string {
	b := g.es
	var parts []string
	add := func(tag string, ids []string) {
		if len(ids) == 0 {
			return
		}
		sort.Strings(ids)
		parts = append(parts, tag+"="+strings.Join(ids, ","))
	}
	var ids []string
	for id := range b.pendingAddedIPSets {
		ids = append(ids, id)
	}
	add("+ipset", ids)
	ids = nil
	for id := range b.pendingRemovedIPSets.All() {
		ids = append(ids, id)
	}
	add("-ipset", ids)
	ids = nil
	b.pendingAddedIPSetMembers.IterKeys(func(k string) {
		b.pendingAddedIPSetMembers.Iter(k, func(m ipsetmember.IPSetMember) { ids = append(ids, k+"/"+m.ToProtobufFormat()) })
	})
	add("+mem", ids)
	ids = nil
	b.pendingRemovedIPSetMembers.IterKeys(func(k string) {
		b.pendingRemovedIPSetMembers.Iter(k, func(m ipsetmember.IPSetMember) { ids = append(ids, k+"/"+m.ToProtobufFormat()) })
	})
	add("-mem", ids)
	ids = nil
	for k := range b.pendingPolicyUpdates {
		ids = append(ids, k.String())
	}
	add("+pol", ids)
	ids = nil
	for k := range b.pendingPolicyDeletes.All() {
		ids = append(ids, k.String())
	}
	add("-pol", ids)
	ids = nil
	for k := range b.pendingProfileUpdates {
		ids = append(ids, k.String())
	}
	add("+prof", ids)
	ids = nil
	for k := range b.pendingProfileDeletes.All() {
		ids = append(ids, k.String())
	}
	add("-prof", ids)
	ids = nil
	for k := range b.pendingEndpointUpdates {
		ids = append(ids, k.String())
	}
	add("+ep", ids)
	ids = nil
	for k := range b.pendingEndpointDeletes.All() {
		ids = append(ids, k.String())
	}
	add("-ep", ids)
	ids = nil
	for k := range b.pendingRouteUpdates {
		ids = append(ids, k.dst)
	}
	add("+rt", ids)
	ids = nil
	for k := range b.pendingRouteDeletes.All() {
		ids = append(ids, k.dst)
	}
	add("-rt", ids)
	ids = nil
	for k := range b.pendingVTEPUpdates {
		ids = append(ids, k)
	}
	add("+vtep", ids)
	ids = nil
	for k := range b.pendingVTEPDeletes.All() {
		ids = append(ids, k)
	}
	add("-vtep", ids)
	ids = nil
	for k := range b.pendingHostMetadataUpdates {
		ids = append(ids, k)
	}
	add("+host", ids)
	ids = nil
	for k := range b.pendingHostMetadataDeletes.All() {
		ids = append(ids, k)
	}
	add("-host", ids)
	ids = nil
	for k := range b.pendingIPPoolUpdates {
		ids = append(ids, k.String())
	}
	add("+pool", ids)
	ids = nil
	for k := range b.pendingIPPoolDeletes.All() {
		ids = append(ids, k.String())
	}
	add("-pool", ids)
	if b.pendingEncapUpdate != nil {
		parts = append(parts, "encap")
	}
	if b.pendingGlobalConfig != nil {
		parts = append(parts, "config")
	}
	if b.pendingNotReady {
		parts = append(parts, "notready")
	}
	return strings.Join(parts, ";")
}

// ---------------------------------------------------------------------------------------------
// explored state

type vcState struct {
	u  *vcUniverse
	g  *vcGraph
	ds []int // per key: -1 absent, else the variant last delivered
	// delivered says an update has been delivered since the last flush
	delivered bool
	// twin (C05 only): same history with every invalid write replaced by a delete
	twin *vcGraph

	settled  bool
	keyCache string
	keyed    bool
	sawDup   bool
	batches  int // number of batch events applied so far
}

func (s *vcState) dsString() string {
	var b strings.Builder
	for k, v := range s.ds {
		if v >= 0 {
			fmt.Fprintf(&b, "%s=%s,", s.u.Keys[k].Name, s.u.Keys[k].Vars[v].Name)
		}
	}
	return b.String()
}

func (s *vcState) apply(e vcEv) {
	if s.settled {
		panic("harness bug: event applied to a settled (probed) state")
	}
	switch e.Op {
	case "set":
		kd := s.u.Keys[e.K]
		vr := kd.Vars[e.V]
		ut := api.UpdateTypeKVUpdated
		if s.ds[e.K] < 0 {
			ut = api.UpdateTypeKVNew
		}
		if vr.Dup {
			s.sawDup = true
		}
		s.g.deliver(kd.Key, vr.Make(), ut)
		if s.twin != nil {
			if vr.Invalid {
				s.twin.deliver(kd.Key, nil, api.UpdateTypeKVDeleted)
			} else {
				s.twin.deliver(kd.Key, vr.Make(), ut)
			}
		}
		s.ds[e.K] = e.V
		s.delivered = true
	case "del":
		kd := s.u.Keys[e.K]
		s.g.deliver(kd.Key, nil, api.UpdateTypeKVDeleted)
		if s.twin != nil {
			s.twin.deliver(kd.Key, nil, api.UpdateTypeKVDeleted)
		}
		s.ds[e.K] = -1
		s.delivered = true
	case "batch":
		// all sub-events in ONE OnUpdates call; the twin gets the same batch with invalid -> delete
		var main, twin []api.Update
		for _, b := range e.B {
			kd := s.u.Keys[b.K]
			if b.Op == "del" {
				up := api.Update{KVPair: model.KVPair{Key: kd.Key}, UpdateType: api.UpdateTypeKVDeleted}
				main, twin = append(main, up), append(twin, up)
				s.ds[b.K] = -1
				continue
			}
			vr := kd.Vars[b.V]
			ut := api.UpdateTypeKVUpdated
			if s.ds[b.K] < 0 {
				ut = api.UpdateTypeKVNew
			}
			main = append(main, api.Update{KVPair: model.KVPair{Key: kd.Key, Value: vr.Make()}, UpdateType: ut})
			if vr.Invalid {
				twin = append(twin, api.Update{KVPair: model.KVPair{Key: kd.Key}, UpdateType: api.UpdateTypeKVDeleted})
			} else {
				twin = append(twin, api.Update{KVPair: model.KVPair{Key: kd.Key, Value: vr.Make()}, UpdateType: ut})
			}
			s.ds[b.K] = b.V
		}
		s.g.vf.OnUpdates(main)
		if s.twin != nil {
			s.twin.vf.OnUpdates(twin)
		}
		s.delivered = true
		s.batches++
	case "flush":
		s.g.flush()
		if s.twin != nil {
			s.twin.flush()
		}
		s.delivered = false
	case "insync":
		s.g.insync()
		if s.twin != nil {
			s.twin.insync()
		}
		s.delivered = true
	default:
		panic("bad op " + e.Op)
	}
}

func (s *vcState) key() string {
	if s.keyed {
		return s.keyCache
	}
	return fmt.Sprintf("%s|sync=%v|dlv=%v|%s|%s", s.dsString(), s.g.inSync, s.delivered, s.g.pendingDigest(), s.g.dp.Canon())
}

// settle is the probe run by every oracle: signal in-sync (if the history has not yet) and flush.
// After it, the instance describes "the latest state has been delivered, in-sync has been signalled
// and Felix has flushed". The state key is frozen first, so the probe is not part of the history.
func (s *vcState) settle() {
	if s.settled {
		return
	}
	s.keyCache = s.key()
	s.keyed = true
	s.settled = true
	s.g.insync()
	s.g.flush()
	if s.twin != nil {
		s.twin.insync()
		s.twin.flush()
	}
}

// valid returns the value of key k as the graph must see it: nil if absent or invalid.
func (s *vcState) valid(k int) any {
	v := s.ds[k]
	if v < 0 || s.u.Keys[k].Vars[v].Invalid {
		return nil
	}
	return s.u.Keys[k].Vars[v].Make()
}

// ---------------------------------------------------------------------------------------------
// fresh-start oracle (memoised per datastore content: it is a function of the content only)

type vcFreshResult struct {
	fwd, rev map[string]map[string]string
	// snap: the whole content delivered as ONE OnUpdates batch (start-of-day snapshot)
	snap map[string]map[string]string
}

func (u *vcUniverse) freshSnapshot(ds []int) map[string]map[string]string {
	g := vcNewGraph()
	var ups []api.Update
	for k, v := range ds {
		if v >= 0 {
			ups = append(ups, api.Update{KVPair: model.KVPair{Key: u.Keys[k].Key, Value: u.Keys[k].Vars[v].Make()}, UpdateType: api.UpdateTypeKVNew})
		}
	}
	if len(ups) > 0 {
		g.vf.OnUpdates(ups)
	}
	g.insync()
	g.flush()
	return g.dp.Objects()
}

type vcFreshMemo struct {
	mu sync.Mutex
	m  map[string]*vcFreshResult
	n  int64
}

func (u *vcUniverse) freshRun(ds []int, reverse bool) map[string]map[string]string {
	g := vcNewGraph()
	n := len(ds)
	for i := 0; i < n; i++ {
		k := i
		if reverse {
			k = n - 1 - i
		}
		if ds[k] < 0 {
			continue
		}
		g.deliver(u.Keys[k].Key, u.Keys[k].Vars[ds[k]].Make(), api.UpdateTypeKVNew)
	}
	g.insync()
	g.flush()
	return g.dp.Objects()
}

func (m *vcFreshMemo) get(s *vcState) *vcFreshResult {
	id := s.u.Name + "|" + s.dsString()
	m.mu.Lock()
	r := m.m[id]
	m.mu.Unlock()
	if r != nil {
		return r
	}
	r = &vcFreshResult{fwd: s.u.freshRun(s.ds, false), rev: s.u.freshRun(s.ds, true), snap: s.u.freshSnapshot(s.ds)}
	m.mu.Lock()
	if old := m.m[id]; old != nil {
		r = old
	} else {
		m.m[id] = r
		m.n++
	}
	m.mu.Unlock()
	return r
}

// ---------------------------------------------------------------------------------------------
// property plug-in + exploration plan

type vcProp struct {
	ID string
	// Check runs in every reached state, after settle().
	Check func(x *vcRun, s *vcState, hist []vcEv) []hbfs.Fail
	// Twin asks for the invalid->delete twin graph to be run alongside.
	Twin bool
	// Universes to explore (by name) — nil means the default set.
	Universes []string
	// QuickDeep names universes that are additionally explored to depth 4 (graph mode, from the
	// empty base) in the quick tier.
	QuickDeep []string
	// QuickBases overrides, per universe, the base states explored in the quick tier.
	QuickBases map[string][]string
	// QuickBatchBases names, per universe, the base states from which the batch exploration runs in
	// the quick tier (thorough: empty, full, dangling, flap for every universe that has batch keys).
	QuickBatchBases map[string][]string
	// After is an extra, property-specific sub-check (run once, before the explorations).
	After func(x *vcRun)
}

type vcPlanItem struct {
	U     *vcUniverse
	Base  string   // name of the base state
	Pre   []string // events applied by New (not part of the explored history)
	Tree  bool
	Depth int
	// Batch: the alphabet additionally holds the universe's multi-update batches; a history contains
	// at most one batch event (before, between or after single updates).
	Batch bool
}

type vcRun struct {
	c         *vk.Ctx
	prop      *vcProp
	fresh     *vcFreshMemo
	replaying bool
}

func vcShowHist(u *vcUniverse, h []vcEv) []string {
	out := make([]string, len(h))
	for i, e := range h {
		out[i] = u.show(e)
	}
	return out
}

func vcShort(s string, n int) string {
	if len(s) > n {
		return s[:n] + "…"
	}
	return s
}

func (x *vcRun) spec(it vcPlanItem) *hbfs.Spec[*vcState, vcEv] {
	u := it.U
	pre := u.evs(it.Pre...)
	alpha := u.alphabet()
	mode := "graph"
	if it.Tree {
		mode = "tree"
	}
	var withBatches, withBatchesSynced []vcEv
	if it.Batch {
		mode = "batch"
		ba := u.batchAlphabet()
		withBatches = append(append([]vcEv{}, alpha...), ba...)
		withBatchesSynced = append(append([]vcEv{}, alpha[:len(alpha)-1]...), ba...)
	}
	name := fmt.Sprintf("%s/%s/%s-d%d", u.Name, it.Base, mode, it.Depth)
	sp := &hbfs.Spec[*vcState, vcEv]{
		Name: name,
		New: func() *vcState {
			s := &vcState{u: u, g: vcNewGraph(), ds: make([]int, len(u.Keys))}
			for i := range s.ds {
				s.ds[i] = -1
			}
			if x.prop.Twin {
				s.twin = vcNewGraph()
			}
			for _, e := range pre {
				s.apply(e)
			}
			return s
		},
		Apply: func(s *vcState, e vcEv) { s.apply(e) },
		Enabled: func(s *vcState, depth int) []vcEv {
			if it.Batch && s.batches == 0 {
				if !s.g.inSync {
					return withBatches
				}
				return withBatchesSynced
			}
			if !s.g.inSync {
				return alpha
			}
			return alpha[:len(alpha)-1] // in-sync is signalled once
		},
		Key: func(s *vcState) string { return s.key() },
		Check: func(s *vcState, hist []vcEv) []hbfs.Fail {
			s.settle()
			fails := x.prop.Check(x, s, hist)
			if x.replaying {
				return fails
			}
			// Oracle failures are recorded here (not handed to hbfs) so that the search goes on
			// THROUGH a failing state: one defect class must not hide the states behind it.
			for _, f := range fails {
				x.c.Violation(f.Key, map[string]any{"spec": name, "history": vcShowHist(u, hist), "msg": f.Msg})
				x.c.Add("oracle_failures", 1)
			}
			return nil
		},
		Show:     u.show,
		MaxDepth: it.Depth,
		Workers:  vcWorkers(),
		Nontrivial: func(s *vcState) bool {
			// non-trivial: after the probe the dataplane holds at least one computed object
			d := s.g.dp
			return len(d.WEPs)+len(d.HEPs)+len(d.Routes)+len(d.IPSets)+len(d.VTEPs) > 0
		},
		Outcome: func(s *vcState) string {
			return s.u.Name + "|" + vcShort(s.g.dp.Canon(), 1<<20)
		},
		PanicKey: func(val string, hist []vcEv) string {
			return x.prop.ID + ":panic:" + vcPanicClass(u, pre, hist, val)
		},
	}
	if it.Tree {
		sp.Key = nil
	}
	return sp
}

// vcPanicClass maps a panic to a stable class name.
func vcPanicClass(u *vcUniverse, pre, hist []vcEv, val string) string {
	dup := false
	for _, e := range append(append([]vcEv{}, pre...), hist...) {
		if e.Op == "set" && u.Keys[e.K].Vars[e.V].Dup {
			dup = true
		}
	}
	first := val
	if i := strings.IndexByte(first, '\n'); i >= 0 {
		first = first[:i]
	}
	if dup && (strings.Contains(first, "nil pointer") || strings.Contains(first, "unknown ID") || strings.Contains(first, "discard")) {
		// an endpoint / network set whose profile list names the same profile twice
		return "duplicate-profile-id"
	}
	// strip run-specific noise (addresses)
	f := strings.Fields(first)
	for i, w := range f {
		if strings.HasPrefix(w, "0x") || strings.HasPrefix(w, "addr=0x") || strings.HasPrefix(w, "pc=0x") {
			f[i] = "_"
		}
	}
	return vcShort(strings.Join(f, " "), 120)
}

func vcWorkers() int {
	return 7
}

var vcInitOnce sync.Once

func vcInit() {
	vcInitOnce.Do(func() {
		logrus.SetLevel(logrus.PanicLevel)
		logrus.StandardLogger().ExitFunc = func(int) { panic("logrus.Fatal") }
		// config.New() lazily initialises package-level tables: do it once before going parallel.
		_ = config.New()
		_ = vcNewGraph()
	})
}

// vcSelfCheck verifies the harness' own assumption about every variant: those marked Invalid are
// nil-ed by the real ValidationFilter and the others pass it unchanged.
func vcSelfCheck(c *vk.Ctx, us []*vcUniverse) {
	for _, u := range us {
		for _, kd := range u.Keys {
			for _, vr := range kd.Vars {
				var got []api.Update
				sink := &vcSink{f: func(u []api.Update) { got = append(got, u...) }}
				vf := NewValidationFilter(sink, config.New())
				vf.OnUpdates([]api.Update{{KVPair: model.KVPair{Key: kd.Key, Value: vr.Make()}}})
				if len(got) != 1 {
					c.ToolError(fmt.Sprintf("self-check: %s/%s=%s: filter passed %d updates", u.Name, kd.Name, vr.Name, len(got)))
					continue
				}
				if (got[0].Value == nil) != vr.Invalid {
					c.ToolError(fmt.Sprintf("self-check: %s/%s=%s: marked invalid=%v but the ValidationFilter passed value=%v", u.Name, kd.Name, vr.Name, vr.Invalid, got[0].Value))
				}
			}
		}
	}
}

type vcSink struct{ f func([]api.Update) }

func (s *vcSink) OnUpdates(u []api.Update)         { s.f(u) }
func (s *vcSink) OnStatusUpdated(_ api.SyncStatus) {}

// vcMain is the body shared by TestVerif_C01/02/03/05.
func vcMain(t *testing.T, prop *vcProp, rule string, assume ...string) {
	vcInit()
	vk.Run(t, prop.ID, func(c *vk.Ctx) {
		x := &vcRun{c: c, prop: prop, fresh: &vcFreshMemo{m: map[string]*vcFreshResult{}}}
		c.Rule(rule)
		for _, a := range assume {
			c.Assume(a)
		}
		c.Assume("Go map iteration order inside one Flush (order of messages of the same phase, order of dirty endpoints) is not controlled; all oracles are insensitive to it")
		plan := vcPlan(c, prop)
		var us []*vcUniverse
		seen := map[string]bool{}
		for _, it := range plan {
			if !seen[it.U.Name] {
				seen[it.U.Name] = true
				us = append(us, it.U)
			}
		}
		vcSelfCheck(c, us)
		if rf := c.ReplayFile(); rf != "" {
			var d struct {
				Spec    string
				History []string
			}
			if err := vk.LoadReplay(rf, &d); err != nil {
				c.ToolError(err.Error())
				return
			}
			x.replaying = true
			for _, it := range vcAllPlanItems(prop) {
				sp := x.spec(it)
				if sp.Name != d.Spec {
					continue
				}
				sp.MaxDepth = 99
				// the oracle probes (and thereby consumes) the instance, so it may only run on the
				// final state of the replayed history
				inner := sp.Check
				n := len(d.History)
				sp.Check = func(s *vcState, hist []vcEv) []hbfs.Fail {
					if len(hist) < n {
						return nil
					}
					return inner(s, hist)
				}
				fails, err := hbfs.Replay(sp, d.History)
				if err != nil {
					c.ToolError(err.Error())
				}
				for _, f := range fails {
					c.Violation(f.Key, map[string]any{"spec": d.Spec, "history": d.History, "msg": f.Msg})
				}
				c.Add("states", 1)
				c.Add("transitions", int64(len(d.History)))
				c.Sample(map[string]any{"replayed": d.History})
				return
			}
			c.ToolError("replay: no exploration named " + d.Spec)
			return
		}
		// the property's extra sub-check runs first: it is cheap and must not be starved by the
		// deep explorations of the thorough tier
		if prop.After != nil {
			prop.After(x)
		}
		for i, it := range plan {
			if c.Expired() {
				c.Capped(fmt.Sprintf("deadline before exploration %d of %d", i+1, len(plan)))
				break
			}
			sp := x.spec(it)
			hbfs.Explore(c, sp)
		}
		c.Extra("fresh_start_runs", x.fresh.n)
		c.Extra("workers", vcWorkers())
		// one written-out explored case
		u := plan[0].U
		al := u.alphabet()
		c.Sample(map[string]any{"universe": u.Name, "base": plan[0].Pre, "history": []string{u.show(al[0]), u.show(al[len(al)-2]), u.show(al[1])},
			"then": "probe: in-sync (if not yet signalled) + flush, then the property's oracle"})
		c.Extra("alphabets", func() map[string]int {
			m := map[string]int{}
			for _, u := range us {
				m[u.Name] = len(u.alphabet())
			}
			return m
		}())
	})
}

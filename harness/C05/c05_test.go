package calc

// C05 — missing or invalid references fail closed.
//
// Oracle 1 (reference, from the datastore content only): for every valid local endpoint and every
// profile id it names, the dataplane holds an active profile whose rules are exactly
// [deny] / [deny] when the datastore has no VALID ProfileRules for that id (absent, deleted while
// referenced, or replaced by a version that fails validation), and otherwise have exactly the shape
// (action, protocol, which match criteria are present) of the real rules — so the real rules replace
// the deny as soon as the profile appears, and the deny replaces them as soon as it goes.
//
// Oracle 2 (differential twin): a second real graph is driven through the same history with every
// write of an invalid value replaced by a delete of that key. After the probe (in-sync + flush) the two
// shadow dataplanes must be identical, and every flush batch must have carried the same multiset of
// (message type, object id): a resource that fails validation is treated exactly as if it were absent,
// never partially applied.

import (
	"fmt"
	"strings"
	"testing"

	"github.com/projectcalico/calico/felix/proto"
	"github.com/projectcalico/calico/libcalico-go/lib/backend/model"
	"github.com/projectcalico/calico/zzverif/hbfs"
	"github.com/projectcalico/calico/zzverif/shadowdp"
)

func c05ModelSig(rs []model.Rule) string {
	var parts []string
	for _, r := range rs {
		p := ""
		if r.Protocol != nil {
			p = strings.ToLower(r.Protocol.String())
		}
		named := 0
		for _, dp := range r.DstPorts {
			if dp.PortName != "" {
				named++
			}
		}
		parts = append(parts, fmt.Sprintf("%s|%s|src=%v|dst=%v|nsrc=%v|np=%d", strings.ToLower(r.Action), p, r.SrcSelector != "", r.DstSelector != "", r.NotSrcSelector != "", named))
	}
	return "[" + strings.Join(parts, " ; ") + "]"
}

func c05ProtoSig(rs []*proto.Rule) string {
	var parts []string
	for _, r := range rs {
		p := ""
		if r.Protocol != nil {
			if n := r.Protocol.GetName(); n != "" {
				p = strings.ToLower(n)
			} else {
				p = fmt.Sprint(r.Protocol.GetNumber())
			}
		}
		parts = append(parts, fmt.Sprintf("%s|%s|src=%v|dst=%v|nsrc=%v|np=%d", strings.ToLower(r.Action), p, len(r.SrcIpSetIds) > 0, len(r.DstIpSetIds) > 0, len(r.NotSrcIpSetIds) > 0, len(r.DstNamedPortIpSetIds)))
	}
	return "[" + strings.Join(parts, " ; ") + "]"
}

const c05Deny = "[deny||src=false|dst=false|nsrc=false|np=0]"

func c05Check(x *vcRun, s *vcState, hist []vcEv) []hbfs.Fail {
	var fails []hbfs.Fail
	add := func(key, f string, a ...any) {
		fails = append(fails, hbfs.Fail{Key: "C05:" + key, Msg: fmt.Sprintf(f, a...) + " (datastore {" + s.dsString() + "})"})
	}
	dp := s.g.dp
	// --- oracle 1
	rules := map[string]*model.ProfileRules{}
	type ep struct {
		id       string
		profiles []string
	}
	var eps []ep
	for k, kd := range s.u.Keys {
		val := s.valid(k)
		if val == nil {
			continue
		}
		switch key := kd.Key.(type) {
		case model.ProfileRulesKey:
			rules[key.Name] = val.(*model.ProfileRules)
		case model.WorkloadEndpointKey:
			if key.Hostname == vcLocal {
				eps = append(eps, ep{"wep " + key.WorkloadID, val.(*model.WorkloadEndpoint).ProfileIDs})
			}
		case model.HostEndpointKey:
			if key.Hostname == vcLocal {
				eps = append(eps, ep{"hep " + key.EndpointID, val.(*model.HostEndpoint).ProfileIDs})
			}
		}
	}
	needed := map[string]bool{}
	for _, e := range eps {
		for _, p := range e.profiles {
			needed[p] = true
			got := dp.Profiles[p]
			if got == nil {
				add("profile-of-local-endpoint-not-active", "%s names profile %s but the dataplane has no active profile %s", e.id, p, p)
				continue
			}
			gin, gout := c05ProtoSig(got.InboundRules), c05ProtoSig(got.OutboundRules)
			if r := rules[p]; r == nil {
				if gin != c05Deny || gout != c05Deny {
					add("missing-or-invalid-profile-not-denied", "%s names profile %s which has no valid rules in the datastore, but the active profile is in=%s out=%s instead of deny/deny", e.id, p, gin, gout)
				}
			} else {
				win, wout := c05ModelSig(r.InboundRules), c05ModelSig(r.OutboundRules)
				if gin != win || gout != wout {
					add("profile-rules-not-the-real-rules", "%s names profile %s whose valid rules are in=%s out=%s but the active profile is in=%s out=%s", e.id, p, win, wout, gin, gout)
				}
			}
		}
	}
	for p := range dp.Profiles {
		if !needed[p] {
			add("profile-active-without-local-user", "profile %s is active in the dataplane but no valid local endpoint names it", p)
		}
	}
	// --- oracle 2
	if s.twin != nil {
		a, b := dp.Objects(), s.twin.dp.Objects()
		seen := map[string]bool{}
		for _, d := range shadowdp.DiffObjects(a, b) {
			k := "invalid-differs-from-absent:" + d.Class()
			if seen[k] {
				continue
			}
			seen[k] = true
			add(k, "%s %q with the invalid writes = %s ; with deletes instead = %s", d.Section, d.ID, vcShort(d.A, 1200), vcShort(d.B, 1200))
		}
		ba, bb := dp.BatchClasses(), s.twin.dp.BatchClasses()
		if fmt.Sprint(ba) != fmt.Sprint(bb) {
			add("invalid-differs-from-absent:message-stream", "flush batches with the invalid writes = %v ; with deletes instead = %v", ba, bb)
		}
	}
	return fails
}

func TestVerif_C05(t *testing.T) {
	vcMain(t, &vcProp{ID: "C05", Check: c05Check, Twin: true, Universes: []string{"pol", "set"}, QuickBases: map[string][]string{"pol": {"empty", "full", "dangling"}, "set": {"empty", "full"}},
		QuickBatchBases: map[string][]string{"pol": {"empty", "full"}}},
		"states = (datastore content, in-sync flag, shadow dataplane content, EventSequencer pending-object digest) reached by histories of "+
			"set(key,variant)/del(key)/flush/insync over universes pol and set, in which profile rules, profile labels, policies and workload endpoints each have a variant that fails "+
			"validation, and profile rules / tiers / policies can arrive late, be deleted while referenced and come back; each explored from an empty graph and from a fully populated, "+
			"in-sync, flushed graph; transitions = one event replayed on a fresh real graph AND on its twin (invalid write -> delete); in every state: probe (in-sync + flush), then the "+
			"profile reference and the twin comparison (dataplane content + per-flush message multisets); non-trivial = the probed dataplane holds at least one endpoint, IP set, route or VTEP",
		"tiers have no validation rules in this tree (no field can fail), so there is no invalid tier variant",
		"rule comparison for present profiles is by shape (action, protocol, which match criteria are present, named-port count), which separates all variants of the universe from each other and from deny/deny")
}

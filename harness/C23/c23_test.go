package node

// C23 — IPAM garbage collection never frees an address that is still in use.
//
// Shape H: explicit-state BFS (hbfs) over the REAL IPAMController, in-package, with its run loop
// bypassed (events call handleUpdate / markDirtyPodDeleted / fullScanNextSync / syncIPAM directly).
// The controller's IPAM client is the REAL libcalico-go IPAM client over the in-memory
// compare-and-swap datastore `casstore`, so a release with a stale sequence number or revision is
// really rejected and a successful release really frees the address. The Kubernetes side is a
// "truth" world (pods, nodes) served through the fake clientset for direct API reads, plus hand-fed
// pod/node lister caches whose synchronisation is an explicit event; block and node updates reach
// the controller only through an explicit "deliver" event. Time passes by shifting the controller's
// own time stamps (leakedAt, empty-block stamps) backwards: no sleeps, no wall-clock oracle.

import (
	"context"
	"fmt"
	"runtime/debug"
	"sort"
	"strings"
	"testing"
	"time"

	apiv3 "github.com/projectcalico/api/pkg/apis/projectcalico/v3"
	"github.com/onsi/gomega"
	"github.com/sirupsen/logrus"
	v1 "k8s.io/api/core/v1"
	apierrors "k8s.io/apimachinery/pkg/api/errors"
	metav1 "k8s.io/apimachinery/pkg/apis/meta/v1"
	"k8s.io/apimachinery/pkg/runtime"
	"k8s.io/apimachinery/pkg/runtime/schema"
	k8sfake "k8s.io/client-go/kubernetes/fake"
	k8stesting "k8s.io/client-go/testing"
	"k8s.io/client-go/tools/cache"

	"github.com/projectcalico/calico/kube-controllers/pkg/config"
	"github.com/projectcalico/calico/libcalico-go/lib/apis/internalapi"
	bapi "github.com/projectcalico/calico/libcalico-go/lib/backend/api"
	"github.com/projectcalico/calico/libcalico-go/lib/backend/model"
	"github.com/projectcalico/calico/libcalico-go/lib/clientv3"
	cerrors "github.com/projectcalico/calico/libcalico-go/lib/errors"
	"github.com/projectcalico/calico/libcalico-go/lib/ipam"
	"github.com/projectcalico/calico/libcalico-go/lib/kubevirt"
	cnet "github.com/projectcalico/calico/libcalico-go/lib/net"
	"github.com/projectcalico/calico/libcalico-go/lib/options"
	"github.com/projectcalico/calico/zzverif/casstore"
	"github.com/projectcalico/calico/zzverif/hbfs"
	"github.com/projectcalico/calico/zzverif/vk"
)

const (
	c23NS    = "ns"
	c23Grace = 10 * time.Minute
	c23Tenth = c23Grace / 10
)

// ---------------------------------------------------------------------------------------------
// universe / events

type c23U struct {
	Name      string
	Pods      []string // single-address pods
	Duals     []string // pods holding two addresses under one handle
	Nodes     []string
	PoolCIDR  string
	BlockSize int
	Ops       string // space separated op kinds that are enabled
	Init      []c23Ev // set-up prefix applied to every fresh instance (not counted in the depth)
}

func (u *c23U) has(op string) bool { return strings.Contains(" "+u.Ops+" ", " "+op+" ") }

type c23Ev struct {
	Op    string
	Pod   string
	Node  string
	Block string
}

func (e c23Ev) String() string {
	s := e.Op
	if e.Pod != "" {
		s += ":" + e.Pod
	}
	if e.Block != "" {
		s += "#" + e.Block
	}
	if e.Node != "" {
		s += "@" + e.Node
	}
	return s
}

// ---------------------------------------------------------------------------------------------
// world

type c23Pod struct {
	Node    string
	IPs     []string // addresses allocated to this incarnation
	Report  int      // how many of them the pod reports in its status (0 = none yet)
	Handle  string
	Evicted bool
}

type c23Pools struct{ pool apiv3.IPPool }

func (p *c23Pools) GetEnabledPools(ctx context.Context, ver int) ([]apiv3.IPPool, error) {
	if ver != 4 {
		return nil, nil
	}
	return []apiv3.IPPool{p.pool}, nil
}
func (p *c23Pools) GetAllPools(ctx context.Context) ([]apiv3.IPPool, error) {
	return []apiv3.IPPool{p.pool}, nil
}

type c23Rsv struct{}

func (c23Rsv) List(ctx context.Context, _ options.ListOptions) (*apiv3.IPReservationList, error) {
	return &apiv3.IPReservationList{}, nil
}

type c23NodeClient struct {
	clientv3.NodeInterface
	store *casstore.Store
}

func (n *c23NodeClient) Get(ctx context.Context, name string, _ options.GetOptions) (*internalapi.Node, error) {
	kv, err := n.store.Get(ctx, model.ResourceKey{Kind: internalapi.KindNode, Name: name}, "")
	if err != nil {
		return nil, err
	}
	return kv.Value.(*internalapi.Node), nil
}

type c23Alloc struct {
	ID, IP, Handle, Block, Node, Pod, Type string
	Seq                                    uint64
}

type c23State struct {
	u     *c23U
	store *casstore.Store
	ic    ipam.Interface
	c     *IPAMController
	ctx   context.Context

	pods  map[string]*c23Pod
	nodes map[string]bool

	podIdx, nodeIdx cache.Indexer

	deliveredRev   map[string]string // block cidr -> store revision delivered to the controller
	deliveredNodes map[string]bool

	gen       int
	now       time.Duration            // logical time
	candSince map[string]time.Duration // allocation id -> logical time at which the controller was first seen holding it as a leak candidate

	// ghosts for the empty-block clause: what was DELIVERED to the controller, and the logical time of the
	// first sync that ran while the delivered view of the block was "affine and empty" (reset whenever a
	// non-empty version or a deletion of the block is delivered, or the GC itself releases it)
	deliveredEmpty map[string]bool
	deliveredAffOf map[string]string // block cidr -> host it was affine to in the version delivered to the controller
	lastStaleLastBlock bool
	obsEmptySince  map[string]time.Duration
	seenBlocks     map[string]bool // every block CIDR that ever existed (candidates for re-claiming)

	bad []hbfs.Fail
	// re-execution of order-sensitive sync steps (Go map iteration order inside the controller)
	hist           []c23Ev
	inInit         bool
	sampling       bool // this instance is itself a re-execution
	sampled        bool // the last event was judged by re-executions
	orderDependent bool // ... and they did not all agree: the state is not expanded further
	lastSig        string
	vAllocs map[string]c23Alloc // store view after the last event (nil = not computed)
	vBlocks map[string]casstore.Item
	// outcome classes of the last event (for evidence)
	lastFreed, lastBlocksReleased int
}

func c23New(u *c23U) *c23State {
	s := &c23State{u: u, store: casstore.New(), ctx: context.Background(), pods: map[string]*c23Pod{}, nodes: map[string]bool{},
		deliveredRev: map[string]string{}, deliveredNodes: map[string]bool{}, candSince: map[string]time.Duration{},
		deliveredEmpty: map[string]bool{}, deliveredAffOf: map[string]string{}, obsEmptySince: map[string]time.Duration{}, seenBlocks: map[string]bool{}}
	mode := apiv3.Automatic
	s.ic = ipam.NewIPAMClient(s.store, &c23Pools{pool: apiv3.IPPool{
		ObjectMeta: metav1.ObjectMeta{Name: "pool1"},
		Spec: apiv3.IPPoolSpec{CIDR: u.PoolCIDR, BlockSize: u.BlockSize, AssignmentMode: &mode,
			AllowedUses: []apiv3.IPPoolAllowedUse{apiv3.IPPoolAllowedUseWorkload, apiv3.IPPoolAllowedUseTunnel}},
	}}, c23Rsv{})
	for _, n := range u.Nodes {
		s.nodes[n] = true
		node := internalapi.NewNode()
		node.Name = n
		node.Spec.OrchRefs = []internalapi.OrchRef{{NodeName: n, Orchestrator: apiv3.OrchestratorKubernetes}}
		s.store.Put(&model.KVPair{Key: model.ResourceKey{Kind: internalapi.KindNode, Name: n}, Value: node})
	}
	idx := func() cache.Indexer {
		return cache.NewIndexer(cache.MetaNamespaceKeyFunc, cache.Indexers{cache.NamespaceIndex: cache.MetaNamespaceIndexFunc})
	}
	s.podIdx, s.nodeIdx = idx(), idx()
	cs := k8sfake.NewClientset()
	cs.PrependReactor("*", "*", func(a k8stesting.Action) (bool, runtime.Object, error) {
		ga, ok := a.(k8stesting.GetAction)
		if !ok || a.GetVerb() != "get" || a.GetResource().Resource != "pods" {
			panic(fmt.Sprintf("c23: unmodelled Kubernetes API call %s %s", a.GetVerb(), a.GetResource().Resource))
		}
		if p, ok := s.pods[ga.GetName()]; ok && a.GetNamespace() == c23NS {
			return true, s.podObject(ga.GetName(), p), nil
		}
		return true, nil, apierrors.NewNotFound(schema.GroupResource{Resource: "pods"}, ga.GetName())
	})
	cli := &FakeCalicoClient{nodeClient: &c23NodeClient{store: s.store}, ipamClient: s.ic}
	cfg := config.NodeControllerConfig{LeakGracePeriod: &metav1.Duration{Duration: c23Grace}}
	s.c = NewIPAMController(cfg, cli, cs, s.podIdx, s.nodeIdx, kubevirt.NewDeferredInformersWithIndexers(idx(), idx()))
	s.c.handleUpdate(bapi.InSync)
	// the world starts fully observed
	s.syncNodes()
	s.deliver()
	s.inInit = true
	for _, e := range u.Init {
		c23Apply(s, e)
	}
	s.inInit = false
	return s
}

func (s *c23State) podObject(name string, p *c23Pod) *v1.Pod {
	o := &v1.Pod{ObjectMeta: metav1.ObjectMeta{Namespace: c23NS, Name: name}, Spec: v1.PodSpec{NodeName: p.Node}}
	o.Status.Phase = v1.PodRunning
	n := p.Report
	if n > len(p.IPs) {
		n = len(p.IPs)
	}
	for i := 0; i < n; i++ {
		o.Status.PodIPs = append(o.Status.PodIPs, v1.PodIP{IP: p.IPs[i]})
	}
	if n > 0 {
		o.Status.PodIP = p.IPs[0]
	}
	if p.Evicted {
		o.Status.Phase = v1.PodFailed
		o.Status.Reason = "Evicted"
	}
	return o
}

// ---- store views

func (s *c23State) view() (map[string]casstore.Item, map[string]c23Alloc) {
	if s.vAllocs == nil {
		s.vBlocks = s.storeBlocks()
		s.vAllocs = s.allocsOf(s.vBlocks)
	}
	return s.vBlocks, s.vAllocs
}

func (s *c23State) storeBlocks() map[string]casstore.Item {
	m := map[string]casstore.Item{}
	for _, it := range s.store.Snapshot("/calico/ipam/v2/assignment/") {
		if b, ok := it.Value.(*model.AllocationBlock); ok {
			m[b.CIDR.String()] = it
		}
	}
	return m
}

func (s *c23State) storeAllocs() map[string]c23Alloc { return s.allocsOf(s.storeBlocks()) }

func (s *c23State) allocsOf(blocks map[string]casstore.Item) map[string]c23Alloc {
	out := map[string]c23Alloc{}
	for cidr, it := range blocks {
		b := it.Value.(*model.AllocationBlock)
		for ord, ai := range b.Allocations {
			if ai == nil {
				continue
			}
			at := b.Attributes[*ai]
			if at.HandleID == nil || at.ReleasedAt != nil {
				continue
			}
			a := c23Alloc{IP: b.OrdinalToIP(ord).IP.String(), Handle: *at.HandleID, Block: cidr, Seq: b.GetSequenceNumberForOrdinal(ord),
				Node: at.ActiveOwnerAttrs[ipam.AttributeNode], Pod: at.ActiveOwnerAttrs[ipam.AttributePod], Type: at.ActiveOwnerAttrs[ipam.AttributeType]}
			a.ID = a.Handle + "/" + a.IP
			out[a.ID] = a
		}
	}
	return out
}

// affine blocks per host, as recorded in the blocks themselves
func c23Affinity(blocks map[string]casstore.Item) map[string][]string {
	out := map[string][]string{}
	for cidr, it := range blocks {
		b := it.Value.(*model.AllocationBlock)
		if b.Affinity != nil && strings.HasPrefix(*b.Affinity, "host:") {
			h := strings.TrimPrefix(*b.Affinity, "host:")
			out[h] = append(out[h], cidr)
		}
	}
	for _, v := range out {
		sort.Strings(v)
	}
	return out
}

// ---- truth: does the owner justify the allocation right now?

func (s *c23State) justified(a c23Alloc) bool {
	if a.Type != "" {
		// tunnel address: justified by its node
		return s.nodes[a.Node]
	}
	p, ok := s.pods[a.Pod]
	if !ok {
		return false
	}
	if p.Node != a.Node || p.Evicted {
		return false
	}
	if p.Report == 0 || len(p.IPs) == 0 {
		return true // pod has not reported an address yet
	}
	n := p.Report
	if n > len(p.IPs) {
		n = len(p.IPs)
	}
	for _, ip := range p.IPs[:n] {
		if ip == a.IP {
			return true
		}
	}
	return false
}

// ---- cache synchronisation (with the informer callbacks the real wiring would make)

func (s *c23State) syncPods() {
	old := map[string]*v1.Pod{}
	for _, o := range s.podIdx.List() {
		p := o.(*v1.Pod)
		old[p.Name] = p
	}
	var objs []any
	for n, p := range s.pods {
		objs = append(objs, s.podObject(n, p))
	}
	if err := s.podIdx.Replace(objs, ""); err != nil {
		panic(err)
	}
	var gone []string
	for n := range old {
		if _, ok := s.pods[n]; !ok {
			gone = append(gone, n)
		}
	}
	sort.Strings(gone)
	for _, n := range gone {
		// OnKubernetesPodDeleted -> podDeletionChan -> markDirtyPodDeleted
		s.c.allocationState.markDirtyPodDeleted(old[n])
	}
}

func (s *c23State) syncNodes() {
	had := map[string]bool{}
	for _, o := range s.nodeIdx.List() {
		had[o.(*v1.Node).Name] = true
	}
	var objs []any
	for n := range s.nodes {
		objs = append(objs, &v1.Node{ObjectMeta: metav1.ObjectMeta{Name: n}})
	}
	if err := s.nodeIdx.Replace(objs, ""); err != nil {
		panic(err)
	}
	for n := range had {
		if !s.nodes[n] {
			// OnKubernetesNodeDeleted -> nodeDeletionChan -> fullScanNextSync
			s.c.fullScanNextSync("Batch node deletion")
			break
		}
	}
}

func (s *c23State) deliver() {
	// calico nodes
	cur := map[string]bool{}
	for _, it := range s.store.Snapshot("/calico/resources/v3/projectcalico.org/nodes/") {
		n := it.Value.(*internalapi.Node)
		cur[n.Name] = true
		if !s.deliveredNodes[n.Name] {
			s.c.handleUpdate(model.KVPair{Key: it.Key, Value: n, Revision: it.Revision})
			s.deliveredNodes[n.Name] = true
		}
	}
	var goneN []string
	for n := range s.deliveredNodes {
		if !cur[n] {
			goneN = append(goneN, n)
		}
	}
	sort.Strings(goneN)
	for _, n := range goneN {
		s.c.handleUpdate(model.KVPair{Key: model.ResourceKey{Kind: internalapi.KindNode, Name: n}})
		delete(s.deliveredNodes, n)
	}
	// blocks
	blocks, _ := s.view()
	var cidrs []string
	for c := range blocks {
		cidrs = append(cidrs, c)
	}
	sort.Strings(cidrs)
	for _, c := range cidrs {
		it := blocks[c]
		if s.deliveredRev[c] == it.Revision {
			continue
		}
		s.c.handleUpdate(model.KVPair{Key: it.Key, Value: it.Value, Revision: it.Revision})
		s.deliveredRev[c] = it.Revision
		b := it.Value.(*model.AllocationBlock)
		n := 0
		for _, ai := range b.Allocations {
			if ai != nil {
				n++
			}
		}
		delete(s.deliveredAffOf, c)
		if b.Affinity != nil && strings.HasPrefix(*b.Affinity, "host:") {
			s.deliveredAffOf[c] = strings.TrimPrefix(*b.Affinity, "host:")
		}
		if n == 0 && b.Affinity != nil && strings.HasPrefix(*b.Affinity, "host:") {
			s.deliveredEmpty[c] = true
		} else {
			delete(s.deliveredEmpty, c)
			delete(s.obsEmptySince, c)
		}
	}
	var goneB []string
	for c := range s.deliveredRev {
		if _, ok := blocks[c]; !ok {
			goneB = append(goneB, c)
		}
	}
	sort.Strings(goneB)
	for _, c := range goneB {
		_, ipn, _ := cnet.ParseCIDR(c)
		s.c.handleUpdate(model.KVPair{Key: model.BlockKey{CIDR: model.PrefixFromIPNet(*ipn)}})
		delete(s.deliveredRev, c)
		delete(s.deliveredAffOf, c)
		delete(s.deliveredEmpty, c)
		delete(s.obsEmptySince, c)
	}
}

func (s *c23State) fail(key, f string, a ...any) {
	s.bad = append(s.bad, hbfs.Fail{Key: "C23:" + key, Msg: fmt.Sprintf(f, a...)})
}

// advance lets d of time pass for the controller.
func (s *c23State) advance(d time.Duration) {
	s.now += d
	for _, m := range s.c.allocationsByBlock {
		for _, a := range m {
			if a.leakedAt != nil {
				t := a.leakedAt.Add(-d)
				a.leakedAt = &t
			}
		}
	}
	for k, t := range s.c.blockReleaseTracker.blocks {
		s.c.blockReleaseTracker.blocks[k] = t.Add(-d)
	}
}

// gcSync runs the real syncIPAM and checks everything it freed against the truth world.
const c23Samples = 48

// orderSensitive: two or more allocations of one handle are confirmed leaks or candidates past the grace period. The
// controller walks its confirmedLeaks MAP and decides per allocation, looking at the flags of the
// handle's other allocations, so the result of the step may depend on Go's map iteration order.
func (s *c23State) orderSensitive() bool {
	for _, m := range s.c.handleTracker.allocationsByHandle {
		n := 0
		for _, a := range m {
			if a.confirmedLeak || (a.leakedAt != nil && time.Since(*a.leakedAt) > c23Grace) {
				n++
			}
		}
		if n >= 2 {
			return true
		}
	}
	return false
}

// gcSync runs one sync. Where the step is order-sensitive it is additionally re-executed c23Samples
// times on fresh replays of the same history (sampling over map iteration order - the one part of this
// check that is not exhaustive) and judged on the union of what the re-executions did.
func (s *c23State) gcSync(full bool) {
	if s.sampling || !s.orderSensitive() {
		s.gcSyncOnce(full)
		return
	}
	s.sampled = true
	sigs := map[string]int{}
	fails := map[string]hbfs.Fail{}
	count := map[string]int{}
	for i := 0; i < c23Samples; i++ {
		t := c23New(s.u)
		t.sampling = true
		for _, e := range s.hist {
			c23Apply(t, e)
		}
		nb := len(t.bad)
		t.gcSyncOnce(full)
		sigs[t.lastSig]++
		seen := map[string]bool{}
		for _, f := range t.bad[nb:] {
			if !seen[f.Key] {
				seen[f.Key] = true
				fails[f.Key] = f
				count[f.Key]++
			}
		}
	}
	nb := len(s.bad)
	s.gcSyncOnce(full)
	sigs[s.lastSig]++
	if len(sigs) <= 1 {
		return // every re-execution did exactly what this instance did
	}
	s.orderDependent = true
	s.bad = s.bad[:nb]
	var keys []string
	for k := range fails {
		keys = append(keys, k)
	}
	sort.Strings(keys)
	for _, k := range keys {
		f := fails[k]
		if count[k] < c23Samples {
			f.Key += ":depends-on-map-iteration-order"
		}
		f.Msg += fmt.Sprintf(" [in %d of %d re-executions of this sync on fresh replays of the same history; %d distinct outcomes of the step]", count[k], c23Samples, len(sigs))
		s.bad = append(s.bad, f)
	}
}

func (s *c23State) gcSyncOnce(full bool) {
	bb := s.storeBlocks()
	before := s.allocsOf(bb)
	affBefore := c23Affinity(bb)
	prevObs := map[string]time.Duration{}
	for k, v := range s.obsEmptySince {
		prevObs[k] = v
	}
	if full {
		s.c.fullScanNextSync("periodic sync")
	}
	_ = s.c.syncIPAM()
	ab := s.storeBlocks()
	after := s.allocsOf(ab)
	affAfter := c23Affinity(ab)
	s.vBlocks, s.vAllocs = ab, after

	var freed []c23Alloc
	var ids []string
	for id := range before {
		if _, ok := after[id]; !ok {
			ids = append(ids, id)
		}
	}
	sort.Strings(ids)
	for _, id := range ids {
		freed = append(freed, before[id])
	}
	s.lastFreed = len(freed)
	s.lastSig = fmt.Sprint(ids, affAfter)
	for _, a := range freed {
		kind := "pod"
		if a.Type != "" {
			kind = "tunnel"
		}
		// clause 1: the owner no longer justifies it, at the time of release
		if s.justified(a) {
			shape := "node-exists"
			if !s.nodes[a.Node] {
				shape = "node-deleted+pod-cache-fresh"
				if kind == "pod" {
					cached, ok, _ := s.podIdx.GetByKey(c23NS + "/" + a.Pod)
					if !ok || fmt.Sprint(cached.(*v1.Pod).Status.PodIPs, cached.(*v1.Pod).Spec.NodeName, cached.(*v1.Pod).Status.Reason) !=
						fmt.Sprint(s.podObject(a.Pod, s.pods[a.Pod]).Status.PodIPs, s.pods[a.Pod].Node, s.podObject(a.Pod, s.pods[a.Pod]).Status.Reason) {
						shape = "node-deleted+pod-cache-stale"
					}
				}
			}
			s.fail("freed-address-still-in-use:"+kind+":"+shape, "GC released %s (handle %s, node %s, pod %q) although its owner still justifies it: pods=%s nodes=%v", a.IP, a.Handle, a.Node, a.Pod, s.showPods(), s.nodeList())
			continue
		}
		// clause 2: grace period elapsed (or the node is gone)
		if s.nodes[a.Node] {
			since, ok := s.candSince[a.ID]
			if !ok || s.now-since < c23Grace {
				el := "never seen as a candidate before this sync"
				if ok {
					el = fmt.Sprintf("candidate for %v", s.now-since)
				}
				s.fail("freed-before-grace-period:"+kind, "GC released %s (handle %s) on existing node %s before the %v grace period had elapsed (%s)", a.IP, a.Handle, a.Node, c23Grace, el)
			}
		}
	}
	// clause 3: all of a handle's addresses together or none
	byHandle := map[string][2]int{}
	for _, a := range before {
		x := byHandle[a.Handle]
		x[0]++
		byHandle[a.Handle] = x
	}
	for _, a := range freed {
		x := byHandle[a.Handle]
		x[1]++
		byHandle[a.Handle] = x
	}
	var hs []string
	for h := range byHandle {
		hs = append(hs, h)
	}
	sort.Strings(hs)
	for _, h := range hs {
		if x := byHandle[h]; x[1] != 0 && x[1] != x[0] {
			s.fail("handle-partially-released", "GC released %d of the %d addresses of handle %s", x[1], x[0], h)
		}
	}
	// clause 4: never a (still existing) node's last block
	s.lastBlocksReleased = 0
	var hosts []string
	for h := range affBefore {
		hosts = append(hosts, h)
	}
	sort.Strings(hosts)
	for _, h := range hosts {
		s.lastBlocksReleased += len(affBefore[h]) - len(affAfter[h])
		if s.nodes[h] && len(affBefore[h]) > 0 && len(affAfter[h]) == 0 {
			// unless the controller had been told about a block of this node that an outside party has deleted in
			// the meantime and whose deletion has not reached it yet (counted, not flagged)
			inStore := map[string]bool{}
			for _, c := range affBefore[h] {
				inStore[c] = true
			}
			stale := false
			for c, dh := range s.deliveredAffOf {
				if dh == h && !inStore[c] {
					stale = true
				}
			}
			if stale {
				s.lastStaleLastBlock = true
			} else {
				s.fail("last-block-of-node-released", "GC released the last affine block of existing node %s (had %v)", h, affBefore[h])
			}
		}
	}
	// clause 6: the affinity of an empty block of an existing node is released only after the block has been
	// observed empty (by syncs) for at least the grace period since it (re)appeared
	for _, h := range hosts {
		if !s.nodes[h] {
			continue // a deleted node's blocks are all released at once
		}
		still := map[string]bool{}
		for _, c := range affAfter[h] {
			still[c] = true
		}
		for _, c := range affBefore[h] {
			if still[c] {
				continue
			}
			since, ok := prevObs[c]
			if !ok || s.now-since < c23Grace {
				el := "never observed empty by an earlier sync since it (re)appeared"
				if ok {
					el = fmt.Sprintf("observed empty for %v", s.now-since)
				}
				s.fail("empty-block-released-before-grace-period", "GC released the affinity of block %s of existing node %s before it had been observed empty for the %v grace period (%s)", c, h, c23Grace, el)
			}
			delete(s.obsEmptySince, c)
			delete(s.deliveredEmpty, c)
		}
	}
	var de []string
	for c := range s.deliveredEmpty {
		de = append(de, c)
	}
	sort.Strings(de)
	for _, c := range de {
		if _, tracked := s.c.allBlocks[c]; !tracked {
			continue
		}
		if _, ok := s.obsEmptySince[c]; !ok {
			s.obsEmptySince[c] = s.now
		}
	}
	// refresh the candidate ghost from the controller's own bookkeeping
	seen := map[string]bool{}
	for _, m := range s.c.allocationsByBlock {
		for id, a := range m {
			if a.leakedAt != nil {
				seen[id] = true
				if _, ok := s.candSince[id]; !ok {
					s.candSince[id] = s.now
				}
			}
		}
	}
	for id := range s.candSince {
		if !seen[id] {
			delete(s.candSince, id)
		}
	}
}

// clause 5: internal bookkeeping consistent (the repo's own cross-map invariant + leak index).
func (s *c23State) checkBookkeeping() {
	err := vk.Catch(func() error {
		go func() { // stand-in for the bypassed main loop's pause handshake
			req := <-s.c.pauseRequestChannel
			req.pauseConfirmed <- struct{}{}
			<-req.doneChan
		}()
		assertConsistentState(s.c)
		return nil
	})
	if err != nil {
		msg := err.Error()
		if len(msg) > 400 {
			msg = msg[:400]
		}
		s.fail("bookkeeping-inconsistent", "assertConsistentState: %s", msg)
	}
	for id, a := range s.c.confirmedLeaks {
		if s.c.allocationsByBlock[a.block][id] != a {
			s.fail("bookkeeping-inconsistent:confirmed-leak-not-tracked", "confirmedLeaks holds %s which is not (or no longer the same object) in allocationsByBlock", id)
		}
	}
	for blk, m := range s.c.allocationsByBlock {
		for id, a := range m {
			if s.c.handleTracker.allocationsByHandle[a.handle][id] != a {
				s.fail("bookkeeping-inconsistent:handle-tracker", "allocation %s of block %s is missing from the handle tracker", id, blk)
			}
		}
	}
	for h, m := range s.c.handleTracker.allocationsByHandle {
		for id, a := range m {
			if s.c.allocationsByBlock[a.block][id] != a {
				s.fail("bookkeeping-inconsistent:handle-tracker", "handle tracker holds %s (handle %s) which is not in allocationsByBlock", id, h)
			}
		}
	}
}

// ---------------------------------------------------------------------------------------------
// events

func (s *c23State) allocate(handle, node string, n int, attrs map[string]string, use apiv3.IPPoolAllowedUse) []string {
	v4, _, _ := s.ic.AutoAssign(s.ctx, ipam.AutoAssignArgs{Num4: n, HandleID: &handle, Hostname: node, Attrs: attrs, IntendedUse: use})
	var ips []string
	if v4 != nil {
		for _, ip := range v4.IPs {
			ips = append(ips, ip.IP.String())
		}
	}
	return ips
}

func (s *c23State) addPod(name, node string, n int) {
	s.gen++
	h := fmt.Sprintf("k8s-pod-network.%s-%03d", name, s.gen)
	ips := s.allocate(h, node, n, map[string]string{ipam.AttributeNode: node, ipam.AttributePod: name, ipam.AttributeNamespace: c23NS}, apiv3.IPPoolAllowedUseWorkload)
	s.pods[name] = &c23Pod{Node: node, IPs: ips, Report: len(ips), Handle: h}
}

func (s *c23State) isDual(p string) bool {
	for _, d := range s.u.Duals {
		if d == p {
			return true
		}
	}
	return false
}

func c23Apply(s *c23State, e c23Ev) {
	s.lastFreed, s.lastBlocksReleased = 0, 0
	s.lastStaleLastBlock = false
	s.vAllocs, s.vBlocks = nil, nil
	s.sampled = false
	switch e.Op {
	case "podadd":
		n := 1
		if s.isDual(e.Pod) {
			n = 2
		}
		s.addPod(e.Pod, e.Node, n)
	case "poddel": // pod object gone, CNI DEL never happened: the allocation leaks
		delete(s.pods, e.Pod)
	case "poddelclean": // normal teardown: CNI releases by handle, then the pod object goes
		_ = s.ic.ReleaseByHandle(s.ctx, s.pods[e.Pod].Handle)
		delete(s.pods, e.Pod)
	case "podmove": // same name re-created on the other node with a new sandbox; the old allocation leaks
		delete(s.pods, e.Pod)
		s.addPod(e.Pod, e.Node, 1)
	case "podreip": // new sandbox on the same node: new handle and address, the old allocation leaks
		node := s.pods[e.Pod].Node
		s.addPod(e.Pod, node, 1)
	case "podevict":
		s.pods[e.Pod].Evicted = true
	case "podnoip": // status not (yet) reporting any address
		s.pods[e.Pod].Report = 0
	case "dropip": // dual pod reports only its first address
		s.pods[e.Pod].Report = 1
	case "nodedel":
		delete(s.nodes, e.Node)
		s.store.Remove(model.ResourceKey{Kind: internalapi.KindNode, Name: e.Node})
	case "blockdelext": // somebody other than the GC releases the affinity of an empty block (the block is deleted)
		_ = s.ic.ReleaseAffinity(s.ctx, cnet.MustParseCIDR(e.Block), e.Node, true)
	case "blockclaim": // the same CIDR is claimed again (empty) for the node
		_, _, _ = s.ic.ClaimAffinity(s.ctx, cnet.MustParseCIDR(e.Block), ipam.AffinityConfig{AffinityType: ipam.AffinityTypeHost, Host: e.Node})
	case "tunneladd":
		s.allocate("vxlan-tunnel-addr-"+e.Node, e.Node, 1, map[string]string{ipam.AttributeNode: e.Node, ipam.AttributeType: ipam.AttributeTypeVXLAN}, apiv3.IPPoolAllowedUseTunnel)
	case "syncpods":
		s.syncPods()
	case "syncnodes":
		s.syncNodes()
	case "deliver":
		s.deliver()
	case "syncall":
		s.syncPods()
		s.syncNodes()
		s.deliver()
	case "adv+":
		s.advance(11 * c23Tenth)
	case "adv-":
		s.advance(6 * c23Tenth)
	case "sync":
		s.gcSync(false)
	case "fullsync":
		s.gcSync(true)
	default:
		panic("bad op " + e.Op)
	}
	s.checkBookkeeping()
	vb, _ := s.view()
	for c := range vb {
		s.seenBlocks[c] = true
	}
	if !s.inInit {
		s.hist = append(s.hist, e)
	}
}

func (s *c23State) tunnelExists(node string) bool {
	_, va := s.view()
	for _, a := range va {
		if a.Type != "" && a.Node == node {
			return true
		}
	}
	return false
}

func c23Enabled(s *c23State, depth int) []c23Ev {
	if s.orderDependent {
		return nil // the step that led here has several outcomes; successors would not be well defined
	}
	u := s.u
	var evs []c23Ev
	add := func(op, pod, node string) {
		if u.has(op) {
			evs = append(evs, c23Ev{Op: op, Pod: pod, Node: node})
		}
	}
	other := func(n string) string {
		for _, m := range u.Nodes {
			if m != n && s.nodes[m] {
				return m
			}
		}
		return ""
	}
	for _, p := range append(append([]string(nil), u.Pods...), u.Duals...) {
		pod, ok := s.pods[p]
		if !ok {
			for _, n := range u.Nodes {
				if s.nodes[n] {
					add("podadd", p, n)
					if !u.has("podadd-anynode") {
						break
					}
				}
			}
			continue
		}
		add("poddel", p, "")
		add("poddelclean", p, "")
		if !s.isDual(p) {
			if o := other(pod.Node); o != "" {
				add("podmove", p, o)
			}
			if s.nodes[pod.Node] {
				add("podreip", p, "")
			}
			if pod.Report > 0 {
				add("podnoip", p, "")
			}
		} else if pod.Report == 2 {
			add("dropip", p, "")
		}
		if !pod.Evicted {
			add("podevict", p, "")
		}
	}
	for _, n := range u.Nodes {
		if s.nodes[n] {
			add("nodedel", "", n)
			if !s.tunnelExists(n) {
				add("tunneladd", "", n)
			}
		}
	}
	if u.has("blockdelext") || u.has("blockclaim") {
		vb, _ := s.view()
		var seen []string
		for c := range s.seenBlocks {
			seen = append(seen, c)
		}
		sort.Strings(seen)
		for _, c := range seen {
			it, exists := vb[c]
			if !exists {
				for _, n := range u.Nodes {
					if s.nodes[n] && u.has("blockclaim") {
						evs = append(evs, c23Ev{Op: "blockclaim", Block: c, Node: n})
						break
					}
				}
				continue
			}
			b := it.Value.(*model.AllocationBlock)
			empty := true
			for _, ai := range b.Allocations {
				if ai != nil {
					empty = false
				}
			}
			if empty && b.Affinity != nil && strings.HasPrefix(*b.Affinity, "host:") && u.has("blockdelext") {
				evs = append(evs, c23Ev{Op: "blockdelext", Block: c, Node: strings.TrimPrefix(*b.Affinity, "host:")})
			}
		}
	}
	add("syncpods", "", "")
	add("syncnodes", "", "")
	add("deliver", "", "")
	add("syncall", "", "")
	add("adv+", "", "")
	add("adv-", "", "")
	add("sync", "", "")
	add("fullsync", "", "")
	return evs
}

// ---------------------------------------------------------------------------------------------
// canonical state key

func (s *c23State) showPods() string {
	var ns []string
	for n := range s.pods {
		ns = append(ns, n)
	}
	sort.Strings(ns)
	var out []string
	for _, n := range ns {
		p := s.pods[n]
		out = append(out, fmt.Sprintf("%s@%s%v/r%d/ev=%v/%s", n, p.Node, p.IPs, p.Report, p.Evicted, p.Handle))
	}
	return "{" + strings.Join(out, " ") + "}"
}

func (s *c23State) nodeList() []string {
	var ns []string
	for n := range s.nodes {
		ns = append(ns, n)
	}
	sort.Strings(ns)
	return ns
}

func c23Bucket(d time.Duration) int {
	b := int((d + c23Tenth/2) / c23Tenth)
	if b > 30 {
		b = 30
	}
	return b
}

func c23Key(s *c23State) string {
	blocks, allocs := s.view()
	// canonical handle names: rank of the handle among all handles known anywhere (they embed a
	// generation counter whose absolute value is irrelevant)
	hs := map[string]bool{}
	for _, a := range allocs {
		hs[a.Handle] = true
	}
	for _, p := range s.pods {
		hs[p.Handle] = true
	}
	for h := range s.c.handleTracker.allocationsByHandle {
		hs[h] = true
	}
	var hl []string
	for h := range hs {
		hl = append(hl, h)
	}
	sort.Strings(hl)
	hn := map[string]string{}
	cnt := map[string]int{}
	for _, h := range hl {
		base := h
		if i := strings.LastIndexByte(h, '-'); i > 0 && strings.HasPrefix(h, "k8s-pod-network.") {
			base = h[:i]
		}
		hn[h] = fmt.Sprintf("%s#%d", base, cnt[base])
		cnt[base]++
	}
	var sb strings.Builder
	// truth
	sb.WriteString("P:")
	var pn []string
	for n := range s.pods {
		pn = append(pn, n)
	}
	sort.Strings(pn)
	for _, n := range pn {
		p := s.pods[n]
		fmt.Fprintf(&sb, "%s@%s%v/r%d/e%v/%s ", n, p.Node, p.IPs, p.Report, p.Evicted, hn[p.Handle])
	}
	fmt.Fprintf(&sb, "|N:%v", s.nodeList())
	// store
	var cidrs []string
	for c := range blocks {
		cidrs = append(cidrs, c)
	}
	sort.Strings(cidrs)
	sb.WriteString("|S:")
	for _, c := range cidrs {
		b := blocks[c].Value.(*model.AllocationBlock)
		aff := "-"
		if b.Affinity != nil {
			aff = *b.Affinity
		}
		fmt.Fprintf(&sb, "%s[%s", c, aff)
		if s.deliveredRev[c] == blocks[c].Revision {
			sb.WriteString(" fresh")
		}
		var ids []string
		for id, a := range allocs {
			if a.Block == c {
				ids = append(ids, a.IP+"="+hn[a.Handle]+"/"+a.Node+"/"+a.Pod+a.Type+"#"+id)
			}
		}
		sort.Strings(ids)
		for _, x := range ids {
			i := strings.IndexByte(x, '#')
			sb.WriteString(" " + x[:i])
		}
		sb.WriteString("] ")
	}
	// store node resources
	fmt.Fprintf(&sb, "|SN:%d", len(s.store.Snapshot("/calico/resources/v3/projectcalico.org/nodes/")))
	// caches
	sb.WriteString("|PC:")
	var pc []string
	for _, o := range s.podIdx.List() {
		p := o.(*v1.Pod)
		pc = append(pc, fmt.Sprintf("%s@%s%v/%s%s", p.Name, p.Spec.NodeName, p.Status.PodIPs, p.Status.Phase, p.Status.Reason))
	}
	sort.Strings(pc)
	sb.WriteString(strings.Join(pc, " "))
	var nc []string
	for _, o := range s.nodeIdx.List() {
		nc = append(nc, o.(*v1.Node).Name)
	}
	sort.Strings(nc)
	fmt.Fprintf(&sb, "|NC:%v", nc)
	// controller
	c := s.c
	sb.WriteString("|C:")
	var cb []string
	for cidr := range c.allBlocks {
		cb = append(cb, cidr)
	}
	sort.Strings(cb)
	for _, cidr := range cb {
		kv := c.allBlocks[cidr]
		aff := "-"
		nAlloc := 0
		if b, ok := kv.Value.(*model.AllocationBlock); ok && b != nil {
			if b.Affinity != nil {
				aff = *b.Affinity
			}
			for _, ai := range b.Allocations {
				if ai != nil {
					nAlloc++
				}
			}
		}
		fresh := false
		if it, ok := blocks[cidr]; ok && it.Revision == kv.Revision {
			fresh = true
		}
		fmt.Fprintf(&sb, "%s[%s n%d fresh=%v", cidr, aff, nAlloc, fresh)
		var as []string
		for id, a := range c.allocationsByBlock[cidr] {
			st := "ok"
			if a.confirmedLeak {
				st = "confirmed"
			}
			if a.leakedAt != nil {
				st += fmt.Sprintf("/cand%d", c23Bucket(time.Since(*a.leakedAt)))
			}
			seqOK := false
			if sa, ok := allocs[id]; ok && sa.Seq == a.sequenceNumber {
				seqOK = true
			}
			g := ""
			if t, ok := s.candSince[id]; ok {
				g = fmt.Sprintf("/g%d", c23Bucket(s.now-t))
			}
			as = append(as, fmt.Sprintf("%s=%s/%s/%s/k=%s/seq=%v%s", a.ip, hn[a.handle], a.node(), st, a.knode, seqOK, g))
		}
		sort.Strings(as)
		sb.WriteString(" " + strings.Join(as, " ") + "] ")
	}
	var dn, cl, eb, nb, kn, tr []string
	for n := range c.allocationState.dirtyNodes {
		dn = append(dn, n)
	}
	for id, a := range c.confirmedLeaks {
		cl = append(cl, a.ip+"="+hn[a.handle]+fmt.Sprint(len(id) > 0))
	}
	for b, n := range c.emptyBlocks {
		eb = append(eb, b+"="+n)
	}
	for b, n := range c.nodesByBlock {
		nb = append(nb, b+"="+n)
	}
	for cn, k := range c.kubernetesNodesByCalicoName {
		kn = append(kn, cn+"="+k)
	}
	for b, t := range c.blockReleaseTracker.blocks {
		tr = append(tr, fmt.Sprintf("%s=%d", b, c23Bucket(time.Since(t))))
	}
	var oe, sn []string
	for b, h := range s.deliveredAffOf {
		sn = append(sn, "d:"+b+"="+h)
	}
	for b := range s.deliveredEmpty {
		x := b + "=?"
		if t, ok := s.obsEmptySince[b]; ok {
			x = fmt.Sprintf("%s=%d", b, c23Bucket(s.now-t))
		}
		oe = append(oe, x)
	}
	for b := range s.seenBlocks {
		sn = append(sn, b)
	}
	for _, l := range []*[]string{&dn, &cl, &eb, &nb, &kn, &tr, &oe, &sn} {
		sort.Strings(*l)
	}
	fmt.Fprintf(&sb, "|dirty:%v|full:%v|leaks:%v|empty:%v|nbb:%v|kn:%v|trk:%v|bad=%d|od=%v|oe:%v|seen:%v", dn, c.fullSyncRequired, cl, eb, nb, kn, tr, len(s.bad), s.orderDependent, oe, sn)
	return sb.String()
}

// ---------------------------------------------------------------------------------------------

func c23Spec(c *vk.Ctx, u *c23U, depth int, tree bool, workers int) *hbfs.Spec[*c23State, c23Ev] {
	name := "ipamgc-" + u.Name + "-graph"
	if tree {
		name = "ipamgc-" + u.Name + "-tree"
	}
	sp := &hbfs.Spec[*c23State, c23Ev]{
		Name:     name,
		New:      func() *c23State { return c23New(u) },
		Apply:    c23Apply,
		Enabled:  c23Enabled,
		Key:      c23Key,
		Check: func(s *c23State, hist []c23Ev) []hbfs.Fail {
			if s.sampled {
				c.NotExhaustive(fmt.Sprintf("sync steps in which two or more allocations of one handle are confirmed leaks (or candidates past the grace period) are additionally re-executed %d times on fresh replays (sampling over Go map iteration order inside garbageCollectKnownLeaks); everything else is exhaustive", c23Samples))
				c.Add("sync_steps_judged_by_reexecution", 1)
				if s.orderDependent {
					c.Add("sync_steps_with_order_dependent_outcome", 1)
				}
			}
			if s.lastStaleLastBlock {
				c.Add("info_last_block_released_while_external_block_deletion_undelivered", 1)
			}
			if s.lastFreed > 0 {
				c.Add("gc_steps_that_freed_addresses", 1)
			}
			if s.lastBlocksReleased > 0 {
				c.Add("gc_steps_that_released_block_affinities", 1)
			}
			return s.bad
		},
		Show:     func(e c23Ev) string { return e.String() },
		MaxDepth: depth,
		Workers:  workers,
		Nontrivial: func(s *c23State) bool {
			// an allocation exists whose owner does not justify it (a leak the GC has to judge), or something was freed
			if s.lastFreed > 0 || s.lastBlocksReleased > 0 {
				return true
			}
			_, va := s.view()
			for _, a := range va {
				if !s.justified(a) {
					return true
				}
			}
			return false
		},
		Outcome: func(s *c23State) string {
			leaks, cands, conf := 0, 0, 0
			_, va := s.view()
			for _, a := range va {
				if !s.justified(a) {
					leaks++
				}
			}
			for _, m := range s.c.allocationsByBlock {
				for _, a := range m {
					if a.isCandidateLeak() {
						cands++
					}
					if a.isConfirmedLeak() {
						conf++
					}
				}
			}
			return fmt.Sprintf("freed=%d blocksReleased=%d unjustified=%d candidates=%d confirmed=%d storeAllocs=%d", s.lastFreed, s.lastBlocksReleased, leaks, cands, conf, len(va))
		},
		PanicKey: func(val string, hist []c23Ev) string {
			l := val
			if i := strings.IndexByte(l, '\n'); i >= 0 {
				l = l[:i]
			}
			if len(l) > 100 {
				l = l[:100]
			}
			return "C23:panic:" + l
		},
	}
	if tree {
		sp.Key = nil
	}
	return sp
}

var c23Universes = map[string]*c23U{
	// one pod, two nodes: leak by lost CNI DEL, rescheduling, new sandbox, eviction; stale pod cache / stale blocks
	"leak0": {Name: "leak0", Pods: []string{"p1"}, Nodes: []string{"n1", "n2"}, PoolCIDR: "10.0.0.0/28", BlockSize: 30,
		Ops: "podadd poddel poddelclean podmove podreip podevict podnoip syncpods deliver syncall adv+ adv- sync fullsync"},
	"leak": {Name: "leak", Pods: []string{"p1"}, Nodes: []string{"n1", "n2"}, PoolCIDR: "10.0.0.0/28", BlockSize: 30,
		Init: []c23Ev{{Op: "podadd", Pod: "p1", Node: "n1"}, {Op: "syncall"}},
		Ops:  "podadd poddel poddelclean podmove podreip podevict podnoip syncpods deliver syncall adv+ adv- sync fullsync"},
	// a handle with two addresses of which the pod reports one or both
	"handle": {Name: "handle", Duals: []string{"d1"}, Pods: []string{"p1"}, Nodes: []string{"n1"}, PoolCIDR: "10.0.0.0/29", BlockSize: 31,
		Init: []c23Ev{{Op: "podadd", Pod: "d1", Node: "n1"}, {Op: "syncall"}},
		Ops:  "podadd poddel dropip podevict syncpods deliver syncall adv+ sync fullsync"},
	// node deletion, tunnel address, affinities
	"node0": {Name: "node0", Pods: []string{"p1"}, Nodes: []string{"n1", "n2"}, PoolCIDR: "10.0.0.0/28", BlockSize: 30,
		Ops: "podadd poddel poddelclean tunneladd nodedel syncpods syncnodes deliver syncall adv+ sync fullsync"},
	"node": {Name: "node", Pods: []string{"p1"}, Nodes: []string{"n1", "n2"}, PoolCIDR: "10.0.0.0/28", BlockSize: 30,
		Init: []c23Ev{{Op: "tunneladd", Node: "n1"}, {Op: "podadd", Pod: "p1", Node: "n1"}, {Op: "syncall"}},
		Ops:  "podadd poddel poddelclean nodedel syncpods syncnodes deliver syncall adv+ sync fullsync"},
	// several small blocks on one node: empty-block release, never the last one
	"blocks": {Name: "blocks", Pods: []string{"p1", "p2", "p3"}, Nodes: []string{"n1"}, PoolCIDR: "10.0.0.0/29", BlockSize: 31,
		Init: []c23Ev{{Op: "podadd", Pod: "p1", Node: "n1"}, {Op: "podadd", Pod: "p2", Node: "n1"}, {Op: "podadd", Pod: "p3", Node: "n1"}, {Op: "poddelclean", Pod: "p1"}, {Op: "syncall"}},
		Ops:  "podadd poddelclean poddel deliver syncall adv+ sync fullsync"},
}

func init() {
	// an empty redundant block that somebody else deletes and that is later claimed again under the same CIDR
	c23Universes["reclaim"] = &c23U{Name: "reclaim", Pods: []string{"p1", "p2", "p3"}, Nodes: []string{"n1"}, PoolCIDR: "10.0.0.0/29", BlockSize: 31,
		Init: []c23Ev{{Op: "podadd", Pod: "p1", Node: "n1"}, {Op: "podadd", Pod: "p2", Node: "n1"}, {Op: "podadd", Pod: "p3", Node: "n1"}, {Op: "poddelclean", Pod: "p3"}, {Op: "syncall"}},
		Ops:  "blockdelext blockclaim podadd poddelclean deliver adv+ adv- sync"}
}

func TestVerif_C23(t *testing.T) {
	logrus.SetLevel(logrus.PanicLevel)
	logrus.StandardLogger().ExitFunc = func(int) { panic("logrus.Fatal") }
	gomega.RegisterFailHandler(func(m string, _ ...int) { panic(m) })
	debug.SetGCPercent(600)
	vk.Run(t, "C23", func(c *vk.Ctx) {
		c.Rule("states = (truth pods/nodes, IPAM datastore blocks, pod/node lister caches, the controller's complete bookkeeping incl. candidate ages in tenths of the grace period, freshness of every cached block revision and sequence number); " +
			"transitions = pod create / lost-DEL delete / clean delete / reschedule / new sandbox / eviction / status-IP changes, node delete, tunnel address, pod-cache sync, node-cache sync, block+node delivery, an outside party deleting an empty block / the same CIDR being claimed again, time advance by 0.6 or 1.1 grace periods, syncIPAM (dirty-only or full), each replayed on a fresh controller over a fresh datastore; " +
			"non-trivial = some allocation is not justified by its owner, or the step freed something")
		c.Assume("the IPAM client is the real one over casstore (trusted CAS datastore model); Kubernetes truth is served by the fake clientset for direct reads; caches are snapshots of the truth at the last sync event; calico node name == Kubernetes node name (KDD)")
		c.Assume("time: the controller's own stamps are shifted back by the advance (grace 10 min; real execution time per history is milliseconds); IP cooldown is 0 so the cold-IP GC path is inactive")
		c.Assume("'justifies' is the controller's own validity rule evaluated on the truth world instead of the cache; grace is measured from the sync at which the controller first held the allocation as a candidate; nodes are never re-created under the same name; KubeVirt VM allocations are not explored")
		if rf := c.ReplayFile(); rf != "" {
			var d struct {
				Spec    string
				History []string
			}
			if err := vk.LoadReplay(rf, &d); err != nil {
				c.ToolError(err.Error())
				return
			}
			var u *c23U
			for n, x := range c23Universes {
				if d.Spec == "ipamgc-"+n+"-graph" || d.Spec == "ipamgc-"+n+"-tree" {
					u = x
				}
			}
			if u == nil {
				c.ToolError("unknown spec " + d.Spec)
				return
			}
			fails, err := hbfs.Replay(c23Spec(c, u, 99, false, 1), d.History)
			if err != nil {
				c.ToolError(err.Error())
			}
			for _, f := range fails {
				c.Violation(f.Key, map[string]any{"spec": d.Spec, "history": d.History, "msg": f.Msg})
			}
			c.Add("states", 1)
			c.Add("transitions", int64(len(d.History)))
			c.Sample(map[string]any{"replayed": d.History})
			return
		}
		c.Sample(map[string]any{"universe": "leak", "history": []string{"podadd:p1@n1", "syncall", "poddel:p1", "syncpods", "sync", "adv-", "sync", "adv-", "sync"},
			"meaning": "the pod object disappears without CNI DEL; once the pod cache shows it the next sync marks the address a candidate; after 0.6 grace nothing may be freed; after 1.2 grace it is confirmed, re-validated against the API server and released"})
		w := 6
		plan := []struct {
			u    string
			q, t int
		}{{"leak", 6, 8}, {"leak0", 6, 8}, {"handle", 7, 9}, {"node", 6, 9}, {"node0", 6, 8}, {"blocks", 6, 8}, {"reclaim", 7, 9}}
		for _, p := range plan {
			hbfs.Explore(c, c23Spec(c, c23Universes[p.u], c.Pick(p.q, p.t), false, w))
		}
		hbfs.Explore(c, c23Spec(c, c23Universes["leak"], c.Pick(3, 4), true, w))
	})
}

var _ = cerrors.ErrorResourceDoesNotExist{}

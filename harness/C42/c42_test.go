package proxy

// C42 — BPF service load-balancing state is never inconsistent mid-update.

import (
	"errors"
	"fmt"
	"net"
	"sort"
	"strings"
	"testing"

	"github.com/sirupsen/logrus"
	v1 "k8s.io/api/core/v1"
	"k8s.io/apimachinery/pkg/types"
	k8sp "k8s.io/kubernetes/pkg/proxy"

	"github.com/projectcalico/calico/felix/bpf/maps"
	"github.com/projectcalico/calico/felix/bpf/mock"
	"github.com/projectcalico/calico/felix/bpf/nat"
	"github.com/projectcalico/calico/zzverif/hbfs"
	"github.com/projectcalico/calico/zzverif/vk"
)

// ---- recording maps ----

type c42World struct {
	fe, be, mg *c42Map
	writes     int // writes attempted during the current Apply
	failFrom   int // -1: never fail
	onWrite    func(what string)
}

type c42Map struct {
	*mock.Map
	w *c42World
}

var errC42Crash = errors.New("injected: process crashed / map write failed")

func (m *c42Map) gate() error {
	if m.w.failFrom >= 0 && m.w.writes >= m.w.failFrom {
		m.w.writes++
		return errC42Crash
	}
	m.w.writes++
	return nil
}

func (m *c42Map) Update(k, v []byte) error {
	if err := m.gate(); err != nil {
		return err
	}
	err := m.Map.Update(k, v)
	m.w.onWrite("update " + m.GetName())
	return err
}

func (m *c42Map) UpdateWithFlags(k, v []byte, flags int) error { return m.Update(k, v) }

func (m *c42Map) BatchUpdate(ks, vs [][]byte, flags uint64) (int, error) {
	n := 0
	for i := range ks {
		if err := m.Update(ks[i], vs[i]); err != nil {
			return n, err
		}
		n++
	}
	return n, nil
}

func (m *c42Map) Delete(k []byte) error {
	if err := m.gate(); err != nil {
		return err
	}
	err := m.Map.Delete(k)
	m.w.onWrite("delete " + m.GetName())
	return err
}

func (m *c42Map) DeleteIfExists(k []byte) error { return m.Delete(k) }

var _ maps.MapWithExistsCheck = (*c42Map)(nil)

// ---- universe ----

var c42NodePortIP = net.IPv4(192, 168, 0, 1)

func c42Name(n string) k8sp.ServicePortName {
	return k8sp.ServicePortName{NamespacedName: types.NamespacedName{Namespace: "default", Name: n}}
}

type c42Ep struct {
	ip           string
	port         int
	local, ready bool
}

var c42Eps = map[string]c42Ep{
	"A": {"10.1.0.1", 5555, true, true},   // local ready
	"B": {"10.1.1.2", 5555, false, true},  // remote ready
	"C": {"10.1.1.3", 5555, false, false}, // remote terminating (not ready)
	"L": {"10.1.0.4", 5555, true, true},   // second local ready
	"T": {"10.1.0.5", 5555, true, false},  // LOCAL terminating (not ready): must not be counted as a local backend
}

// endpoint-list variants for svc1 (input ORDER matters: local-first must hold whatever the order)
var c42EpVariants = [][]string{{}, {"A"}, {"B"}, {"B", "A"}, {"A", "B", "C"}, {"C"}, {"B", "L", "A"}, {"B", "C"}, {"T"}, {"T", "B"}, {"A", "T", "B"}}

var c42SvcVariants = []string{"absent", "plain", "np", "ext", "local", "port81", "sticky", "ilocal"}

func c42Svc(variant string) k8sp.ServicePort {
	si := &serviceInfo{clusterIP: net.IPv4(10, 0, 0, 1), port: 80, protocol: v1.ProtocolTCP}
	switch variant {
	case "plain":
	case "np":
		si.nodePort = 30080
	case "ext":
		si.externalIPs = []net.IP{net.IPv4(1, 2, 3, 4)}
		si.loadBalancerVIPs = []net.IP{net.IPv4(5, 6, 7, 8)}
	case "local":
		si.nodePort = 30080
		si.loadBalancerVIPs = []net.IP{net.IPv4(5, 6, 7, 8)}
		si.nodeLocalExternal = true
	case "ilocal":
		// internalTrafficPolicy=Local with externalTrafficPolicy=Cluster and a load-balancer VIP (no node
		// port: the node-port expansion of internal-local services starts a background fix-up goroutine)
		si.loadBalancerVIPs = []net.IP{net.IPv4(5, 6, 7, 8)}
		si.nodeLocalInternal = true
	case "port81":
		si.port = 81
	case "sticky":
		si.sessionAffinityType = v1.ServiceAffinityClientIP
		si.stickyMaxAgeSeconds = 100
	default:
		panic(variant)
	}
	return &servicePort{ServicePort: si}
}

type c42State struct {
	w      *c42World
	aff    *mock.Map
	s      *Syncer
	svc1   string
	eps1   int
	svc2   string // "absent" | "B" (one backend shared with svc1) | "none" (no endpoints)
	bad    []string
	synced bool // last Apply succeeded with the current desired state
	nApply int
}

func (st *c42State) newSyncer() {
	s, err := NewSyncer(4, []net.IP{c42NodePortIP}, st.w.fe, st.w.be, st.w.mg, st.aff, NewRTCache(), nil, 31, 0)
	if err != nil {
		panic(err)
	}
	st.s = s
}

func c42New() *c42State {
	w := &c42World{failFrom: -1}
	w.fe = &c42Map{Map: mock.NewMockMap(nat.FrontendMapParameters), w: w}
	w.be = &c42Map{Map: mock.NewMockMap(nat.BackendMapParameters), w: w}
	w.mg = &c42Map{Map: mock.NewMockMap(nat.MaglevMapParameters), w: w}
	st := &c42State{w: w, aff: mock.NewMockMap(nat.AffinityMapParameters), svc1: "absent", svc2: "absent"}
	w.onWrite = func(what string) {
		if msg := st.invariant(); msg != "" {
			st.bad = append(st.bad, "mid-update-dangling-backend: after "+what+": "+msg)
		}
	}
	st.newSyncer()
	return st
}

func (st *c42State) dpState() DPSyncerState {
	ds := DPSyncerState{SvcMap: k8sp.ServicePortMap{}, EpsMap: k8sp.EndpointsMap{}, Hostname: "node1"}
	mk := func(names []string) []k8sp.Endpoint {
		var out []k8sp.Endpoint
		for _, n := range names {
			e := c42Eps[n]
			out = append(out, NewEndpointInfo(e.ip, e.port, EndpointInfoOptIsLocal(e.local), EndpointInfoOptIsReady(e.ready),
				EndpointInfoOptIsTerminating(!e.ready), EndpointInfoOptIsServing(e.ready)))
		}
		return out
	}
	if st.svc1 != "absent" {
		ds.SvcMap[c42Name("svc1")] = c42Svc(st.svc1)
		ds.EpsMap[c42Name("svc1")] = mk(c42EpVariants[st.eps1])
	}
	if st.svc2 != "absent" {
		ds.SvcMap[c42Name("svc2")] = &servicePort{ServicePort: &serviceInfo{clusterIP: net.IPv4(10, 0, 0, 2), port: 80, protocol: v1.ProtocolTCP}}
		if st.svc2 == "B" {
			ds.EpsMap[c42Name("svc2")] = mk([]string{"B"})
		}
	}
	return ds
}

type c42FE struct {
	key                      string
	id, count, local, flags uint32
}

func (st *c42State) frontends() []c42FE {
	var out []c42FE
	for k, v := range st.w.fe.Contents {
		fk := nat.FrontendKeyFromBytes([]byte(k))
		fv := nat.FrontendValueFromBytes([]byte(v))
		out = append(out, c42FE{key: fmt.Sprintf("%s:%d/%d", fk.Addr(), fk.Port(), fk.Proto()), id: fv.ID(), count: fv.Count(), local: fv.LocalCount(), flags: fv.Flags()})
	}
	sort.Slice(out, func(i, j int) bool { return out[i].key < out[j].key })
	return out
}

func (st *c42State) backend(id, idx uint32) (string, bool) {
	v, ok := st.w.be.Contents[string(nat.NewNATBackendKey(id, idx).AsBytes())]
	if !ok {
		return "", false
	}
	bv := nat.BackendValueFromBytes([]byte(v))
	return fmt.Sprintf("%s:%d", bv.Addr(), bv.Port()), true
}

// invariant: every frontend's (id,count) refers only to existing backend slots.
func (st *c42State) invariant() string {
	for _, fe := range st.frontends() {
		for i := uint32(0); i < fe.count; i++ {
			if _, ok := st.backend(fe.id, i); !ok {
				return fmt.Sprintf("frontend %s -> (id=%d,count=%d) but backend slot (%d,%d) does not exist", fe.key, fe.id, fe.count, fe.id, i)
			}
		}
	}
	return ""
}

// reference: what the maps must contain after a successful sync
func (st *c42State) expected() map[string]string {
	exp := map[string]string{}
	add := func(svc k8sp.ServicePort, eps []string, variant string) {
		var locals, remotes []string
		for _, n := range eps {
			e := c42Eps[n]
			if !e.ready {
				continue
			}
			s := fmt.Sprintf("%s:%d", e.ip, e.port)
			if e.local {
				locals = append(locals, s)
			} else {
				remotes = append(remotes, s)
			}
		}
		// "local ones first": the first len(locals) slots hold exactly the local ready endpoints (any order among them)
		sort.Strings(locals)
		sort.Strings(remotes)
		si := svc.(*servicePort).ServicePort.(*serviceInfo)
		desc := func(extLocal bool, intLocalApplies bool) string {
			return fmt.Sprintf("count=%d local=%d extlocal=%v intlocal=%v locals=%v remotes=%v", len(locals)+len(remotes), len(locals), extLocal,
				intLocalApplies && si.nodeLocalInternal, locals, remotes)
		}
		// local-only "where traffic policy requires": the internal policy governs the cluster IP, node
		// ports and load-balancer VIPs; the external policy governs node ports and load-balancer VIPs.
		// (External IPs carry neither flag in the code; the statement does not single them out.)
		exp[fmt.Sprintf("%s:%d/6", si.clusterIP, si.port)] = desc(false, true)
		for _, ip := range si.externalIPs {
			exp[fmt.Sprintf("%s:%d/6", ip, si.port)] = desc(false, false)
		}
		for _, ip := range si.loadBalancerVIPs {
			exp[fmt.Sprintf("%s:%d/6", ip, si.port)] = desc(si.nodeLocalExternal, true)
		}
		if si.nodePort != 0 {
			exp[fmt.Sprintf("%s:%d/6", c42NodePortIP, si.nodePort)] = desc(si.nodeLocalExternal, true)
		}
	}
	ds := st.dpState()
	if svc, ok := ds.SvcMap[c42Name("svc1")]; ok {
		add(svc, c42EpVariants[st.eps1], st.svc1)
	}
	if svc, ok := ds.SvcMap[c42Name("svc2")]; ok {
		var eps []string
		if st.svc2 == "B" {
			eps = []string{"B"}
		}
		add(svc, eps, "plain")
	}
	return exp
}

func (st *c42State) actual() (map[string]string, []string) {
	act := map[string]string{}
	var problems []string
	used := map[string]bool{}
	for _, fe := range st.frontends() {
		var locals, remotes []string
		for i := uint32(0); i < fe.count; i++ {
			b, ok := st.backend(fe.id, i)
			if !ok {
				problems = append(problems, fmt.Sprintf("%s: missing backend slot %d", fe.key, i))
				continue
			}
			used[fmt.Sprintf("%d/%d", fe.id, i)] = true
			if i < fe.local {
				locals = append(locals, b)
			} else {
				remotes = append(remotes, b)
			}
		}
		sort.Strings(locals)
		sort.Strings(remotes)
		act[fe.key] = fmt.Sprintf("count=%d local=%d extlocal=%v intlocal=%v locals=%v remotes=%v", fe.count, fe.local, fe.flags&nat.NATFlgExternalLocal != 0,
			fe.flags&nat.NATFlgInternalLocal != 0, locals, remotes)
	}
	for k := range st.w.be.Contents {
		bk := nat.BackendKeyFromBytes([]byte(k))
		if !used[fmt.Sprintf("%d/%d", bk.ID(), bk.Count())] {
			problems = append(problems, fmt.Sprintf("stale backend entry (id=%d,ordinal=%d) not referenced by any frontend", bk.ID(), bk.Count()))
		}
	}
	return act, problems
}

func (st *c42State) localFirstOK() string {
	// the first `local` slots must be local endpoints: checked via expected() comparison (locals vs remotes lists)
	return ""
}

func c42Enabled(st *c42State, depth int) []string {
	var evs []string
	for _, v := range c42SvcVariants {
		if v != st.svc1 {
			evs = append(evs, "svc1="+v)
		}
	}
	for i := range c42EpVariants {
		if i != st.eps1 {
			evs = append(evs, fmt.Sprintf("eps1=%d", i))
		}
	}
	for _, v := range []string{"absent", "B", "none"} {
		if v != st.svc2 {
			evs = append(evs, "svc2="+v)
		}
	}
	evs = append(evs, "apply", "restart")
	for k := 0; k < 10; k++ {
		evs = append(evs, fmt.Sprintf("crash@%d", k))
	}
	return evs
}

func c42Apply(st *c42State, e string) {
	switch {
	case strings.HasPrefix(e, "svc1="):
		st.svc1 = e[5:]
		st.synced = false
	case strings.HasPrefix(e, "eps1="):
		fmt.Sscan(e[5:], &st.eps1)
		st.synced = false
	case strings.HasPrefix(e, "svc2="):
		st.svc2 = e[5:]
		st.synced = false
	case e == "restart":
		st.s.Stop()
		st.newSyncer()
		st.synced = false
	case e == "apply":
		st.w.writes, st.w.failFrom = 0, -1
		st.nApply++
		if err := st.s.Apply(st.dpState()); err != nil {
			st.bad = append(st.bad, "apply-failed-without-fault: "+err.Error())
			return
		}
		st.synced = true
	case strings.HasPrefix(e, "crash@"):
		var k int
		fmt.Sscan(e[6:], &k)
		st.w.writes, st.w.failFrom = 0, k
		st.nApply++
		err := st.s.Apply(st.dpState())
		crashed := st.w.writes > k
		st.w.failFrom = -1
		if crashed {
			// the process died at write k: a new Syncer starts over the surviving maps
			st.s.Stop()
			st.newSyncer()
			st.synced = false
		} else {
			if err != nil {
				st.bad = append(st.bad, "apply-failed-without-fault: "+err.Error())
				return
			}
			st.synced = true
		}
	default:
		panic(e)
	}
}

func c42Check(st *c42State, hist []string) []hbfs.Fail {
	var fails []hbfs.Fail
	for _, b := range st.bad {
		i := strings.Index(b, ":")
		fails = append(fails, hbfs.Fail{Key: "C42:" + b[:i], Msg: b})
	}
	if msg := st.invariant(); msg != "" {
		fails = append(fails, hbfs.Fail{Key: "C42:dangling-backend-at-rest", Msg: msg})
	}
	if st.synced {
		exp := st.expected()
		act, problems := st.actual()
		for _, p := range problems {
			cls := "stale-backend"
			if strings.Contains(p, "missing") {
				cls = "missing-backend"
			}
			fails = append(fails, hbfs.Fail{Key: "C42:after-sync:" + cls, Msg: p})
		}
		for k, v := range exp {
			if av, ok := act[k]; !ok {
				fails = append(fails, hbfs.Fail{Key: "C42:after-sync:frontend-missing", Msg: fmt.Sprintf("frontend %s missing (want %s); svc1=%s eps=%v svc2=%s", k, v, st.svc1, c42EpVariants[st.eps1], st.svc2)})
			} else if av != v {
				fails = append(fails, hbfs.Fail{Key: "C42:after-sync:frontend-wrong", Msg: fmt.Sprintf("frontend %s = %s want %s", k, av, v)})
			}
		}
		for k, v := range act {
			if _, ok := exp[k]; !ok {
				fails = append(fails, hbfs.Fail{Key: "C42:after-sync:stale-frontend", Msg: fmt.Sprintf("stale frontend %s = %s", k, v)})
			}
		}
	}
	return fails
}

// canonical key: desired state + map contents with service ids renamed in order of appearance
// + whether the syncer has synced (startup path or not) + which desired entries the syncer remembers.
func c42Key(st *c42State) string {
	var sb strings.Builder
	fmt.Fprintf(&sb, "%s|%d|%s|synced=%v|hasSynced=%v|", st.svc1, st.eps1, st.svc2, st.synced, st.s.synced)
	ren := map[uint32]int{}
	name := func(id uint32) int {
		if n, ok := ren[id]; ok {
			return n
		}
		ren[id] = len(ren)
		return ren[id]
	}
	for _, fe := range st.frontends() {
		fmt.Fprintf(&sb, "%s=>%d,%d,%d,%d;", fe.key, name(fe.id), fe.count, fe.local, fe.flags)
	}
	type be struct {
		id, ord uint32
		v       string
	}
	var bes []be
	for k, v := range st.w.be.Contents {
		bk := nat.BackendKeyFromBytes([]byte(k))
		bv := nat.BackendValueFromBytes([]byte(v))
		bes = append(bes, be{bk.ID(), bk.Count(), fmt.Sprintf("%s:%d", bv.Addr(), bv.Port())})
	}
	// known ids first (already named through frontends), then orphans ordered by content
	sort.Slice(bes, func(i, j int) bool {
		_, ki := ren[bes[i].id]
		_, kj := ren[bes[j].id]
		if ki != kj {
			return ki
		}
		if ki && ren[bes[i].id] != ren[bes[j].id] {
			return ren[bes[i].id] < ren[bes[j].id]
		}
		if bes[i].ord != bes[j].ord {
			return bes[i].ord < bes[j].ord
		}
		return bes[i].v < bes[j].v
	})
	for _, b := range bes {
		fmt.Fprintf(&sb, "be(%d,%d)=%s;", name(b.id), b.ord, b.v)
	}
	// syncer memory of previous services (ids renamed)
	var prev []string
	for k, v := range st.s.newSvcMap {
		prev = append(prev, fmt.Sprintf("%s=%d/%d", k, name(v.id), v.count))
	}
	sort.Strings(prev)
	sb.WriteString(strings.Join(prev, ","))
	fmt.Fprintf(&sb, "|bad=%d", len(st.bad))
	return sb.String()
}

func c42Spec(depth int) *hbfs.Spec[*c42State, string] {
	return &hbfs.Spec[*c42State, string]{
		Name:     fmt.Sprintf("bpf-proxy-syncer-graph-d%d", depth),
		New:      c42New,
		Apply:    c42Apply,
		Enabled:  c42Enabled,
		Check:    c42Check,
		Key:      c42Key,
		Close:    func(st *c42State) { st.s.Stop() },
		MaxDepth: depth,
		Show:     func(e string) string { return e },
		Nontrivial: func(st *c42State) bool {
			return len(st.w.be.Contents) > 0 && st.nApply > 1
		},
		Outcome: func(st *c42State) string {
			return fmt.Sprintf("fe=%d be=%d", len(st.w.fe.Contents), len(st.w.be.Contents))
		},
	}
}

func TestVerif_C42(t *testing.T) {
	logrus.SetLevel(logrus.PanicLevel)
	vk.Run(t, "C42", func(c *vk.Ctx) {
		c.Rule("state = (desired services/endpoints, frontend+backend map contents with service ids canonically renamed, Syncer's remembered previous services); " +
			"transition = change one dimension of the desired state, Apply, Apply crashing at its k-th map write + restart, or restart, on a fresh Syncer+maps by history replay; " +
			"the dangling-backend invariant is evaluated inside each transition after EVERY map write; non-trivial = a state reached after >=2 Applies with backends present")
		c.Assume("write order inside one CachingMap phase follows Go map iteration order (not controllable); the invariant is checked on the order that occurs")
		if rf := c.ReplayFile(); rf != "" {
			var d struct{ History []string }
			if err := vk.LoadReplay(rf, &d); err != nil {
				c.ToolError(err.Error())
				return
			}
			for i := 0; i < 20; i++ { // map-order dependent: repeat
				fails, err := hbfs.Replay(c42Spec(99), d.History)
				if err != nil {
					c.ToolError(err.Error())
				}
				for _, f := range fails {
					c.Violation(f.Key, map[string]any{"history": d.History, "msg": f.Msg})
				}
			}
			c.Add("states", 1)
			c.Add("transitions", int64(len(d.History)))
			return
		}
		c.Sample(map[string]any{"history": []string{"svc1=np", "eps1=4", "apply", "eps1=2", "crash@1", "apply"}})
		hbfs.Explore(c, c42Spec(c.Pick(5, 7)))
		c.Extra("map_order_note", "each transition ran once per (history, event); intra-phase write order is whatever the Go runtime chose in that run")
	})
}

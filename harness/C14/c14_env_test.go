package conntrack

// World of C14: the REAL userspace Scanner + LivenessScanner run as a coroutine over hooked in-memory
// conntrack / cleanup-queue maps; the kernel cleaner is the REAL conntrack_cleanup.c compiled by
// clang and executed by the ebpf interpreter (one atomic step per cleanup-queue entry); the packet
// path and the clock are environment actions. Every hook is a scheduling point of the explorer.

import (
	"encoding/binary"
	"fmt"
	"net"
	"os"
	"os/exec"
	"path/filepath"
	"runtime"
	"sort"
	"strings"
	"time"

	"golang.org/x/sys/unix"

	"github.com/projectcalico/calico/felix/bpf/conntrack/cleanupv1"
	"github.com/projectcalico/calico/felix/bpf/conntrack/timeouts"
	ctv4 "github.com/projectcalico/calico/felix/bpf/conntrack/v4"
	"github.com/projectcalico/calico/felix/bpf/maps"
	"github.com/projectcalico/calico/felix/timeshim"
	"github.com/projectcalico/calico/zzverif/ebpf"
)

func c14VerifDir() string {
	if v := os.Getenv("VERIF_DIR"); v != "" {
		return v
	}
	return "/verif"
}

// c14Build rebuilds the clang artefacts from the CURRENT tree.
func c14Build() (string, error) {
	repo := os.Getenv("VERIF_REPO")
	if repo == "" {
		repo = "/repo"
	}
	out := filepath.Join(c14VerifDir(), "build", "bpf", "C14")
	if real, _ := filepath.EvalSymlinks(repo); real != "/repo" {
		// scratch tree (mutant / seeded runs): a private directory that no other run's clean-up touches
		if err := os.MkdirAll(filepath.Join(c14VerifDir(), "build", "bpf-scratch"), 0o755); err != nil {
			return "", err
		}
		tmp, err := os.MkdirTemp(filepath.Join(c14VerifDir(), "build", "bpf-scratch"), "C14-")
		if err != nil {
			return "", err
		}
		out = tmp
	}
	cmd := exec.Command(filepath.Join(c14VerifDir(), "tools", "build_bpf.sh"), out)
	cmd.Env = append(os.Environ(), "VERIF_REPO="+repo)
	b, err := cmd.CombinedOutput()
	if err != nil {
		s := string(b)
		if len(s) > 3000 {
			s = s[len(s)-3000:]
		}
		return "", fmt.Errorf("build_bpf.sh failed: %v\n%s", err, s)
	}
	return out, nil
}

// ---------------------------------------------------------------------------------------------
// logical clock (timeshim.Interface)

type c14Clock struct{ now time.Duration } // kernel time in ns since boot

var c14Epoch = time.Date(2030, 1, 1, 0, 0, 0, 0, time.UTC)

func (c *c14Clock) Now() time.Time                       { return c14Epoch.Add(c.now) }
func (c *c14Clock) Since(t time.Time) time.Duration      { return c.Now().Sub(t) }
func (c *c14Clock) Until(t time.Time) time.Duration      { return t.Sub(c.Now()) }
func (c *c14Clock) After(time.Duration) <-chan time.Time { panic("c14Clock.After not expected") }
func (c *c14Clock) NewTimer(timeshim.Duration) timeshim.Timer {
	panic("c14Clock.NewTimer not expected")
}
func (c *c14Clock) KTimeNanos() int64 { return int64(c.now) }

// ---------------------------------------------------------------------------------------------
// coroutine plumbing: the scanner goroutine parks in hooks

type c14Hook struct {
	Kind    string   // "visit", "get", "clean"
	Options []string // choices (rendered keys) for visit / clean
}

type c14Coro struct {
	resume chan string
	parked chan *c14Hook // nil = scan finished
	at     *c14Hook      // where the scanner is parked (nil = not running)
	trail  []string      // choices taken in the current scan (part of the state key)
	auto   bool          // epilogue: hooks do not park, first option is taken
}

const c14Abort = "\x00abort"

// hook is called on the scanner goroutine.
func (w *c14World) hook(kind string, options []string) string {
	if w.co.auto {
		if len(options) > 0 {
			return options[0]
		}
		return ""
	}
	w.co.parked <- &c14Hook{Kind: kind, Options: options}
	ch := <-w.co.resume
	if ch == c14Abort {
		runtime.Goexit()
	}
	return ch
}

// ---------------------------------------------------------------------------------------------
// hooked maps

type c14Map struct {
	w      *c14World
	params maps.MapParameters
	m      *ebpf.HashMap
	hooked bool
}

func (m *c14Map) GetName() string             { return m.params.Name }
func (m *c14Map) EnsureExists() error         { return nil }
func (m *c14Map) Open() error                 { return nil }
func (m *c14Map) Close() error                { return nil }
func (m *c14Map) MapFD() maps.FD              { return 0 }
func (m *c14Map) Path() string                { return "/verif/" + m.params.Name }
func (m *c14Map) CopyDeltaFromOldMap() error  { return nil }
func (m *c14Map) Size() int                   { return m.params.MaxEntries }
func (m *c14Map) ErrIsNotExists(e error) bool { return maps.IsNotExists(e) }

// Iter: the key list is fixed when the iteration starts (entries created later are not visited),
// every visiting order is an explorer choice, each key's CURRENT value is read when it is visited and
// keys deleted meanwhile are skipped - the behaviour of get_next_key / batch iteration over a live
// kernel hash map.
func (m *c14Map) Iter(f maps.IterCallback) error {
	remaining := m.m.Keys()
	for len(remaining) > 0 {
		idx := 0
		if m.hooked {
			opts := make([]string, len(remaining))
			for i, k := range remaining {
				opts[i] = m.w.keyName(k)
			}
			hopts := opts
			if m.w.fUsed < m.w.maxF && !m.w.co.auto {
				hopts = append(append([]string(nil), opts...), "!EINTR") // the iteration syscall fails here
			}
			ch := m.w.hook("visit", hopts)
			if ch == "!EINTR" {
				m.w.fUsed++
				return unix.EINTR
			}
			for i, o := range opts {
				if o == ch {
					idx = i
				}
			}
		}
		k := remaining[idx]
		remaining = append(append([][]byte(nil), remaining[:idx]...), remaining[idx+1:]...)
		v, ok := m.m.Lookup(k)
		if !ok {
			continue
		}
		kc, vc := append([]byte(nil), k...), append([]byte(nil), v...)
		if f(kc, vc) == maps.IterDelete {
			if m.hooked {
				m.w.onDelete("userspace-iter-delete", k)
			}
			m.m.Delete(k)
		}
	}
	return nil
}

func (m *c14Map) Update(k, v []byte) error {
	if m == m.w.ccq && m.w.armedCCQ != "" && m.w.armedCCQ == string(k) {
		// the environment makes writes of this cleanup-queue entry fail for the rest of this scan (armed
		// by key and persistent within the scan: the delta tracker applies its pending updates in Go map
		// order and retries an entry or not depending on its position in the batch, so a one-shot
		// failure would make the outcome depend on map order)
		return unix.EINTR
	}
	if rc := m.m.Update(k, v, 0); rc != 0 {
		return unix.Errno(rc)
	}
	return nil
}

func (m *c14Map) BatchUpdate(ks, vs [][]byte, flags uint64) (int, error) {
	for i := range ks {
		if err := m.Update(ks[i], vs[i]); err != nil {
			return i, err
		}
	}
	return len(ks), nil
}

func (m *c14Map) Get(k []byte) ([]byte, error) {
	if m.hooked {
		// the environment may answer a lookup with a transient error (EINTR) instead of the value
		var opts []string
		if m.w.fUsed < m.w.maxF && !m.w.co.auto {
			opts = []string{"ok", "!EINTR"}
		}
		if m.w.hook("get", opts) == "!EINTR" {
			m.w.fUsed++
			return nil, unix.EINTR
		}
	}
	v, ok := m.m.Lookup(k)
	if !ok {
		return nil, unix.ENOENT
	}
	return append([]byte(nil), v...), nil
}

func (m *c14Map) Delete(k []byte) error {
	if m.hooked {
		m.w.onDelete("userspace-delete", k)
	}
	if rc := m.m.Delete(k); rc != 0 {
		return unix.Errno(rc)
	}
	return nil
}

// ---------------------------------------------------------------------------------------------
// the kernel cleaner: real C, interpreted

type c14Cleaner struct{ w *c14World }

func (c *c14Cleaner) Close() error { return nil }

func (c *c14Cleaner) Run(opts ...RunOpt) (*CleanupContext, error) {
	w := c.w
	var cr CleanupContext
	for _, o := range opts {
		o(&cr)
	}
	// same wire format as BPFProgCleaner.Run: the context travels in the packet buffer
	in := make([]byte, 24)
	if _, err := binary.Encode(in, binary.LittleEndian, cr); err != nil {
		return nil, err
	}
	w.vm.Packet = in
	w.inCleaner = true
	_, err := w.vm.Run(w.prog, make([]byte, 192))
	w.inCleaner = false
	if err != nil {
		w.fault = err.Error()
		return &cr, nil
	}
	if _, err := binary.Decode(w.vm.Packet, binary.LittleEndian, &cr); err != nil {
		return nil, err
	}
	return &cr, nil
}

// ---------------------------------------------------------------------------------------------
// connections

type c14Conn struct {
	Name    string
	Kind    string // udp, tcp-est, tcp-syn, tcp-fin, tcp-rst, icmp, nat-udp, nat-tcp
	Timeout time.Duration
	Key     KeyInterface // normal key or reverse (tracking) key
	FwdKey  KeyInterface // NAT only
	NAT     bool
	Rebound bool   // the forward entry was re-created for a new backend (points at a different reverse key)
	Flags   uint32 // conntrack flags of the tracking entry (DSR)
	RST     string // value.rst_seen timestamp: "" = 0, "old" = 10 min before creation, "recent" = last_seen
}

type c14World struct {
	ver     int
	clock   *c14Clock
	ct      *c14Map
	ccq     *c14Map
	qos     *ebpf.HashMap
	vm      *ebpf.VM
	prog    *ebpf.Program
	scanner *Scanner
	live    *LivenessScanner
	co      *c14Coro
	to      timeouts.Timeouts
	conns   []*c14Conn
	names   map[string]string // key bytes -> name

	inCleaner bool
	scanning  bool // a (non-epilogue) scan goroutine is running
	fault     string
	fails     []c14Fail
	deleted   []string // log of deletions (for outcomes)
	scans     int
	pUsed     int
	fUsed     int    // transient map-operation failures injected so far
	armedCCQ  string // key whose next cleanup-queue write fails
	maxF      int
	tUsed     int
	key       string // cached state key
}

type c14Fail struct{ Key, Msg string }

// fam suffixes violation keys of the IPv6 instance (same oracle, different code paths in the scanner helpers).
func (w *c14World) fam() string {
	if w.ver == 6 {
		return ":ipv6"
	}
	return ""
}

func (w *c14World) keyName(k []byte) string {
	if n, ok := w.names[string(k)]; ok {
		return n
	}
	return fmt.Sprintf("%x", k)
}

func c14TCPLeg(syn, ack, fin, rst bool) Leg {
	return Leg{SynSeen: syn, AckSeen: ack, FinSeen: fin, RstSeen: rst, Approved: true, Opener: syn}
}

// value builders for each kind
func (w *c14World) newValue(c *c14Conn, lastSeen time.Duration, fwd bool) []byte {
	est := c14TCPLeg(true, true, false, false)
	var a, b Leg
	switch c.Kind {
	case "tcp-est", "nat-tcp", "tcp-est-oldrst", "tcp-est-recentrst", "nat-tcp-oldrst":
		a, b = est, est
	case "tcp-syn", "tcp-syn-oldrst", "tcp-dsr-syn", "tcp-dsr-oldrst":
		a, b = c14TCPLeg(true, false, false, false), Leg{}
	case "tcp-fin":
		a, b = c14TCPLeg(true, true, true, false), c14TCPLeg(true, true, true, false)
	case "tcp-onefin", "tcp-dsr-onefin":
		a, b = c14TCPLeg(true, true, true, false), est
	case "tcp-fin-rst":
		a, b = c14TCPLeg(true, true, true, true), c14TCPLeg(true, true, true, false)
	case "tcp-rst":
		a, b = c14TCPLeg(true, true, false, true), est
	default:
		a, b = Leg{Approved: true, Opener: true}, Leg{Approved: true}
	}
	v := w.newValue0(c, lastSeen, fwd, a, b)
	if !(c.NAT && fwd) {
		// the RST timestamp lives on the tracking entry (struct calico_ct_value.rst_seen, offset 0)
		switch c.RST {
		case "old":
			binary.LittleEndian.PutUint64(v[0:8], uint64(w.clock.now-10*time.Minute))
		case "recent":
			binary.LittleEndian.PutUint64(v[0:8], uint64(lastSeen))
		}
	}
	return v
}

func (w *c14World) newValue0(c *c14Conn, lastSeen time.Duration, fwd bool, a, b Leg) []byte {
	if w.ver == 6 {
		switch {
		case c.NAT && fwd:
			return NewValueV6NATForward(lastSeen, 0, c.Key.(KeyV6)).AsBytes()
		case c.NAT:
			return NewValueV6NATReverse(lastSeen, c.Flags, a, b, net.IPv4(0, 0, 0, 0), net.IPv4(10, 96, 0, 10), 80).AsBytes()
		}
		return NewValueV6Normal(lastSeen, c.Flags, a, b).AsBytes()
	}
	if c.NAT {
		if fwd {
			return NewValueNATForward(lastSeen, 0, c.Key.(Key)).AsBytes()
		}
		return NewValueNATReverse(lastSeen, c.Flags, a, b, net.IPv4(0, 0, 0, 0), net.IPv4(10, 96, 0, 10), 80).AsBytes()
	}
	return NewValueNormal(lastSeen, c.Flags, a, b).AsBytes()
}

func (w *c14World) put(k KeyInterface, v []byte) { w.ct.m.Update(k.AsBytes(), v, 0) }

func (w *c14World) lastSeen(k KeyInterface) (time.Duration, bool) {
	v, ok := w.ct.m.Lookup(k.AsBytes())
	if !ok {
		return 0, false
	}
	return time.Duration(binary.LittleEndian.Uint64(v[8:16])), true
}

func (w *c14World) touch(k KeyInterface) {
	if v, ok := w.ct.m.Lookup(k.AsBytes()); ok {
		binary.LittleEndian.PutUint64(v[8:16], uint64(w.clock.now))
	}
}

// onDelete is the SAFETY oracle, evaluated at the very moment an entry disappears from the conntrack
// map (helper-level hook inside the interpreter, or userspace delete).
func (w *c14World) onDelete(who string, k []byte) {
	name := w.keyName(k)
	v, ok := w.ct.m.Lookup(k)
	if !ok {
		return
	}
	w.deleted = append(w.deleted, name)
	var conn *c14Conn
	isFwd := false
	for _, c := range w.conns {
		if string(c.Key.AsBytes()) == string(k) {
			conn = c
		}
		if c.NAT && string(c.FwdKey.AsBytes()) == string(k) {
			conn, isFwd = c, true
		}
	}
	if conn == nil {
		return
	}
	now := w.clock.now
	if !isFwd {
		ls := time.Duration(binary.LittleEndian.Uint64(v[8:16]))
		if age := now - ls; age <= conn.Timeout {
			w.fails = append(w.fails, c14Fail{
				Key: "C14:live-entry-removed:" + conn.Kind + w.fam(),
				Msg: fmt.Sprintf("%s deleted %s (%s) although its last_seen=%v is only %v old at now=%v (timeout %v): it carried traffic after it was judged, or was never expired", who, name, conn.Kind, ls, age, now, conn.Timeout),
			})
		}
		return
	}
	// forward entry of a NAT pair: liveness of the pair is tracked on the reverse entry
	if rls, ok := w.lastSeen(conn.Key); ok {
		if age := now - rls; age <= conn.Timeout {
			// which shape of cleanup-queue entry led here (the entry being processed is still queued)
			how := "not-queued"
			if q, ok := w.ccq.m.Lookup(k); ok {
				how = "queued-as-pair"
				if binary.LittleEndian.Uint32(q[0:4]) == 0 {
					how = "queued-alone"
				}
			}
			w.fails = append(w.fails, c14Fail{
				Key: "C14:nat-forward-entry-removed-while-pair-live:" + how + ":" + conn.Kind + w.fam(),
				Msg: fmt.Sprintf("%s deleted the forward entry %s while its reverse (tracking) entry is still in the map with last_seen=%v, only %v old at now=%v (timeout %v): the pair carried traffic after it was judged", who, name, rls, age, now, conn.Timeout),
			})
		}
	}
}

func (w *c14World) mkKey(proto uint8, a string, pa uint16, b string, pb uint16) KeyInterface {
	if w.ver == 6 {
		v6 := func(s string) net.IP { return net.ParseIP("fd00::" + strings.ReplaceAll(s, ".", ":")) }
		if proto == ProtoICMP {
			proto = ProtoICMP6
		}
		return NewKeyV6(proto, v6(a), pa, v6(b), pb)
	}
	return NewKey(proto, net.ParseIP(a).To4(), pa, net.ParseIP(b).To4(), pb)
}

var c14StartNow = 100 * time.Hour

// c14NewWorld builds a fresh world. entries: conn kind + age class per connection.
func c14NewWorld(ver int, prog *ebpf.Program, qosKey, qosVal int, spec []c14Init) *c14World {
	w := &c14World{ver: ver, clock: &c14Clock{now: c14StartNow}, to: timeouts.DefaultTimeouts(), names: map[string]string{}, prog: prog}
	if ver == 6 {
		w.ct = &c14Map{w: w, params: MapParamsV6, m: ebpf.NewHashMap("cali_v6_ct", KeyV6Size, ValueV6Size, 0), hooked: true}
		w.ccq = &c14Map{w: w, params: cleanupv1.MapParamsV6, m: ebpf.NewHashMap("cali_v6_ccq", cleanupv1.KeyV6Size, cleanupv1.ValueV6Size, 0)}
	} else {
		w.ct = &c14Map{w: w, params: MapParams, m: ebpf.NewHashMap("cali_v4_ct", KeySize, ValueSize, 0), hooked: true}
		w.ccq = &c14Map{w: w, params: cleanupv1.MapParams, m: ebpf.NewHashMap("cali_v4_ccq", cleanupv1.KeySize, cleanupv1.ValueSize, 0)}
	}
	w.qos = ebpf.NewHashMap("cali_qos_conn", qosKey, qosVal, 0)
	w.vm = ebpf.NewVM()
	w.vm.Now = func() uint64 { return uint64(w.clock.now) }
	for _, sym := range prog.MapSymbols() {
		switch {
		case strings.Contains(sym, "_ccq"):
			w.vm.BindName(sym, w.ccq.m)
		case strings.Contains(sym, "_ct"):
			w.vm.BindName(sym, w.ct.m)
		case strings.Contains(sym, "qos_conn"):
			w.vm.BindName(sym, w.qos)
		}
	}
	w.vm.OnMapOp = func(op string, m ebpf.Map, key []byte) {
		if op == "delete" && m == ebpf.Map(w.ct.m) {
			w.onDelete("kernel-cleaner", key)
		}
	}
	w.vm.ForEachPick = func(m ebpf.Map, remaining [][]byte) int {
		opts := make([]string, len(remaining))
		for i, k := range remaining {
			opts[i] = w.keyName(k)
		}
		ch := w.hook("clean", opts)
		for i, o := range opts {
			if o == ch {
				return i
			}
		}
		return 0
	}
	w.live = NewLivenessScanner(w.to, false, WithTimeShim(w.clock))
	if ver == 6 {
		w.scanner = NewScanner(w.ct, KeyV6FromBytes, ValueV6FromBytes, nil, "Disabled", w.ccq, 6, &c14Cleaner{w: w}, w.live)
	} else {
		w.scanner = NewScanner(w.ct, KeyFromBytes, ValueFromBytes, nil, "Disabled", w.ccq, 4, &c14Cleaner{w: w}, w.live)
	}
	w.co = &c14Coro{}
	for i, in := range spec {
		c := &c14Conn{Name: fmt.Sprintf("%s#%d", in.Kind, i), Kind: in.Kind}
		p := uint16(1000 + i)
		switch in.Kind {
		case "udp":
			c.Timeout, c.Key = w.to.UDPTimeout, w.mkKey(ProtoUDP, "10.0.0.1", p, "10.0.0.2", 53)
		case "icmp":
			c.Timeout, c.Key = w.to.ICMPTimeout, w.mkKey(ProtoICMP, "10.0.0.1", 0, "10.0.0.2", 0)
		case "tcp-est":
			c.Timeout, c.Key = w.to.TCPEstablished, w.mkKey(ProtoTCP, "10.0.0.1", p, "10.0.0.2", 80)
		case "tcp-syn":
			c.Timeout, c.Key = w.to.TCPSynSent, w.mkKey(ProtoTCP, "10.0.0.1", p, "10.0.0.2", 81)
		case "tcp-fin":
			c.Timeout, c.Key = w.to.TCPFinsSeen, w.mkKey(ProtoTCP, "10.0.0.1", p, "10.0.0.2", 82)
		case "tcp-rst":
			c.Timeout, c.Key = w.to.TCPResetSeen, w.mkKey(ProtoTCP, "10.0.0.1", p, "10.0.0.2", 83)
		// --- kinds that vary the other inputs of the expiry rules (rst_seen timestamp, per-leg flags, DSR):
		// expected timeout = the shortest idle time after which the documented rules allow removal
		case "tcp-est-oldrst": // RST long ago, residual traffic cleared the leg flags: 2 minutes idle
			c.Timeout, c.RST, c.Key = 2*time.Minute, "old", w.mkKey(ProtoTCP, "10.0.0.1", p, "10.0.0.2", 84)
		case "tcp-est-recentrst":
			c.Timeout, c.RST, c.Key = 2*time.Minute, "recent", w.mkKey(ProtoTCP, "10.0.0.1", p, "10.0.0.2", 85)
		case "tcp-syn-oldrst": // the residual-RST rule is for established/DSR flows only
			c.Timeout, c.RST, c.Key = w.to.TCPSynSent, "old", w.mkKey(ProtoTCP, "10.0.0.1", p, "10.0.0.2", 86)
		case "tcp-dsr-syn": // DSR forward node sees one direction only: treated as established
			c.Timeout, c.Flags, c.Key = w.to.TCPEstablished, ctv4.FlagNATFwdDsr, w.mkKey(ProtoTCP, "10.0.0.1", p, "10.0.0.2", 87)
		case "tcp-dsr-onefin": // DSR: one FIN is all that can be seen
			c.Timeout, c.Flags, c.Key = w.to.TCPFinsSeen, ctv4.FlagNATFwdDsr, w.mkKey(ProtoTCP, "10.0.0.1", p, "10.0.0.2", 88)
		case "tcp-dsr-oldrst":
			c.Timeout, c.Flags, c.RST, c.Key = 2*time.Minute, ctv4.FlagNATFwdDsr, "old", w.mkKey(ProtoTCP, "10.0.0.1", p, "10.0.0.2", 89)
		case "tcp-onefin": // half-closed, not DSR: still established
			c.Timeout, c.Key = w.to.TCPEstablished, w.mkKey(ProtoTCP, "10.0.0.1", p, "10.0.0.2", 90)
		case "tcp-fin-rst":
			c.Timeout, c.Key = w.to.TCPFinsSeen, w.mkKey(ProtoTCP, "10.0.0.1", p, "10.0.0.2", 91)
		case "generic":
			c.Timeout, c.Key = w.to.GenericTimeout, w.mkKey(132, "10.0.0.1", p, "10.0.0.2", 92)
		case "nat-tcp-oldrst":
			c.NAT, c.Timeout, c.RST = true, 2*time.Minute, "old"
			c.Key, c.FwdKey = w.mkKey(ProtoTCP, "10.0.0.1", p, "10.0.0.9", 8081), w.mkKey(ProtoTCP, "10.0.0.1", p, "10.96.0.10", 81)
		case "nat-udp":
			c.NAT, c.Timeout = true, w.to.UDPTimeout
			c.Key, c.FwdKey = w.mkKey(ProtoUDP, "10.0.0.1", p, "10.0.0.9", 5353), w.mkKey(ProtoUDP, "10.0.0.1", p, "10.96.0.10", 53)
		case "nat-tcp":
			c.NAT, c.Timeout = true, w.to.TCPEstablished
			c.Key, c.FwdKey = w.mkKey(ProtoTCP, "10.0.0.1", p, "10.0.0.9", 8080), w.mkKey(ProtoTCP, "10.0.0.1", p, "10.96.0.10", 80)
		default:
			panic("unknown kind " + in.Kind)
		}
		w.conns = append(w.conns, c)
		age := map[string]time.Duration{"fresh": time.Second, "under": c.Timeout - time.Second, "over": c.Timeout + time.Second}[in.Age]
		ls := w.clock.now - age
		if c.NAT {
			w.names[string(c.Key.AsBytes())] = c.Name + ".rev"
			w.names[string(c.FwdKey.AsBytes())] = c.Name + ".fwd"
			fls := ls
			if in.FwdOlder {
				fls = ls - 5*time.Second // forward leg last hit earlier than the reverse leg
			}
			if !in.NoRev {
				w.put(c.Key, w.newValue(c, ls, false))
			}
			if !in.NoFwd {
				w.put(c.FwdKey, w.newValue(c, fls, true))
			}
		} else {
			w.names[string(c.Key.AsBytes())] = c.Name
			w.put(c.Key, w.newValue(c, ls, false))
		}
	}
	return w
}

type c14Init struct {
	Kind     string
	Age      string // fresh, under, over
	FwdOlder bool   // NAT: forward entry's last_seen differs from the reverse entry's
	NoRev    bool   // NAT: reverse entry missing (evicted)
	NoFwd    bool   // NAT: forward entry missing
}

func (i c14Init) String() string {
	s := i.Kind + ":" + i.Age
	if i.FwdOlder {
		s += ":fwd-older"
	}
	if i.NoRev {
		s += ":no-rev"
	}
	if i.NoFwd {
		s += ":no-fwd"
	}
	return s
}

// ---------------------------------------------------------------------------------------------
// scanner coroutine control

func (w *c14World) startScan() {
	w.co.resume = make(chan string)
	w.co.parked = make(chan *c14Hook)
	w.co.trail = nil
	w.scanning = true
	go func() {
		defer func() { w.co.parked <- nil }()
		defer func() {
			if r := recover(); r != nil {
				w.fault = fmt.Sprintf("panic in Scanner.Scan: %v", r)
			}
		}()
		w.scanner.Scan()
	}()
	w.co.at = <-w.co.parked
	if w.co.at == nil {
		w.scans++
		w.scanning = false
		w.armedCCQ = ""
	}
}

func (w *c14World) stepScan(choice string) {
	w.co.trail = append(w.co.trail, w.co.at.Kind+":"+choice)
	w.co.resume <- choice
	w.co.at = <-w.co.parked
	if w.co.at == nil {
		w.scans++
		w.scanning = false
		w.armedCCQ = ""
	}
}

// runScanAtomically runs one complete scan with no interleaving (liveness epilogue).
func (w *c14World) runScanAtomically() {
	w.co.auto = true
	w.scanner.Scan()
	w.co.auto = false
}

func (w *c14World) close() {
	if w.co.at != nil {
		w.co.resume <- c14Abort
		<-w.co.parked
		w.co.at = nil
	}
}

// ---------------------------------------------------------------------------------------------
// state key

func (w *c14World) dumpMap(m *ebpf.HashMap) string {
	var b strings.Builder
	for _, k := range m.Keys() {
		v, _ := m.Lookup(k)
		fmt.Fprintf(&b, "%s=%x;", w.keyName(k), v)
	}
	return b.String()
}

func (w *c14World) stateKey() string {
	var b strings.Builder
	fmt.Fprintf(&b, "now=%d|scans=%d|p=%d|t=%d|f=%d|armed=%x|ct=%s|ccq=%s|", w.clock.now, w.scans, w.pUsed, w.tUsed, w.fUsed, w.armedCCQ, w.dumpMap(w.ct.m), w.dumpMap(w.ccq.m))
	if w.co.at != nil {
		fmt.Fprintf(&b, "at=%s%v|trail=%v|", w.co.at.Kind, w.co.at.Options, w.co.trail)
	}
	// scanner internals that survive between hooks
	var pend []string
	for k, v := range w.scanner.revNATKeyToFwdNATInfo {
		pend = append(pend, fmt.Sprintf("%s>%x", w.keyName(k.AsBytes()), v.AsBytes()))
	}
	sort.Strings(pend)
	fmt.Fprintf(&b, "pend=%v|ktime=%d/%d|", pend, w.live.cachedKTime, w.live.goTimeOfLastKTimeLookup.Sub(c14Epoch))
	var des []string
	w.scanner.ctCleanupMap.Desired().Iter(func(k KeyInterface, v cleanupv1.ValueInterface) {
		des = append(des, fmt.Sprintf("%s>%x", w.keyName(k.AsBytes()), v.AsBytes()))
	})
	sort.Strings(des)
	fmt.Fprintf(&b, "desired=%v|fails=%d|fault=%s", des, len(w.fails), w.fault)
	return b.String()
}

package conntrack

// C14 — BPF conntrack cleanup never removes a live connection.
//
// Explicit-state exploration (hbfs, history = sequence of atomic actor steps) of
//   U  the real conntrack.Scanner.Scan() with the real LivenessScanner, advanced hook by hook
//      (choice of the next conntrack key visited, the Get of a reverse entry, choice of the next
//      cleanup-queue entry handed to the kernel cleaner),
//   K  the real felix/bpf-gpl/conntrack_cleanup.c (clang-compiled, interpreted), one queue entry per step,
//   P  packets refreshing entries (forward / reverse direction), LRU eviction, re-creation,
//   T  the clock.
// Safety oracle at every deletion, liveness oracle in every state where the scanner is idle.

import (
	"fmt"
	"os"
	"path/filepath"
	"sort"
	"strings"
	"testing"
	"time"

	"github.com/sirupsen/logrus"

	"github.com/projectcalico/calico/zzverif/ebpf"
	"github.com/projectcalico/calico/zzverif/hbfs"
	"github.com/projectcalico/calico/zzverif/vk"
)

type c14Ev struct{ Op, Arg string }

func (e c14Ev) String() string {
	if e.Arg == "" {
		return e.Op
	}
	return e.Op + ":" + e.Arg
}

type c14Bounds struct{ maxScans, maxP, maxT, maxF int }

func c14Apply(w *c14World, e c14Ev) {
	switch e.Op {
	case "S:start":
		w.startScan()
	case "S":
		w.stepScan(e.Arg)
	case "T":
		w.clock.now += 2 * time.Second
		w.tUsed++
	case "P:fwd", "P:rev", "P:create":
		w.pUsed++
		// bpf_ktime_get_ns is strictly increasing: two packets never stamp the same value (without the
		// tick a re-created entry would be indistinguishable from the one that was judged - an artefact
		// of a logical clock, not a behaviour of the system)
		w.clock.now += time.Microsecond
		var c *c14Conn
		for _, x := range w.conns {
			if x.Name == e.Arg {
				c = x
			}
		}
		switch {
		case e.Op == "P:create":
			// a request packet of a (new) flow with this 5-tuple while at least one of its entries is
			// missing: conntrack.h drops a forward entry whose reverse entry is gone, misses, and creates
			// the tracking entry and then the forward entry afresh (both stamped now)
			w.put(c.Key, w.newValue(c, w.clock.now, false))
			if c.NAT {
				w.put(c.FwdKey, w.newValue(c, w.clock.now, true))
			}
		case !c.NAT:
			w.touch(c.Key)
		case e.Op == "P:rev":
			w.touch(c.Key) // reply direction hits the reverse (tracking) entry only
		default:
			// request direction: conntrack.h stamps the forward entry and, through the secondary lookup,
			// the reverse entry with the same `now`; a forward entry without reverse is dropped
			if _, ok := w.lastSeen(c.FwdKey); ok {
				if _, ok := w.lastSeen(c.Key); ok {
					w.touch(c.FwdKey)
					w.touch(c.Key)
				} else {
					w.ct.m.Delete(c.FwdKey.AsBytes())
				}
			}
		}
	case "P:rebind":
		// The forward entry is LRU-evicted and re-created by a NEW connection from the same client
		// ip:port to the same service that is load-balanced to another backend: same forward key, new
		// reverse key, both stamped now. The old reverse entry stays behind as an idle orphan.
		w.pUsed++
		w.clock.now += time.Microsecond
		for _, c := range w.conns {
			if c.Name != e.Arg {
				continue
			}
			old := c.Key
			orphan := &c14Conn{Name: c.Name + ".old", Kind: c.Kind, Timeout: c.Timeout, Key: old}
			w.names[string(old.AsBytes())] = orphan.Name + "rev"
			c.Key = w.mkKey(old.Proto(), "10.0.0.1", old.PortA(), "10.0.0.77", 9090)
			c.Rebound = true
			w.names[string(c.Key.AsBytes())] = c.Name + ".rev2"
			w.put(c.Key, w.newValue(c, w.clock.now, false))
			w.put(c.FwdKey, w.newValue(c, w.clock.now, true))
			w.conns = append(w.conns, orphan)
			break
		}
	case "F:ccq-write-fails":
		w.fUsed++
		for k, n := range w.names {
			if n == e.Arg {
				w.armedCCQ = k
			}
		}
	case "P:evict":
		w.pUsed++
		for k, n := range w.names {
			if n == e.Arg {
				w.ct.m.Delete([]byte(k))
			}
		}
	default:
		panic("unknown event " + e.Op)
	}
}

func c14Enabled(w *c14World, b c14Bounds) []c14Ev {
	var evs []c14Ev
	scanning := w.co.at != nil
	if scanning {
		if len(w.co.at.Options) == 0 {
			evs = append(evs, c14Ev{"S", ""})
		}
		for _, o := range w.co.at.Options {
			evs = append(evs, c14Ev{"S", o})
		}
	} else if w.scans < b.maxScans {
		evs = append(evs, c14Ev{"S:start", ""})
	}
	if !scanning && w.scans >= b.maxScans {
		return evs // nothing the cleanup could still do wrong
	}
	if w.pUsed < b.maxP {
		for _, c := range w.conns {
			_, hasT := w.lastSeen(c.Key)
			if !c.NAT {
				if hasT {
					evs = append(evs, c14Ev{"P:fwd", c.Name})
				} else {
					evs = append(evs, c14Ev{"P:create", c.Name})
				}
				continue
			}
			_, hasF := w.lastSeen(c.FwdKey)
			if hasF {
				evs = append(evs, c14Ev{"P:fwd", c.Name})
			}
			if hasT {
				evs = append(evs, c14Ev{"P:rev", c.Name})
			}
			if !hasF || !hasT {
				evs = append(evs, c14Ev{"P:create", c.Name})
			}
			if hasF && !c.Rebound {
				evs = append(evs, c14Ev{"P:rebind", c.Name})
			}
		}
		var names []string
		for k, n := range w.names {
			if _, ok := w.ct.m.Lookup([]byte(k)); ok {
				names = append(names, n)
			}
		}
		sort.Strings(names)
		for _, n := range names {
			evs = append(evs, c14Ev{"P:evict", n})
		}
	}
	if w.tUsed < b.maxT {
		evs = append(evs, c14Ev{"T", "+2s"})
	}
	if scanning && w.fUsed < b.maxF && w.armedCCQ == "" {
		var names []string
		for k, n := range w.names {
			if _, ok := w.ct.m.Lookup([]byte(k)); ok {
				names = append(names, n)
			}
		}
		sort.Strings(names)
		for _, n := range names {
			evs = append(evs, c14Ev{"F:ccq-write-fails", n})
		}
	}
	return evs
}

// c14Check: safety failures collected at deletion time + the liveness epilogue.
func c14Check(w *c14World) []hbfs.Fail {
	w.key = w.stateKey()
	var out []hbfs.Fail
	if w.fault != "" {
		out = append(out, hbfs.Fail{Key: "C14:cleaner-program-fault" + w.fam(), Msg: w.fault})
	}
	for _, f := range w.fails {
		out = append(out, hbfs.Fail{Key: f.Key, Msg: f.Msg})
	}
	if w.co.at != nil || len(out) > 0 {
		return out
	}
	// Liveness, strong form for undisturbed histories: the exploration itself has enumerated every
	// visiting order of the scan that just finished; with no packet, eviction or clock event at all,
	// every entry that was idle past its timeout when the scan started must be gone after that ONE
	// scan (whatever the order), and so must an orphaned forward entry.
	if w.scans >= 1 && w.pUsed == 0 && w.tUsed == 0 && w.fUsed == 0 {
		if fs := w.idleLeft("after one undisturbed scan+cleaner pass (this visiting order)"); len(fs) > 0 {
			return fs
		}
	}
	// Liveness: with no further traffic, two complete scan + cleaner passes remove every entry that
	// has been idle past its timeout (two: a forward entry whose reverse entry vanished during the
	// first pass is only recognised as orphaned in the next one).
	w.clock.now += 2 * time.Second // also lets the scanner refresh its cached kernel time
	nf := len(w.fails)
	w.runScanAtomically()
	w.runScanAtomically()
	for _, f := range w.fails[nf:] {
		out = append(out, hbfs.Fail{Key: f.Key, Msg: "during the quiescent epilogue: " + f.Msg})
	}
	if w.fault != "" {
		out = append(out, hbfs.Fail{Key: "C14:cleaner-program-fault" + w.fam(), Msg: w.fault})
	}
	out = append(out, w.idleLeft("after two quiescent scan+cleaner passes")...)
	return out
}

// idleLeft lists entries that are idle past their timeout (or orphaned forward entries) and still present.
func (w *c14World) idleLeft(when string) []hbfs.Fail {
	var out []hbfs.Fail
	now := w.clock.now
	for _, c := range w.conns {
		tls, hasT := w.lastSeen(c.Key)
		if hasT && now-tls > c.Timeout {
			out = append(out, hbfs.Fail{Key: "C14:idle-entry-not-removed:" + c.Kind + w.fam(),
				Msg: fmt.Sprintf("%s (last_seen %v, %v idle at now=%v, timeout %v) is still in the conntrack map %s", w.keyName(c.Key.AsBytes()), tls, now-tls, now, c.Timeout, when)})
		}
		if c.NAT {
			if _, hasF := w.lastSeen(c.FwdKey); hasF && (!hasT || now-tls > c.Timeout) {
				out = append(out, hbfs.Fail{Key: "C14:idle-nat-forward-entry-not-removed:" + c.Kind + w.fam(),
					Msg: fmt.Sprintf("forward entry %s is still in the conntrack map %s although its reverse entry is %s", w.keyName(c.FwdKey.AsBytes()), when, map[bool]string{true: "idle past the timeout", false: "gone"}[hasT])})
			}
		}
	}
	return out
}

func c14Spec(name string, ver int, prog *ebpf.Program, qk, qv int, init []c14Init, b c14Bounds, depth int, graph bool) *hbfs.Spec[*c14World, c14Ev] {
	sp := &hbfs.Spec[*c14World, c14Ev]{
		Name: name,
		New: func() *c14World {
			w := c14NewWorld(ver, prog, qk, qv, init)
			w.maxF = b.maxF
			return w
		},
		Apply:    c14Apply,
		Enabled:  func(w *c14World, d int) []c14Ev { return c14Enabled(w, b) },
		Check:    func(w *c14World, h []c14Ev) []hbfs.Fail { return c14Check(w) },
		Close:    func(w *c14World) { w.close() },
		Show:     func(e c14Ev) string { return e.String() },
		MaxDepth: depth,
		Workers:  6,
		Nontrivial: func(w *c14World) bool {
			return len(w.deleted) > 0 || (w.pUsed > 0 && len(w.co.trail) > 0)
		},
		Outcome: func(w *c14World) string {
			d := append([]string(nil), w.deleted...)
			sort.Strings(d)
			return fmt.Sprintf("deleted=%v remaining=%d", d, w.ct.m.Len())
		},
		Quiet: false,
	}
	if graph {
		sp.Key = func(w *c14World) string { return w.key }
	}
	return sp
}

func TestVerif_C14(t *testing.T) {
	vk.Run(t, "C14", func(c *vk.Ctx) {
		logrus.SetLevel(logrus.PanicLevel)
		if err := ebpf.SelfTest(); err != nil {
			c.ToolError("ebpf self-test: " + err.Error())
			return
		}
		dir, err := c14Build()
		if err != nil {
			c.ToolError(err.Error())
			return
		}
		if strings.Contains(dir, "/bpf-scratch/") {
			defer os.RemoveAll(dir)
		}
		if err := ebpf.SelfTestELF(filepath.Join(dir, "selftest.o")); err != nil {
			c.ToolError(err.Error())
			return
		}
		progs := map[int]*ebpf.Program{}
		qk, qv := map[int]int{}, map[int]int{}
		for _, ver := range []int{4, 6} {
			lay, err := ebpf.ReadLayout(filepath.Join(dir, fmt.Sprintf("layout_v%d.o", ver)))
			if err != nil {
				c.ToolError(err.Error())
				return
			}
			obj, err := ebpf.LoadELF(filepath.Join(dir, fmt.Sprintf("ctclean_v%d.o", ver)))
			if err != nil {
				c.ToolError(err.Error())
				return
			}
			prog, err := obj.WithEntry("conntrack_cleanup")
			if err != nil {
				c.ToolError(err.Error())
				return
			}
			if _, ok := obj.Funcs["process_ccq_entry"]; !ok {
				c.ToolError("conntrack_cleanup.o has no function process_ccq_entry")
				return
			}
			k, e1 := lay.Get("S_qos_key")
			v, e2 := lay.Get("S_qos_conn_val")
			if e1 != nil || e2 != nil {
				c.ToolError(fmt.Sprint(e1, e2))
				return
			}
			// layout the harness relies on when it stamps last_seen directly / reads the queued rev_key
			if o, _ := lay.Get("O_ct_value__last_seen"); o != 8 {
				c.ToolError(fmt.Sprintf("offsetof(calico_ct_value,last_seen)=%d, harness assumes 8 (see C13)", o))
				return
			}
			progs[ver], qk[ver], qv[ver] = prog, int(k), int(v)
		}
		c.Rule("actors: U = real Scanner.Scan()+LivenessScanner advanced hook by hook (every visiting order of the conntrack keys, the reverse-entry Get, every processing order of the cleanup queue), K = real conntrack_cleanup.c interpreted one queue entry per step, P = forward/reverse packet on a connection, LRU eviction of any entry, re-creation with the same reverse key, re-creation of the forward entry for a new backend (different reverse key), T = clock +2s, F = a transient failure (EINTR) of any map operation the scanner issues (reverse-entry Get, conntrack iteration, cleanup-queue Update), at most one per history; " +
			"initial tables: every connection kind {udp, icmp, unknown protocol, tcp syn-sent/established/half-closed/fins/rst-flag/fins+rst, established or syn-sent with an old or recent rst_seen timestamp, DSR syn-only/one-fin/old-rst, NAT pair udp/tcp with equal or different leg timestamps or old rst_seen, orphan forward, orphan reverse} x age {fresh, 1s under, 1s over the timeout}, alone and in pairs; bounds: scans, packets, clock steps per exploration (see extras). " +
			"Non-trivial = a deletion happened or a packet event interleaved with a scan in progress.")
		c.Assume("one invocation of process_ccq_entry is atomic (the window between its lookup and its delete inside one BPF invocation is not explored)")
		c.Assume("packet path model: request-direction packets stamp forward and reverse entry with the same now, reply-direction packets stamp the reverse entry only, a forward entry whose reverse entry is missing is dropped by the next request packet (conntrack.h); map iteration visits the keys present at its start in any order and reads current values")
		c.Assume("expected timeout of each generated entry = the shortest idle time after which the documented rules allow removal: the timeouts.DefaultTimeouts() field for its protocol/state (udp, icmp, generic, tcp syn-sent / established / fins-seen / reset-seen; DSR: one FIN counts as fins-seen, syn-only counts as established), 2 minutes for an established/DSR flow with a non-zero rst_seen timestamp")

		type scen struct {
			init []c14Init
		}
		kinds := []string{"udp", "tcp-est", "tcp-fin", "tcp-rst", "tcp-syn", "icmp",
			// the other inputs of the expiry rules x {old, fresh}: rst_seen timestamp, per-leg FIN/RST flags, DSR, unknown protocol
			"tcp-est-oldrst", "tcp-est-recentrst", "tcp-syn-oldrst", "tcp-dsr-syn", "tcp-dsr-onefin", "tcp-dsr-oldrst", "tcp-onefin", "tcp-fin-rst", "generic"}
		var singles, pairs []scen
		for _, k := range kinds {
			for _, a := range []string{"fresh", "under", "over"} {
				singles = append(singles, scen{[]c14Init{{Kind: k, Age: a}}})
			}
		}
		for _, a := range []string{"fresh", "under", "over"} {
			singles = append(singles, scen{[]c14Init{{Kind: "nat-tcp-oldrst", Age: a, FwdOlder: true}}})
		}
		for _, k := range []string{"nat-udp", "nat-tcp"} {
			for _, a := range []string{"over", "under"} {
				singles = append(singles, scen{[]c14Init{{Kind: k, Age: a}}})
				singles = append(singles, scen{[]c14Init{{Kind: k, Age: a, FwdOlder: true}}})
			}
			singles = append(singles, scen{[]c14Init{{Kind: k, Age: "fresh"}}}, scen{[]c14Init{{Kind: k, Age: "fresh", FwdOlder: true}}})
			singles = append(singles, scen{[]c14Init{{Kind: k, Age: "over", NoRev: true}}})
			singles = append(singles, scen{[]c14Init{{Kind: k, Age: "fresh", NoRev: true}}})
			singles = append(singles, scen{[]c14Init{{Kind: k, Age: "over", NoFwd: true}}})
		}
		pairs = append(pairs,
			scen{[]c14Init{{Kind: "udp", Age: "over"}, {Kind: "nat-udp", Age: "over", FwdOlder: true}}},
			scen{[]c14Init{{Kind: "nat-udp", Age: "over"}, {Kind: "nat-tcp", Age: "under", FwdOlder: true}}},
			scen{[]c14Init{{Kind: "tcp-est", Age: "under"}, {Kind: "udp", Age: "over"}}},
			scen{[]c14Init{{Kind: "nat-udp", Age: "over", FwdOlder: true}, {Kind: "nat-udp", Age: "over"}}},
		)
		describe := func(s scen) string {
			var p []string
			for _, i := range s.init {
				p = append(p, i.String())
			}
			return strings.Join(p, "+")
		}
		run6 := func(s scen, b c14Bounds, depth int) {
			if c.Expired() {
				c.Capped("deadline before IPv6 scenario " + describe(s))
				return
			}
			hbfs.Explore(c, c14Spec(fmt.Sprintf("C14[ipv6|%s|scans=%d,p=%d,t=%d|graph]", describe(s), b.maxScans, b.maxP, b.maxT), 6, progs[6], qk[6], qv[6], s.init, b, depth, true))
		}
		run := func(s scen, b c14Bounds, depth int, graph bool) {
			if c.Expired() {
				c.Capped("deadline before scenario " + describe(s))
				return
			}
			mode := "graph"
			if !graph {
				mode = "tree"
			}
			hbfs.Explore(c, c14Spec(fmt.Sprintf("C14[%s|scans=%d,p=%d,t=%d,f=%d|%s]", describe(s), b.maxScans, b.maxP, b.maxT, b.maxF, mode), 4, progs[4], qk[4], qv[4], s.init, b, depth, graph))
		}
		if c.Quick() {
			for _, s := range singles {
				run(s, c14Bounds{maxScans: 1, maxP: 2, maxT: 1, maxF: 1}, 14, true)
			}
			for _, s := range pairs[:2] {
				run(s, c14Bounds{maxScans: 1, maxP: 1, maxT: 1}, 20, true)
			}
			run(scen{[]c14Init{{Kind: "nat-udp", Age: "over", FwdOlder: true}}}, c14Bounds{maxScans: 1, maxP: 1, maxT: 1}, 6, false)
			// IPv6 instance of the scanner (KeyV6/ValueV6, cleanupv1.ValueV6, conntrack_cleanup.c -DIPVER6)
			for _, s := range []scen{{[]c14Init{{Kind: "udp", Age: "over"}}}, {[]c14Init{{Kind: "nat-udp", Age: "over"}}}, {[]c14Init{{Kind: "nat-udp", Age: "over", FwdOlder: true}}}, {[]c14Init{{Kind: "nat-tcp", Age: "over", NoFwd: true}}}} {
				run6(s, c14Bounds{maxScans: 1, maxP: 1, maxT: 1, maxF: 1}, 14)
			}
		} else {
			for _, s := range singles {
				run6(s, c14Bounds{maxScans: 2, maxP: 2, maxT: 1, maxF: 1}, 24)
			}
			for _, s := range singles {
				run(s, c14Bounds{maxScans: 2, maxP: 2, maxT: 1, maxF: 1}, 24, true)
				if len(s.init) == 1 && !strings.HasPrefix(s.init[0].Kind, "nat-") {
					run(s, c14Bounds{maxScans: 2, maxP: 3, maxT: 2, maxF: 0}, 24, true)
				}
				run(s, c14Bounds{maxScans: 1, maxP: 2, maxT: 1}, 8, false)
			}
			for _, s := range pairs {
				run(s, c14Bounds{maxScans: 2, maxP: 2, maxT: 1}, 26, true)
			}
		}
		w := c14NewWorld(4, progs[4], qk[4], qv[4], []c14Init{{Kind: "nat-udp", Age: "over", FwdOlder: true}})
		c.Sample(map[string]any{"initial_table": w.dumpMap(w.ct.m), "example_history": []string{"S:start", "S:nat-udp#0.fwd", "S", "P:rev:nat-udp#0", "S:nat-udp#0.rev", "S:nat-udp#0.fwd"},
			"meaning": "scan visits the forward entry (reads the reverse entry: expired), a reply packet refreshes the reverse entry, scan visits the reverse entry (not expired any more), cleaner processes the queued forward key"})
	})
}

package storage

// C32 — flow aggregation conserves counts and emits each window once.
//
// Explicit-state search over the real BucketRing: AddFlow (two flow keys; past-out-of-ring, oldest
// bucket, recent buckets, the current bucket, the future-dated head bucket, beyond the ring),
// Rollover with and without a sink, EmitFlowCollections. Reference model: the plain list of accepted
// flows stamped with the bucket they belong to (computed from the ring's origin and the rollover count,
// independent of findBucket).

import (
	"fmt"
	"sort"
	"strings"
	"testing"

	"github.com/sirupsen/logrus"

	"github.com/projectcalico/calico/goldmane/pkg/types"
	"github.com/projectcalico/calico/goldmane/proto"
	"github.com/projectcalico/calico/lib/std/time"
	"github.com/projectcalico/calico/zzverif/hbfs"
	"github.com/projectcalico/calico/zzverif/vk"
)

type c32Cfg struct {
	N, Interval, PushAfter, Aggregate int
}

func (g c32Cfg) String() string {
	return fmt.Sprintf("n%d-i%d-push%d-agg%d", g.N, g.Interval, g.PushAfter, g.Aggregate)
}

type c32Ev struct {
	Op  string // add | roll | rollnil | emit
	Key int    // flow key 1|2
	Cls string // time class for add
}

func (e c32Ev) String() string { return fmt.Sprintf("%s:%d:%s", e.Op, e.Key, e.Cls) }

type c32Acc struct {
	key    int
	bucket int64 // start time of the bucket the flow belongs to
}

type c32Emission struct {
	start, end int64
	counts     map[int]int64 // key -> PacketsIn emitted
}

type c32State struct {
	cfg      c32Cfg
	r        *BucketRing
	origin   int64 // start of the oldest bucket right after construction
	rolls    int64 // rollovers since construction
	acc      []c32Acc
	rejected int
	emis     []c32Emission
	bad      []string
	// steady = the "sink always attached, flows always on time" regime: every rollover hands the sink over and
	// flows are only dated into the current bucket, so every accepted flow is due for emission long before its
	// bucket is recycled
	steady bool
}

const c32Now0 = 100000

func c32Weight(key int) int64 { return int64(2*key - 1) } // key1 -> 1, key2 -> 3

func c32Flow(key int, t int64) *types.Flow {
	w := c32Weight(key)
	return types.ProtoToFlow(&proto.Flow{
		Key: &proto.FlowKey{
			SourceName: "src", SourceNamespace: "ns", DestName: fmt.Sprintf("dst%d", key), DestNamespace: "ns", Proto: "tcp",
			Action: proto.Action_Allow, Reporter: proto.Reporter_Dst,
			Policies: &proto.PolicyTrace{EnforcedPolicies: []*proto.PolicyHit{{
				Kind: proto.PolicyKind_CalicoNetworkPolicy, Tier: "default", Name: "pol", Namespace: "ns", Action: proto.Action_Allow,
			}}},
		},
		StartTime: t, EndTime: t + 1,
		PacketsIn: w, PacketsOut: 2 * w, BytesIn: 10 * w, BytesOut: 20 * w,
		NumConnectionsStarted: w, NumConnectionsCompleted: w, NumConnectionsLive: w,
	})
}

func (s *c32State) boh() int64 { return s.origin + s.rolls*int64(s.cfg.Interval) }

// Receive implements Sink: completeness of the emitted window is judged at the moment of emission.
func (s *c32State) Receive(c *FlowCollection) {
	e := c32Emission{start: c.StartTime, end: c.EndTime, counts: map[int]int64{}}
	for i := range c.Flows {
		f := &c.Flows[i]
		k := 0
		fmt.Sscanf(f.Key.DestName(), "dst%d", &k)
		if _, dup := e.counts[k]; dup {
			s.bad = append(s.bad, fmt.Sprintf("emission-duplicate-key:window [%d,%d) lists flow key %d twice", c.StartTime, c.EndTime, k))
		}
		e.counts[k] = f.PacketsIn
		if f.PacketsOut != 2*f.PacketsIn || f.BytesIn != 10*f.PacketsIn || f.BytesOut != 20*f.PacketsIn || f.NumConnectionsStarted != f.PacketsIn {
			s.bad = append(s.bad, fmt.Sprintf("emission-inconsistent-counters:window [%d,%d) key %d: %+v", c.StartTime, c.EndTime, k, *f))
		}
	}
	want := map[int]int64{}
	for _, a := range s.acc {
		if a.bucket >= c.StartTime && a.bucket < c.EndTime {
			want[a.key] += c32Weight(a.key)
		}
	}
	if c.StartTime >= c.EndTime {
		s.bad = append(s.bad, fmt.Sprintf("emission-inverted-window:window [%d,%d) emitted with %d flows", c.StartTime, c.EndTime, len(c.Flows)))
	} else if c32Counts(want) != c32Counts(e.counts) {
		s.bad = append(s.bad, fmt.Sprintf("emission-incomplete:window [%d,%d) emitted %s but the flows accepted into it so far sum to %s", c.StartTime, c.EndTime, c32Counts(e.counts), c32Counts(want)))
	}
	s.emis = append(s.emis, e)
}

func c32Counts(m map[int]int64) string {
	var ks []int
	for k, v := range m {
		if v != 0 {
			ks = append(ks, k)
		}
	}
	sort.Ints(ks)
	var b strings.Builder
	for _, k := range ks {
		fmt.Fprintf(&b, "k%d=%d ", k, m[k])
	}
	return "{" + strings.TrimSpace(b.String()) + "}"
}

func c32New(g c32Cfg) *c32State {
	s := &c32State{cfg: g}
	fixed := time.Unix(c32Now0, 0)
	s.r = NewBucketRing(g.N, g.Interval, c32Now0,
		WithNowFunc(func() time.Time { return fixed }),
		WithPushAfter(g.PushAfter),
		WithBucketsToAggregate(g.Aggregate),
	)
	s.origin = s.r.BeginningOfHistory()
	return s
}

func c32Events(g c32Cfg) []c32Ev {
	var evs []c32Ev
	for _, cls := range []string{"past", "oldest", "now-2", "now-1", "now", "head", "future"} {
		evs = append(evs, c32Ev{Op: "add", Key: 1, Cls: cls})
	}
	for _, cls := range []string{"oldest", "now-2", "now", "head"} {
		evs = append(evs, c32Ev{Op: "add", Key: 2, Cls: cls})
	}
	evs = append(evs, c32Ev{Op: "roll"}, c32Ev{Op: "rollnil"}, c32Ev{Op: "emit"})
	return evs
}

func c32Apply(s *c32State, e c32Ev) {
	I := int64(s.cfg.Interval)
	n := int64(s.cfg.N)
	switch e.Op {
	case "add":
		boh := s.boh()
		var t int64
		// key 1 lands on the last second of its bucket, key 2 on the first
		off := I - 1
		if e.Key == 2 {
			off = 0
		}
		switch e.Cls {
		case "past":
			t = boh - 1
		case "oldest":
			t = boh + off
		case "now-2":
			t = boh + (n-4)*I + off
		case "now-1":
			t = boh + (n-3)*I + off
		case "now":
			t = boh + (n-2)*I + off
		case "head":
			t = boh + (n-1)*I + off
		case "future":
			t = boh + n*I
		default:
			panic("bad class")
		}
		sizeBefore := s.r.Size()
		s.r.AddFlow(c32Flow(e.Key, t))
		if t >= boh && t < boh+n*I {
			s.acc = append(s.acc, c32Acc{key: e.Key, bucket: s.origin + (t-s.origin)/I*I})
		} else {
			s.rejected++
			if s.r.Size() != sizeBefore {
				s.bad = append(s.bad, fmt.Sprintf("out-of-ring-flow-stored:flow at %d outside history [%d,%d) created a stored flow", t, boh, boh+n*I))
			}
		}
	case "tick", "flowtick":
		if e.Op == "flowtick" {
			t := s.boh() + (n-2)*I + I - 1
			s.r.AddFlow(c32Flow(1, t))
			s.acc = append(s.acc, c32Acc{key: 1, bucket: s.origin + (t-s.origin)/I*I})
		}
		// the oldest bucket is about to be recycled: with the sink attached at every rollover and flows never late,
		// whatever it holds must have been handed to the sink by now (completeness of each hand-off is checked in Receive)
		boh0 := s.boh()
		has := false
		for _, a := range s.acc {
			if a.bucket == boh0 {
				has = true
			}
		}
		if has {
			covered := false
			for _, em := range s.emis {
				if em.start <= boh0 && boh0 < em.end {
					covered = true
				}
			}
			if !covered {
				s.bad = append(s.bad, fmt.Sprintf("accepted-flow-never-emitted:the bucket starting at %d holds an accepted, on-time flow and is being recycled, but no emitted window ever covered it (sink attached at every rollover)", boh0))
			}
		}
		s.r.Rollover(s)
		s.rolls++
		kept := s.acc[:0:0]
		for _, a := range s.acc {
			if a.bucket >= s.boh() {
				kept = append(kept, a)
			}
		}
		s.acc = kept
		// forget emissions that lie wholly before the ring (keeps the state finite)
		ke := s.emis[:0:0]
		for _, em := range s.emis {
			if em.end > s.boh()-n*I {
				ke = append(ke, em)
			}
		}
		s.emis = ke
	case "roll", "rollnil":
		if e.Op == "roll" {
			s.r.Rollover(s)
		} else {
			s.r.Rollover(nil)
		}
		s.rolls++
		// flows of the bucket that was recycled are no longer retained
		boh := s.boh()
		kept := s.acc[:0:0]
		for _, a := range s.acc {
			if a.bucket >= boh {
				kept = append(kept, a)
			}
		}
		s.acc = kept
	case "emit":
		s.r.EmitFlowCollections(s)
	default:
		panic("bad op")
	}
}

func (s *c32State) refSum(gte, lt int64) map[int]int64 {
	m := map[int]int64{}
	for _, a := range s.acc {
		if (gte == 0 || a.bucket >= gte) && (lt == 0 || a.bucket < lt) {
			m[a.key] += c32Weight(a.key)
		}
	}
	return m
}

func c32Check(s *c32State, hist []c32Ev) []hbfs.Fail {
	var fails []hbfs.Fail
	add := func(key, f string, a ...any) {
		if len(fails) < 8 {
			fails = append(fails, hbfs.Fail{Key: "C32:" + key, Msg: s.cfg.String() + ": " + fmt.Sprintf(f, a...)})
		}
	}
	for _, b := range s.bad {
		i := strings.Index(b, ":")
		add(b[:i], "%s", b[i+1:])
	}
	I := int64(s.cfg.Interval)
	n := int64(s.cfg.N)
	boh := s.boh()
	if got := s.r.BeginningOfHistory(); got != boh {
		add("history-bounds", "BeginningOfHistory=%d want %d", got, boh)
		return fails
	}
	if got := s.r.EndOfHistory(); got != boh+n*I {
		add("history-bounds", "EndOfHistory=%d want %d", got, boh+n*I)
		return fails
	}
	// every accepted flow in exactly one bucket + List over every bucket-aligned range (0 = unbounded)
	var gtes, lts []int64
	gtes = append(gtes, 0)
	lts = append(lts, 0)
	for i := int64(0); i < n; i++ {
		gtes = append(gtes, boh+i*I)
		lts = append(lts, boh+(i+1)*I)
	}
	// ranges: every single bucket, every prefix [0,x) and suffix [x,0), every pair of adjacent buckets, the whole
	// ring, and (time index only) every other aligned pair
	useful := func(gte, lt int64) bool {
		return gte == 0 || lt == 0 || lt-gte <= 2*I || (gte == boh && lt == boh+n*I)
	}
	for _, sortBy := range []proto.SortBy{proto.SortBy_Time, proto.SortBy_DestName} {
		for _, gte := range gtes {
			for _, lt := range lts {
				if gte != 0 && lt != 0 && gte >= lt {
					continue
				}
				if sortBy != proto.SortBy_Time && !useful(gte, lt) {
					continue
				}
				req := &proto.FlowListRequest{StartTimeGte: gte, StartTimeLt: lt}
				if sortBy != proto.SortBy_Time {
					req.SortBy = []*proto.SortOption{{SortBy: sortBy}}
				}
				flows, _, err := s.r.List(req)
				if err != nil {
					add("list-error", "List[%d,%d) sort=%v: %v", gte, lt, sortBy, err)
					continue
				}
				got := map[int]int64{}
				for _, f := range flows {
					k := 0
					fmt.Sscanf(f.Key.DestName(), "dst%d", &k)
					if _, dup := got[k]; dup {
						add("list-duplicate-key", "List[%d,%d) sort=%v returned key %d twice", gte, lt, sortBy, k)
					}
					got[k] = f.PacketsIn
					if f.PacketsIn == 0 {
						add("list-empty-flow", "List[%d,%d) sort=%v returned key %d with zero packets", gte, lt, sortBy, k)
					}
					if f.PacketsOut != 2*f.PacketsIn || f.BytesIn != 10*f.PacketsIn || f.BytesOut != 20*f.PacketsIn ||
						f.NumConnectionsStarted != f.PacketsIn || f.NumConnectionsCompleted != f.PacketsIn || f.NumConnectionsLive != f.PacketsIn {
						add("list-inconsistent-counters", "List[%d,%d) sort=%v key %d: %+v", gte, lt, sortBy, k, *f)
					}
				}
				want := s.refSum(gte, lt)
				if c32Counts(got) != c32Counts(want) {
					key := "list-sum"
					if gte != 0 && lt == gte+I {
						key = "flow-not-in-exactly-its-bucket"
					}
					add(key, "List[%d,%d) sort=%v = %s but accepted+retained flows of that range sum to %s (history starts %d, interval %d)", gte, lt, sortBy, c32Counts(got), c32Counts(want), boh, I)
				}
			}
		}
	}
	// Statistics (packet count per policy) over every aligned range that lies inside the ring
	for _, gte := range gtes {
		for _, lt := range lts {
			if gte != 0 && lt != 0 && gte >= lt {
				continue
			}
			if !useful(gte, lt) {
				continue
			}
			if lt == boh+n*I {
				continue // the end of the ring is not a findable bucket: Statistics reports an error (statement silent)
			}
			res, err := s.r.Statistics(&proto.StatisticsRequest{StartTimeGte: gte, StartTimeLt: lt, Type: proto.StatisticType_PacketCount, GroupBy: proto.StatisticsGroupBy_Policy})
			if err != nil {
				add("statistics-error", "Statistics[%d,%d): %v", gte, lt, err)
				continue
			}
			// lt == 0 means "now": the future-dated head bucket is not included
			hi := lt
			if hi == 0 {
				hi = boh + (n-1)*I
			}
			var wantIn int64
			for _, v := range s.refSum(gte, hi) {
				wantIn += v
			}
			var gotIn, gotOut int64
			for _, r := range res {
				for _, v := range r.AllowedIn {
					gotIn += v
				}
				for _, v := range r.AllowedOut {
					gotOut += v
				}
				if len(r.DeniedIn) > 0 && r.DeniedIn[0] != 0 {
					add("statistics-sum", "Statistics[%d,%d) reports denied packets", gte, lt)
				}
			}
			if len(res) > 1 {
				add("statistics-sum", "Statistics[%d,%d) returned %d results for one policy", gte, lt, len(res))
			}
			if gotIn != wantIn || gotOut != 2*wantIn {
				add("statistics-sum", "Statistics[%d,%d) allowed in/out = %d/%d but accepted+retained flows of that range sum to %d/%d", gte, lt, gotIn, gotOut, wantIn, 2*wantIn)
			}
		}
	}
	// emitted windows never overlap (a bucket is handed to the sink at most once)
	for i := range s.emis {
		for j := i + 1; j < len(s.emis); j++ {
			a, b := s.emis[i], s.emis[j]
			if a.start < b.end && b.start < a.end {
				add("window-emitted-twice", "windows [%d,%d) and [%d,%d) were both emitted", a.start, a.end, b.start, b.end)
			}
		}
	}
	return fails
}

func c32Key(s *c32State) string {
	var b strings.Builder
	r := s.r
	fmt.Fprintf(&b, "h%d|", r.headIndex)
	for i, bk := range r.buckets {
		var ks []string
		for d := range bk.Flows.All() {
			ks = append(ks, d.Key.DestName())
		}
		sort.Strings(ks)
		fmt.Fprintf(&b, "%d:%d-%d p%v r%v %v;", i, bk.StartTime, bk.EndTime, bk.pushed, bk.ready, ks)
	}
	var ds []string
	for _, d := range r.diachronics {
		var w strings.Builder
		for _, x := range d.Windows {
			fmt.Fprintf(&w, "(%d,%d,%d)", x.start, x.end, x.PacketsIn)
		}
		ds = append(ds, d.Key.DestName()+w.String())
	}
	sort.Strings(ds)
	fmt.Fprintf(&b, "|%v|", ds)
	acc := make([]string, len(s.acc))
	for i, a := range s.acc {
		acc[i] = fmt.Sprintf("%d@%d", a.key, a.bucket)
	}
	sort.Strings(acc)
	fmt.Fprintf(&b, "%v|", acc)
	for _, e := range s.emis {
		if e.end > s.boh()-int64(s.cfg.Interval*s.cfg.N) {
			fmt.Fprintf(&b, "E[%d,%d)", e.start, e.end)
		}
	}
	fmt.Fprintf(&b, "|%d", len(s.bad))
	return b.String()
}

// c32Narrow is a reduced alphabet used for the deep pass (long enough to recycle every bucket of the ring).
func c32Narrow() []c32Ev {
	return []c32Ev{{Op: "add", Key: 1, Cls: "now-2"}, {Op: "add", Key: 1, Cls: "now"}, {Op: "add", Key: 2, Cls: "head"}, {Op: "roll"}, {Op: "rollnil"}, {Op: "emit"}}
}

// c32RelKey is a time-shift-invariant state key for the steady regime: everything relative to the beginning of history.
func c32RelKey(s *c32State) string {
	var b strings.Builder
	r := s.r
	boh := s.boh()
	fmt.Fprintf(&b, "h%d|", r.headIndex)
	for i, bk := range r.buckets {
		fmt.Fprintf(&b, "%d:%d p%v r%v f%d;", i, bk.StartTime-boh, bk.pushed, bk.ready, bk.Flows.Len())
	}
	for _, d := range r.diachronics {
		for _, x := range d.Windows {
			fmt.Fprintf(&b, "(%d,%d)", x.start-boh, x.PacketsIn)
		}
	}
	b.WriteString("|")
	for _, a := range s.acc {
		fmt.Fprintf(&b, "%d,", a.bucket-boh)
	}
	b.WriteString("|")
	for _, e := range s.emis {
		fmt.Fprintf(&b, "E[%d,%d)", e.start-boh, e.end-boh)
	}
	fmt.Fprintf(&b, "|%d", len(s.bad))
	return b.String()
}

// c32SteadySpec: sink attached at every rollover, at most one on-time flow per bucket; two events (idle tick / tick
// with a flow). The key is time-shift invariant, so the search runs to its fixpoint: every pattern of idle and busy
// buckets over any number of ring revolutions.
func c32SteadySpec(g c32Cfg, depth int) *hbfs.Spec[*c32State, c32Ev] {
	evs := []c32Ev{{Op: "tick"}, {Op: "flowtick"}}
	return &hbfs.Spec[*c32State, c32Ev]{
		Name: "ring-" + g.String() + "-graph-steady",
		New: func() *c32State {
			s := c32New(g)
			s.steady = true
			return s
		},
		Apply:      c32Apply,
		Enabled:    func(s *c32State, d int) []c32Ev { return evs },
		Key:        c32RelKey,
		Check:      c32Check,
		MaxDepth:   depth,
		Workers:    8,
		Nontrivial: func(s *c32State) bool { return s.rolls >= int64(g.N) && len(s.emis) > 0 },
		Outcome: func(s *c32State) string {
			return fmt.Sprintf("%s steady revolutions=%d emissions-in-ring=%d", g, min(s.rolls/int64(g.N), 3), min(len(s.emis), 4))
		},
		PanicKey: func(val string, hist []c32Ev) string { return "C32:panic" },
	}
}

func c32Spec(g c32Cfg, depth int, tree bool) *hbfs.Spec[*c32State, c32Ev] {
	return c32SpecEv(g, depth, tree, c32Events(g), "")
}

func c32SpecEv(g c32Cfg, depth int, tree bool, evs []c32Ev, tag string) *hbfs.Spec[*c32State, c32Ev] {
	mode := "graph" + tag
	if tree {
		mode = "tree"
	}
	sp := &hbfs.Spec[*c32State, c32Ev]{
		Name:     "ring-" + g.String() + "-" + mode,
		New:      func() *c32State { return c32New(g) },
		Apply:    c32Apply,
		Enabled:  func(s *c32State, d int) []c32Ev { return evs },
		Key:      c32Key,
		Check:    c32Check,
		MaxDepth: depth,
		Workers:  8,
		Nontrivial: func(s *c32State) bool {
			return len(s.emis) > 0 || (len(s.acc) >= 2 && s.rolls > 0)
		},
		Outcome: func(s *c32State) string {
			return fmt.Sprintf("%s accepted=%d rejected>0=%v rolls=%d emissions=%d", g, min(len(s.acc), 3), s.rejected > 0, min(s.rolls, 4), min(len(s.emis), 3))
		},
		PanicKey: func(val string, hist []c32Ev) string { return "C32:panic" },
	}
	if tree {
		sp.Key = nil
	}
	return sp
}

func c32SteadyConfigs(c *vk.Ctx) []c32Cfg {
	cfgs := []c32Cfg{{N: 8, Interval: 10, PushAfter: 2, Aggregate: 2}}
	if c.Thorough() {
		// (a 12-bucket ring has > 1.5M steady states and does not reach its fixpoint within the thorough budget)
		cfgs = append(cfgs, c32Cfg{N: 6, Interval: 10, PushAfter: 0, Aggregate: 2}, c32Cfg{N: 9, Interval: 10, PushAfter: 1, Aggregate: 3})
	}
	return cfgs
}

func c32Configs(c *vk.Ctx) []c32Cfg {
	// ring sizes / emission parameters for which the backwards walk of EmitFlowCollections never lands exactly on
	// the head index (as with the production values 242/30/20); see the manifest note
	cfgs := []c32Cfg{{N: 6, Interval: 10, PushAfter: 0, Aggregate: 2}, {N: 8, Interval: 7, PushAfter: 2, Aggregate: 2}}
	if c.Thorough() {
		cfgs = append(cfgs, c32Cfg{N: 9, Interval: 10, PushAfter: 1, Aggregate: 3})
	}
	return cfgs
}

func TestVerif_C32(t *testing.T) {
	logrus.SetLevel(logrus.PanicLevel)
	logrus.StandardLogger().ExitFunc = func(int) { panic("logrus.Fatal") }
	vk.Run(t, "C32", func(c *vk.Ctx) {
		c.Rule("states = internal state of the real storage.BucketRing (per-bucket times, pushed/ready flags and flow sets, per-flow windows with counters) + emitted windows; " +
			"transitions = one real AddFlow (flow key 1 on the last second / key 2 on the first second of: a second before the ring, the oldest bucket, now-2, now-1, now, the future-dated head bucket, just past the ring), " +
			"Rollover(sink), Rollover(nil) or EmitFlowCollections(sink), replayed on a fresh ring; non-trivial = something was emitted, or >=2 retained flows after a rollover; " +
			"after every step List (time-sorted and name-sorted index) and Statistics are evaluated for every bucket-aligned range incl. unbounded ends")
		c.Assume("query ranges are bucket-aligned or unbounded (flows are stored per bucket, a partial bucket cannot be answered exactly); Statistics with end=0 ends at 'now' (excludes the future-dated head bucket), List with end=0 is unbounded - as the code defines them")
		c.Assume("completeness of an emitted window is judged at the moment of emission (flows arriving later in an already emitted window are outside the statement)")
		c.Assume("ring size / pushAfter / bucketsToAggregate are chosen so that the backwards walk in EmitFlowCollections never lands exactly on the head index (true for the production values 242/30/20)")
		if rf := c.ReplayFile(); rf != "" {
			var d struct {
				Spec    string
				History []string
			}
			if err := vk.LoadReplay(rf, &d); err != nil {
				c.ToolError(err.Error())
				return
			}
			for _, g := range []c32Cfg{{6, 10, 0, 2}, {8, 7, 2, 2}, {9, 10, 1, 3}, {8, 10, 2, 2}, {12, 1, 2, 2}} {
				if !strings.HasPrefix(d.Spec, "ring-"+g.String()+"-") {
					continue
				}
				sp := c32Spec(g, 99, false)
				if strings.HasSuffix(d.Spec, "-steady") {
					sp = c32SteadySpec(g, 999)
				}
				fails, err := hbfs.Replay(sp, d.History)
				if err != nil {
					c.ToolError(err.Error())
				}
				for _, f := range fails {
					c.Violation(f.Key, map[string]any{"spec": d.Spec, "history": d.History, "msg": f.Msg})
				}
				c.Add("states", 1)
				c.Add("transitions", int64(len(d.History)))
				return
			}
			c.ToolError("replay: unknown spec " + d.Spec)
			return
		}
		c.Sample(map[string]any{"config": "n6-i10-push0-agg2", "history": []string{"add:1:now-2", "add:2:now-2", "add:1:head", "roll:0:", "add:1:oldest", "roll:0:", "emit:0:"},
			"oracle": "List/Statistics over all 49 aligned ranges equal the sums of retained accepted flows; each emission equals the flows accepted into its window so far; emitted windows are disjoint"})
		for i, g := range c32Configs(c) {
			depth := c.Pick(5, 6)
			if i == 1 {
				depth = c.Pick(4, 6)
			} else if i == 2 {
				depth = 5
			}
			hbfs.Explore(c, c32Spec(g, depth, false))
		}
		hbfs.Explore(c, c32Spec(c32Configs(c)[0], c.Pick(3, 4), true))
		// deep pass with a 6-event alphabet: enough rollovers to recycle every bucket and revisit emitted windows
		if c.Thorough() {
			hbfs.Explore(c, c32SpecEv(c32Configs(c)[0], 9, false, c32Narrow(), "-deep"))
		}
		// steady regime over whole ring revolutions (idle and busy buckets in every pattern), to fixpoint
		for _, g := range c32SteadyConfigs(c) {
			st := hbfs.Explore(c, c32SteadySpec(g, 200))
			c.Extra("steady_fixpoint:"+g.String(), st.Complete && st.Depth < 200)
		}
	})
}

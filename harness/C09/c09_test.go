package rules_test

// C09 — endpoint verdicts follow tier, pass, staged and profile semantics.
//
// Shape I + X: every tier/policy/group/profile layout up to a bound is rendered by the REAL code
// (PolicyToIptablesChains, PolicyGroupToIptablesChains, ProfileToIptablesChains,
// WorkloadEndpointToIptablesChains / HostEndpointTo{Filter,Raw,MangleIngress}Chains) for iptables and
// nftables; the whole rendered chain set is executed by nfsim for every assignment of "policy i matches"
// bits, and the verdict is compared with refpol.EndpointVerdict (written from the property statement).

import (
	"fmt"
	"net/netip"
	"strings"
	"sync"
	"testing"

	v3 "github.com/projectcalico/api/pkg/apis/projectcalico/v3"

	"github.com/projectcalico/calico/felix/generictables"
	"github.com/projectcalico/calico/felix/proto"
	"github.com/projectcalico/calico/felix/rules"
	"github.com/projectcalico/calico/felix/types"
	"github.com/projectcalico/calico/zzverif/nfsim"
	"github.com/projectcalico/calico/zzverif/refpol"
	"github.com/projectcalico/calico/zzverif/vk"
)

// A policy kind: E = enforced, S = staged; rules are given as a compact string:
//
//	"a" / "d" / "p"  one rule, matches this policy's own bit, action allow / deny / pass
//	"-"              no rules at all for this direction
//	"pA"             bit -> pass, then everything -> allow      (first matching rule inside a policy)
//	"dP"             bit -> deny, then everything -> pass
//	"la"             log everything, then bit -> allow          (log never decides)
type c09Policy struct {
	Staged bool
	Rules  string
}

type c09Tier struct {
	DefaultPass bool
	// Groups: sizes of the consecutive PolicyGroups the tier's policies are split into (sum = len(Policies)).
	Groups   []int
	Policies []c09Policy
}

type c09Layout struct {
	Tiers    []c09Tier
	Profiles []string // each profile: rules string as above ("a", "d", ...), matching the profile's own bit
}

func (l c09Layout) sig() string {
	var sb strings.Builder
	for _, t := range l.Tiers {
		sb.WriteString("[")
		if t.DefaultPass {
			sb.WriteString("P:")
		}
		i := 0
		for gi, g := range t.Groups {
			if gi > 0 {
				sb.WriteString("|")
			}
			for k := 0; k < g; k++ {
				p := t.Policies[i]
				if p.Staged {
					sb.WriteString("S")
				} else {
					sb.WriteString("E")
				}
				sb.WriteString(p.Rules + " ")
				i++
			}
		}
		sb.WriteString("]")
	}
	sb.WriteString("prof=" + strings.Join(l.Profiles, ","))
	return sb.String()
}

func (l c09Layout) nBits() int {
	n := len(l.Profiles)
	for _, t := range l.Tiers {
		n += len(t.Policies)
	}
	return n
}

// what is rendered around the layout
type c09Variant struct {
	Kind     string // ipt | nft
	EP       string // workload | host | host-forward | host-untracked | host-prednat
	Dir      string // ingress | egress
	FlowLogs bool
	IPV      int
	// Other: what every tier holds in the OPPOSITE direction (the endpoint's tiers are direction-asymmetric):
	// "" nothing, "E" one enforced policy, "S" one staged policy. It must not influence the rendered direction.
	Other string `json:",omitempty"`
}

type c09Detail struct {
	Layout   c09Layout
	Variant  c09Variant
	Bits     []bool
	Mark     uint32
	Ref      string
	Got      string
	Trace    []string
	Rendered []string
}

func c09BitID(i int) string { return fmt.Sprintf("m%d", i) }

func c09Rules(spec string, bit int) []*proto.Rule {
	own := func(action string) *proto.Rule {
		return &proto.Rule{Action: action, SrcIpSetIds: []string{c09BitID(bit)}}
	}
	all := func(action string) *proto.Rule { return &proto.Rule{Action: action} }
	switch spec {
	case "a":
		return []*proto.Rule{own("allow")}
	case "d":
		return []*proto.Rule{own("deny")}
	case "p":
		return []*proto.Rule{own("pass")}
	case "-":
		return nil
	case "pA":
		return []*proto.Rule{own("next-tier"), all("allow")}
	case "dP":
		return []*proto.Rule{own("deny"), all("pass")}
	case "la":
		return []*proto.Rule{all("log"), own("allow")}
	}
	panic("bad rule spec " + spec)
}

var c09EPMarkMapper = rules.NewEndpointMarkMapper(vMarkEndpoint, vMarkNonCali)

type c09Built struct {
	b      *nfsim.Builder
	rs     *nfsim.Ruleset
	entry  string
	ref    *refpol.Endpoint
	normal bool // chain type with end-of-tier drop, profiles and final drop
}

// c09Build renders the layout with the real code. tool=false + nil error => a violation was recorded.
func c09Build(c *vk.Ctx, l c09Layout, v c09Variant) (*c09Built, bool) {
	kind := nfsim.Iptables
	if v.Kind == "nft" {
		kind = nfsim.Nft
	}
	rr := vRenderer(kind, v.FlowLogs)
	b := nfsim.NewBuilder(kind, uint8(v.IPV), "filter")
	ref := &refpol.Endpoint{}
	var tiers []rules.TierPolicyGroups
	bit := 0
	ingress := v.Dir == "ingress"
	pdir := rules.PolicyDirectionOutbound
	if ingress {
		pdir = rules.PolicyDirectionInbound
	}
	untracked := v.EP == "host-untracked"
	preDNAT := v.EP == "host-prednat"
	err := vk.Catch(func() error {
		for ti, t := range l.Tiers {
			tname := fmt.Sprintf("tier%d", ti)
			rt := refpol.Tier{Name: tname, DefaultAction: "Deny"}
			tpg := rules.TierPolicyGroups{Name: tname, DefaultAction: string(v3.Deny)}
			if t.DefaultPass {
				rt.DefaultAction = "Pass"
				tpg.DefaultAction = string(v3.Pass)
			}
			pi := 0
			for gi, gsize := range t.Groups {
				grp := &rules.PolicyGroup{Direction: pdir, Selector: fmt.Sprintf("sel-%d-%d", ti, gi)}
				for k := 0; k < gsize; k++ {
					p := t.Policies[pi]
					pi++
					id := &types.PolicyID{Name: fmt.Sprintf("%s.p%d", tname, bit), Kind: v3.KindGlobalNetworkPolicy}
					if p.Staged {
						id.Kind = v3.KindStagedGlobalNetworkPolicy
					}
					prules := c09Rules(p.Rules, bit)
					pol := &proto.Policy{Tier: tname, Untracked: untracked, PreDnat: preDNAT}
					if ingress {
						pol.InboundRules = prules
					} else {
						pol.OutboundRules = prules
					}
					b.Table().UpdateChains(rr.PolicyToIptablesChains(id, pol, uint8(v.IPV)))
					grp.Policies = append(grp.Policies, id)
					rt.Policies = append(rt.Policies, refpol.Policy{Name: id.Name, Staged: p.Staged, Rules: refpol.ProtoRules(prules)})
					bit++
				}
				if !grp.ShouldBeInlined() {
					b.Table().UpdateChains(rr.PolicyGroupToIptablesChains(grp))
				}
				if ingress {
					tpg.IngressPolicies = append(tpg.IngressPolicies, grp)
				} else {
					tpg.EgressPolicies = append(tpg.EgressPolicies, grp)
				}
			}
			if v.Other != "" {
				oid := &types.PolicyID{Name: fmt.Sprintf("%s.other", tname), Kind: v3.KindGlobalNetworkPolicy}
				if v.Other == "S" {
					oid.Kind = v3.KindStagedGlobalNetworkPolicy
				}
				orules := []*proto.Rule{{Action: "allow", DstIpSetIds: []string{"other"}}}
				opol := &proto.Policy{Tier: tname, Untracked: untracked, PreDnat: preDNAT}
				odir := rules.PolicyDirectionInbound
				if ingress {
					opol.OutboundRules = orules
					odir = rules.PolicyDirectionOutbound
				} else {
					opol.InboundRules = orules
				}
				b.Table().UpdateChains(rr.PolicyToIptablesChains(oid, opol, uint8(v.IPV)))
				ogrp := &rules.PolicyGroup{Direction: odir, Selector: fmt.Sprintf("sel-%d-other", ti), Policies: []*types.PolicyID{oid}}
				if ingress {
					tpg.EgressPolicies = append(tpg.EgressPolicies, ogrp)
				} else {
					tpg.IngressPolicies = append(tpg.IngressPolicies, ogrp)
				}
			}
			tiers = append(tiers, tpg)
			ref.Tiers = append(ref.Tiers, rt)
		}
		var profileIDs []string
		for pi, spec := range l.Profiles {
			name := fmt.Sprintf("prof%d", pi)
			prules := c09Rules(spec, bit)
			bit++
			prof := &proto.Profile{}
			if ingress {
				prof.InboundRules = prules
			} else {
				prof.OutboundRules = prules
			}
			in, out := rr.ProfileToIptablesChains(&types.ProfileID{Name: name}, prof, uint8(v.IPV))
			b.Table().UpdateChains([]*generictables.Chain{in, out})
			profileIDs = append(profileIDs, name)
			ref.Profiles = append(ref.Profiles, refpol.Profile{Name: name, Rules: refpol.ProtoRules(prules)})
		}
		// static chains the endpoint chains jump to
		b.Table().UpdateChain(&generictables.Chain{Name: rules.ChainFailsafeIn})
		b.Table().UpdateChain(&generictables.Chain{Name: rules.ChainFailsafeOut})
		var chains []*generictables.Chain
		switch v.EP {
		case "workload":
			chains = rr.WorkloadEndpointToIptablesChains("cali1", c09EPMarkMapper, true, tiers, profileIDs, nil)
		case "host":
			chains = rr.HostEndpointToFilterChains("eth0", tiers, nil, c09EPMarkMapper, profileIDs)
		case "host-forward":
			chains = rr.HostEndpointToFilterChains("eth0", nil, tiers, c09EPMarkMapper, profileIDs)
		case "host-untracked":
			chains = rr.HostEndpointToRawChains("eth0", tiers)
		case "host-prednat":
			chains = rr.HostEndpointToMangleIngressChains("eth0", tiers)
		}
		b.Table().UpdateChains(chains)
		return nil
	})
	if err != nil {
		c.Violation("C09:"+v.Kind+":"+v.EP+":renderer-panic", map[string]any{"layout": l, "variant": v, "error": err.Error()})
		return nil, true
	}
	rs, err := b.Ruleset()
	if err != nil {
		if le, tool := vClassify(err); tool != nil {
			c.ToolError(fmt.Sprintf("layout %s variant %s: %v", l.sig(), vk.JSON(v), tool))
			return nil, false
		} else {
			c.Violation("C09:"+v.Kind+":"+v.EP+":unloadable-"+le.Class, map[string]any{"layout": l, "variant": v, "error": le.Error(), "rendered": b.Lines()})
			return nil, true
		}
	}
	maxLen := vMaxChainLen(kind)
	var pfx string
	switch v.EP {
	case "workload":
		pfx = rules.WorkloadFromEndpointPfx
		if ingress {
			pfx = rules.WorkloadToEndpointPfx
		}
		return &c09Built{b: b, rs: rs, ref: ref, normal: true, entry: b.ChainName(rules.EndpointChainName(pfx, "cali1", maxLen))}, true
	case "host", "host-untracked", "host-prednat":
		// for a host endpoint, traffic FROM the interface is ingress
		pfx = rules.HostToEndpointPfx
		if ingress {
			pfx = rules.HostFromEndpointPfx
		}
	case "host-forward":
		pfx = rules.HostToEndpointForwardPfx
		if ingress {
			pfx = rules.HostFromEndpointForwardPfx
		}
	}
	return &c09Built{b: b, rs: rs, ref: ref, normal: v.EP == "host", entry: b.ChainName(rules.EndpointChainName(pfx, "eth0", maxLen))}, true
}

type c09Stats struct{ evals, layouts, compared, unconstrained int64 }

var c09Out vOutcomes

func c09Run(c *vk.Ctx, l c09Layout, v c09Variant, st *c09Stats) bool {
	if v.EP == "host-prednat" && v.Dir != "ingress" {
		return true // pre-DNAT policy only applies to traffic from the host endpoint
	}
	if v.EP == "host-forward" && len(l.Tiers) == 0 {
		return true // "no apply-on-forward policy => forwarded traffic allowed" is outside the statement
	}
	bt, ok := c09Build(c, l, v)
	if !ok {
		return false
	}
	if bt == nil {
		return true
	}
	if bt.rs.Chains[bt.entry] == nil {
		c.ToolError(fmt.Sprintf("entry chain %s not rendered for %s", bt.entry, vk.JSON(v)))
		return false
	}
	st.layouts++
	n := l.nBits()
	marks := []uint32{vMarkForeign, vMarkForeign | vMarkAccept, vMarkForeign | vMarkPass | vMarkScratch0, vMarkForeign | vMarkAccept | vMarkPass | vMarkScratch1}
	src := netip.MustParseAddr("10.65.0.2")
	if v.IPV == 6 {
		src = netip.MustParseAddr("fd00::2")
	}
	grouped, staged := false, false
	for _, t := range l.Tiers {
		for _, g := range t.Groups {
			if g > 1 {
				grouped = true
			}
		}
		for _, p := range t.Policies {
			staged = staged || p.Staged
		}
	}
	for m := 0; m < 1<<n; m++ {
		rp := &refpol.Packet{IPVersion: v.IPV, Src: src, Dst: src, Proto: refpol.ProtoTCP, SrcPort: 1000, DstPort: 80, SrcIPSets: map[string]bool{}}
		np := nfsim.Packet{IPVersion: v.IPV, Src: src, Dst: src, Proto: nfsim.ProtoTCP, SPort: 1000, DPort: 80, InIface: "cali1", OutIface: "eth0", CTState: "NEW", Sets: map[string]bool{}}
		bits := make([]bool, n)
		for i := 0; i < n; i++ {
			if m&(1<<i) != 0 {
				bits[i] = true
				rp.SrcIPSets[c09BitID(i)] = true
				np.Sets[nfsim.SetKey(vSetName(v.IPV, c09BitID(i)), "src")] = true
			}
		}
		want := refpol.EndpointVerdict(bt.ref, rp, refpol.Options{})
		for _, mk := range marks {
			np.Mark = mk
			res, err := bt.rs.Eval(bt.entry, np, false)
			st.evals++
			if err != nil {
				c.ToolError(fmt.Sprintf("layout %s variant %s: %v", l.sig(), vk.JSON(v), err))
				return false
			}
			got := "fallthrough"
			switch {
			case res.Verdict == "DROP" || res.Verdict == "REJECT":
				got = "deny"
			case res.Verdict == "ACCEPT":
				got = "allow"
			case res.Verdict == "RETURN" && res.Mark&vMarkAccept != 0:
				got = "allow"
			}
			// which part of the reference applies to this chain type
			constrained := want.Decision != refpol.Undecided
			if !bt.normal {
				// forward / untracked / pre-DNAT chains: no profiles, and (untracked, pre-DNAT) no end-of-tier
				// drop by design; only verdicts decided by a policy rule (and, for forward chains, by the
				// end-of-tier clause) are what the statement fixes for them.
				constrained = constrained && (want.Reason == refpol.ByPolicyRule || (v.EP == "host-forward" && want.Reason == refpol.ByEndOfTier))
			}
			c09Out.add(c, fmt.Sprintf("%s/%s/ref=%s:%s/got=%s/constrained=%v", v.EP, v.Dir, want.Decision, want.Reason, got, constrained))
			if !constrained {
				st.unconstrained++
				continue
			}
			st.compared++
			if got == want.Decision.String() {
				if v.EP == "host-untracked" && got == "allow" && !res.NoTrack {
					// not part of the statement; recorded only
					c09Out.add(c, "host-untracked/allow-without-notrack")
				}
				continue
			}
			resT, _ := bt.rs.Eval(bt.entry, np, true)
			key := fmt.Sprintf("C09:%s:%s:%s:ref=%s-by-%s:got=%s", v.Kind, v.EP, v.Dir, want.Decision, want.Reason, got)
			if grouped {
				key += ":grouped"
			}
			if staged {
				key += ":staged"
			}
			if v.Other != "" {
				key += ":other-direction-" + v.Other
			}
			c.Violation(key, c09Detail{Layout: l, Variant: v, Bits: bits, Mark: mk, Ref: fmt.Sprintf("%+v", want), Got: got + " (" + res.Verdict + fmt.Sprintf(" mark=%#x)", res.Mark), Trace: resT.Trace, Rendered: bt.b.Lines()})
		}
	}
	return true
}

// ---------------------------------------------------------------------------------------------
// layout enumeration

var c09Kinds = []c09Policy{{false, "a"}, {false, "d"}, {false, "p"}, {false, "-"}, {true, "a"}, {true, "d"}}
var c09KindsTwoRule = []c09Policy{{false, "pA"}, {false, "dP"}, {false, "la"}, {true, "dP"}}

func c09Compositions(n, maxParts int) [][]int {
	var out [][]int
	var rec func(rem int, cur []int)
	rec = func(rem int, cur []int) {
		if rem == 0 {
			out = append(out, append([]int{}, cur...))
			return
		}
		if len(cur) == maxParts {
			return
		}
		for k := 1; k <= rem; k++ {
			rec(rem-k, append(cur, k))
		}
	}
	rec(n, nil)
	return out
}

// every layout with exactly n policies: tiers (<= 3) x groups x default actions x policy kinds
func c09Layouts(n int, kinds []c09Policy, profiles [][]string, emit func(c09Layout)) {
	if n == 0 {
		for _, pr := range profiles {
			emit(c09Layout{Profiles: pr})
		}
		return
	}
	for _, tierSizes := range c09Compositions(n, 3) {
		// per tier: groupings
		var tierOpts [][]c09Tier
		for _, sz := range tierSizes {
			var opts []c09Tier
			for _, g := range c09Compositions(sz, sz) {
				for _, dp := range []bool{false, true} {
					opts = append(opts, c09Tier{DefaultPass: dp, Groups: g, Policies: make([]c09Policy, sz)})
				}
			}
			tierOpts = append(tierOpts, opts)
		}
		var recT func(i int, cur []c09Tier)
		recT = func(i int, cur []c09Tier) {
			if i == len(tierOpts) {
				// assign kinds
				total := n
				idx := make([]int, total)
				for {
					l := c09Layout{}
					k := 0
					for _, t := range cur {
						nt := c09Tier{DefaultPass: t.DefaultPass, Groups: t.Groups}
						for range t.Policies {
							nt.Policies = append(nt.Policies, kinds[idx[k]])
							k++
						}
						l.Tiers = append(l.Tiers, nt)
					}
					for _, pr := range profiles {
						l2 := l
						l2.Profiles = pr
						emit(l2)
					}
					j := 0
					for j < total {
						idx[j]++
						if idx[j] < len(kinds) {
							break
						}
						idx[j] = 0
						j++
					}
					if j == total {
						break
					}
				}
				return
			}
			for _, o := range tierOpts[i] {
				recT(i+1, append(append([]c09Tier{}, cur...), o))
			}
		}
		recT(0, nil)
	}
}

// stride family: one tier with ONE group of g policies (enforced, with staged ones interleaved by pattern),
// actions rotating allow/deny/pass with a shift, followed by a second tier and a profile that allow.
func c09StrideLayouts(emit func(c09Layout)) {
	acts := []string{"a", "d", "p"}
	for g := 1; g <= 11; g++ {
		for shift := 0; shift < 3; shift++ {
			for _, stagedEvery := range []int{0, 2, 3} {
				var pols []c09Policy
				for i := 0; i < g; i++ {
					p := c09Policy{Rules: acts[(i+shift)%3]}
					if stagedEvery > 0 && i%stagedEvery == stagedEvery-1 {
						p.Staged = true
					}
					pols = append(pols, p)
				}
				emit(c09Layout{Tiers: []c09Tier{{Groups: []int{g}, Policies: pols}, {Groups: []int{1}, Policies: []c09Policy{{Rules: "a"}}}}, Profiles: []string{"a"}})
			}
		}
	}
}

func TestVerif_C09(t *testing.T) {
	vk.Run(t, "C09", func(c *vk.Ctx) {
		vQuiet()
		if !vSelfTest(c) {
			return
		}
		c.Rule("states = (layout, dataplane, endpoint chain type, direction, flow logs, IP version) rendered by the real code; a layout = <=3 tiers x policies " +
			"(enforced/staged, allow/deny/pass/no-rules and two-rule policies) x every split of each tier into consecutive policy groups (inline or own chain) x tier default action x 0-2 profiles, " +
			"bounded by the total number of policies; direction-asymmetric variants put one enforced / one staged policy into every tier's opposite direction; plus the stride family (one group of 1..11 policies with staged ones interleaved); transitions = packets executed by nfsim: every assignment of " +
			"the per-policy/per-profile match bits x 4 initial marks with garbage in the accept/pass/scratch bits; non-trivial = layouts with >= 2 policies")
		c.Assume("each policy/profile rule matches on its own abstract IP-set membership bit (rule match rendering itself is C08's subject); conntrack state NEW")
		c.Assume("host forward / untracked / pre-DNAT chains: only the clauses of the statement that these chain types implement are compared (rule-decided verdicts; end-of-tier deny for forward chains); the rest is counted as unconstrained")
		c.Assume("a matching pass rule inside a profile is not covered by the statement (refpol answers undecided); such layouts are not generated here")

		if rf := c.ReplayFile(); rf != "" {
			var d c09Detail
			if err := vk.LoadReplay(rf, &d); err != nil {
				c.ToolError("replay: " + err.Error())
				return
			}
			var st c09Stats
			c09Run(c, d.Layout, d.Variant, &st)
			c.Add("states", st.layouts)
			c.Add("transitions", st.evals)
			c.Sample(map[string]any{"layout": d.Layout.sig(), "variant": d.Variant})
			return
		}

		type job struct {
			l c09Layout
			v []c09Variant
		}
		var jobs []job
		profilesFull := [][]string{nil, {"a"}, {"d", "a"}}
		nMain := c.Pick(3, 4)
		nSide := c.Pick(2, 3)
		variantsFor := func(n int) []c09Variant {
			var vs []c09Variant
			for _, kd := range []string{"ipt", "nft"} {
				if n <= nMain {
					vs = append(vs, c09Variant{Kind: kd, EP: "workload", Dir: "ingress", FlowLogs: false, IPV: 4})
				}
				if n <= nSide {
					vs = append(vs, c09Variant{Kind: kd, EP: "workload", Dir: "egress", FlowLogs: false, IPV: 4})
				}
				if n <= nSide {
					vs = append(vs,
						c09Variant{Kind: kd, EP: "workload", Dir: "ingress", FlowLogs: true, IPV: 4}, c09Variant{Kind: kd, EP: "workload", Dir: "egress", FlowLogs: true, IPV: 4},
						c09Variant{Kind: kd, EP: "workload", Dir: "ingress", FlowLogs: false, IPV: 6},
						c09Variant{Kind: kd, EP: "host", Dir: "ingress", FlowLogs: false, IPV: 4}, c09Variant{Kind: kd, EP: "host", Dir: "egress", FlowLogs: true, IPV: 4},
						c09Variant{Kind: kd, EP: "host-forward", Dir: "ingress", FlowLogs: false, IPV: 4}, c09Variant{Kind: kd, EP: "host-forward", Dir: "egress", FlowLogs: true, IPV: 4},
						c09Variant{Kind: kd, EP: "host-untracked", Dir: "ingress", FlowLogs: false, IPV: 4}, c09Variant{Kind: kd, EP: "host-untracked", Dir: "egress", FlowLogs: false, IPV: 4},
						c09Variant{Kind: kd, EP: "host-prednat", Dir: "ingress", FlowLogs: false, IPV: 4},
						// direction-asymmetric tiers: the opposite direction holds an enforced / a staged policy
						c09Variant{Kind: kd, EP: "workload", Dir: "ingress", IPV: 4, Other: "E"}, c09Variant{Kind: kd, EP: "workload", Dir: "egress", IPV: 4, Other: "E"},
						c09Variant{Kind: kd, EP: "workload", Dir: "ingress", FlowLogs: true, IPV: 4, Other: "S"}, c09Variant{Kind: kd, EP: "workload", Dir: "egress", IPV: 4, Other: "S"},
						c09Variant{Kind: kd, EP: "host", Dir: "ingress", IPV: 4, Other: "E"}, c09Variant{Kind: kd, EP: "host", Dir: "egress", IPV: 4, Other: "E"},
						c09Variant{Kind: kd, EP: "host-forward", Dir: "ingress", IPV: 4, Other: "E"}, c09Variant{Kind: kd, EP: "host-forward", Dir: "egress", IPV: 4, Other: "S"})
				}
			}
			return vs
		}
		for n := 0; n <= nMain; n++ {
			n := n
			c09Layouts(n, c09Kinds, profilesFull, func(l c09Layout) {
				jobs = append(jobs, job{l, variantsFor(n)})
				if n >= 2 {
					c.Nontrivial(l.sig())
				}
			})
		}
		// two-rule policies (first matching rule inside a policy; log never decides), small layouts
		for n := 1; n <= 2; n++ {
			n := n
			c09Layouts(n, c09KindsTwoRule, [][]string{{"a"}}, func(l c09Layout) {
				jobs = append(jobs, job{l, variantsFor(nSide)})
				c.Nontrivial(l.sig())
			})
		}
		nStride := 0
		c09StrideLayouts(func(l c09Layout) {
			nStride++
			var vs []c09Variant
			for _, kd := range []string{"ipt", "nft"} {
				vs = append(vs, c09Variant{Kind: kd, EP: "workload", Dir: "ingress", FlowLogs: false, IPV: 4}, c09Variant{Kind: kd, EP: "workload", Dir: "egress", FlowLogs: true, IPV: 4}, c09Variant{Kind: kd, EP: "host-forward", Dir: "ingress", FlowLogs: false, IPV: 4})
			}
			jobs = append(jobs, job{l, vs})
			c.Nontrivial(l.sig())
		})
		c.Extra("layouts", len(jobs))
		c.Extra("stride_layouts", nStride)
		c.Extra("max_policies_workload_ingress", nMain)
		c.Extra("max_policies_other_variants", nSide)

		ch := make(chan job, 64)
		var wg sync.WaitGroup
		var mu sync.Mutex
		var total c09Stats
		stop := false
		sampled := 0
		for w := 0; w < 6; w++ {
			wg.Add(1)
			go func() {
				defer wg.Done()
				for j := range ch {
					mu.Lock()
					s := stop
					mu.Unlock()
					if s {
						continue
					}
					if c.Expired() {
						c.Capped("deadline reached before all layouts were explored")
						mu.Lock()
						stop = true
						mu.Unlock()
						continue
					}
					var st c09Stats
					ok := true
					for _, v := range j.v {
						if !c09Run(c, j.l, v, &st) {
							ok = false
							break
						}
					}
					mu.Lock()
					if !ok {
						stop = true
					}
					total.evals += st.evals
					total.layouts += st.layouts
					total.compared += st.compared
					total.unconstrained += st.unconstrained
					if sampled < 4 && len(j.l.Tiers) >= 2 && len(j.l.Profiles) > 0 {
						sampled++
						c.Sample(map[string]any{"layout": j.l.sig(), "variants": j.v, "packets_executed": st.evals})
					}
					mu.Unlock()
				}
			}()
		}
		for _, j := range jobs {
			ch <- j
		}
		close(ch)
		wg.Wait()
		c.Add("states", total.layouts)
		c.Add("transitions", total.evals)
		c.Add("verdicts_compared", total.compared)
		c.Add("verdicts_unconstrained", total.unconstrained)
		c09Out.publish(c)
		fmt.Printf("INFO C09 layouts=%d renderings=%d packets=%d compared=%d unconstrained=%d\n", len(jobs), total.layouts, total.evals, total.compared, total.unconstrained)
	})
}

package conversion_test

import (
	"fmt"
	"net/netip"
	"sort"
	"strings"
	"sync"
	"testing"

	"github.com/projectcalico/api/pkg/lib/numorstring"
	"github.com/sirupsen/logrus"
	kapiv1 "k8s.io/api/core/v1"
	networkingv1 "k8s.io/api/networking/v1"
	metav1 "k8s.io/apimachinery/pkg/apis/meta/v1"
	k8slabels "k8s.io/apimachinery/pkg/labels"
	"k8s.io/apimachinery/pkg/util/intstr"

	"github.com/projectcalico/calico/lib/std/uniquelabels"
	"github.com/projectcalico/calico/libcalico-go/lib/backend/k8s/conversion"
	"github.com/projectcalico/calico/libcalico-go/lib/backend/model"
	"github.com/projectcalico/calico/libcalico-go/lib/backend/syncersv1/updateprocessors"
	cnet "github.com/projectcalico/calico/libcalico-go/lib/net"
	"github.com/projectcalico/calico/libcalico-go/lib/selector"
	"github.com/projectcalico/calico/zzverif/vk"
)

// C29: a Kubernetes NetworkPolicy keeps its Kubernetes meaning after conversion.
//
// Real code under test: conversion.K8sNetworkPolicyToCalico (k8sRuleToCalico, k8sSelectorToCalico,
// SimplifyPorts ...), updateprocessors' v3->model conversion of the policy (namespace scoping of selectors),
// PodToWorkloadEndpoints / NamespaceToProfile + their update processors (labels, named ports, profile
// labels and rules), and the real selector parser/evaluator.
// Reference: c29K8sAllows, written from the networking.k8s.io/v1 NetworkPolicy API documentation, using
// apimachinery's own LabelSelector implementation.
// Calico side: c29CalicoAllows, a small evaluator of model.Policy / model.Rule written from the Calico
// policy model (all match fields of a rule are ANDed; first matching rule decides; a tier with an applicable
// policy and no matching rule denies; no applicable policy -> profiles).

const (
	c29TCP  = 6
	c29UDP  = 17
	c29SCTP = 132
	c29ICMP = 1
)

type c29Port struct {
	Proto int
	Port  int
}

type c29Pod struct {
	NS, Name string
	Labels   map[string]string
	IP       netip.Addr
	Ports    map[string]c29Port // named container ports
	// Calico side (filled by the real conversion code)
	ep        *model.WorkloadEndpoint
	effLabels map[string]string
	effU      uniquelabels.Map
}

type c29Conn struct {
	Proto int
	Port  int // 0 for ICMP
}

func (c c29Conn) String() string {
	return fmt.Sprintf("%s/%d", map[int]string{6: "tcp", 17: "udp", 132: "sctp", 1: "icmp"}[c.Proto], c.Port)
}

type c29Cluster struct {
	NSLabels map[string]map[string]string
	Pods     []*c29Pod
	External []netip.Addr
	// Calico side
	profileRules  map[string]*model.ProfileRules
	profileLabels map[string]map[string]string
}

func c29Proto(p int) kapiv1.Protocol {
	switch p {
	case c29UDP:
		return kapiv1.ProtocolUDP
	case c29SCTP:
		return kapiv1.ProtocolSCTP
	}
	return kapiv1.ProtocolTCP
}

// c29BuildCluster creates the tiny cluster and pushes pods and namespaces through the real conversion code.
func c29BuildCluster() (*c29Cluster, error) {
	cl := &c29Cluster{
		NSLabels: map[string]map[string]string{"ns1": {"team": "a"}, "ns2": {"team": "b"}},
		Pods: []*c29Pod{
			{NS: "ns1", Name: "p1", Labels: map[string]string{"app": "web", "tier": "fe"}, IP: netip.MustParseAddr("10.0.1.1"), Ports: map[string]c29Port{"http": {c29TCP, 80}}},
			{NS: "ns1", Name: "p2", Labels: map[string]string{"app": "db"}, IP: netip.MustParseAddr("10.0.1.2"), Ports: map[string]c29Port{"http": {c29TCP, 81}}},
			{NS: "ns2", Name: "p3", Labels: map[string]string{"app": "web"}, IP: netip.MustParseAddr("10.0.2.1"), Ports: map[string]c29Port{"http": {c29TCP, 80}, "dns": {c29UDP, 53}}},
			{NS: "ns2", Name: "p4", Labels: map[string]string{}, IP: netip.MustParseAddr("10.0.2.2"), Ports: map[string]c29Port{}},
		},
		External:      []netip.Addr{netip.MustParseAddr("192.168.1.1"), netip.MustParseAddr("192.168.2.1"), netip.MustParseAddr("172.16.0.1")},
		profileRules:  map[string]*model.ProfileRules{},
		profileLabels: map[string]map[string]string{},
	}
	conv := conversion.NewConverter()
	profProc := updateprocessors.NewProfileUpdateProcessor()
	for ns, lbls := range cl.NSLabels {
		kvp, err := conv.NamespaceToProfile(&kapiv1.Namespace{ObjectMeta: metav1.ObjectMeta{Name: ns, Labels: lbls, UID: "30316465-6365-4463-ad63-3564622d3638"}})
		if err != nil {
			return nil, fmt.Errorf("NamespaceToProfile: %v", err)
		}
		out, err := profProc.Process(kvp)
		if err != nil {
			return nil, fmt.Errorf("profile processor: %v", err)
		}
		for _, kv := range out {
			switch k := kv.Key.(type) {
			case model.ProfileRulesKey:
				if r, ok := kv.Value.(*model.ProfileRules); ok {
					cl.profileRules[k.Name] = r
				}
			case model.ProfileLabelsKey:
				if l, ok := kv.Value.(map[string]string); ok {
					cl.profileLabels[k.Name] = l
				}
			}
		}
	}
	wepProc := updateprocessors.NewWorkloadEndpointUpdateProcessor()
	for _, p := range cl.Pods {
		var cports []kapiv1.ContainerPort
		var names []string
		for n := range p.Ports {
			names = append(names, n)
		}
		sort.Strings(names)
		for _, n := range names {
			cports = append(cports, kapiv1.ContainerPort{Name: n, ContainerPort: int32(p.Ports[n].Port), Protocol: c29Proto(p.Ports[n].Proto)})
		}
		pod := &kapiv1.Pod{
			ObjectMeta: metav1.ObjectMeta{Name: p.Name, Namespace: p.NS, Labels: p.Labels},
			Spec:       kapiv1.PodSpec{NodeName: "node1", Containers: []kapiv1.Container{{Name: "c", Ports: cports}}},
			Status:     kapiv1.PodStatus{PodIP: p.IP.String(), PodIPs: []kapiv1.PodIP{{IP: p.IP.String()}}},
		}
		kvps, err := conv.PodToWorkloadEndpoints(pod)
		if err != nil || len(kvps) != 1 {
			return nil, fmt.Errorf("PodToWorkloadEndpoints: %v", err)
		}
		out, err := wepProc.Process(kvps[0])
		if err != nil || len(out) != 1 {
			return nil, fmt.Errorf("wep processor: %v (%d)", err, len(out))
		}
		ep, ok := out[0].Value.(*model.WorkloadEndpoint)
		if !ok {
			return nil, fmt.Errorf("wep processor gave %T", out[0].Value)
		}
		p.ep = ep
		p.effLabels = map[string]string{}
		for _, prof := range ep.ProfileIDs {
			for k, v := range cl.profileLabels[prof] {
				p.effLabels[k] = v
			}
		}
		for k, v := range ep.Labels.RecomputeOriginalMap() {
			p.effLabels[k] = v
		}
		p.effU = uniquelabels.Make(p.effLabels)
	}
	return cl, nil
}

// ---------------------------------------------------------------------------------------------
// Reference: Kubernetes NetworkPolicy semantics

// c29SelCache memoises apimachinery's compilation of a LabelSelector, keyed by pointer: the generator's
// peer selectors are shared (never copied, never mutated), so the pointers are stable.
var c29SelCache sync.Map

func c29SelMatches(s *metav1.LabelSelector, lbls map[string]string) bool {
	key := s
	var sel k8slabels.Selector
	if v, ok := c29SelCache.Load(key); ok {
		sel = v.(k8slabels.Selector)
	} else {
		var err error
		sel, err = metav1.LabelSelectorAsSelector(s)
		if err != nil {
			panic(err)
		}
		c29SelCache.Store(key, sel)
	}
	return sel.Matches(k8slabels.Set(lbls))
}

// c29K8sAllows: is traffic between target and peer allowed by np in the given direction of target?
// peer == nil means an address outside the cluster (peerIP).
func c29K8sAllows(np *networkingv1.NetworkPolicy, cl *c29Cluster, target *c29Pod, ingress bool, peer *c29Pod, peerIP netip.Addr, conn c29Conn) (isolated, allowed bool) {
	return c29K8sAllowsSel(np, c29K8sSelects(np, target), cl, target, ingress, peer, peerIP, conn)
}

// c29K8sSelects: does the policy apply to the pod (same namespace, podSelector matches)?
func c29K8sSelects(np *networkingv1.NetworkPolicy, target *c29Pod) bool {
	if target.NS != np.Namespace {
		return false
	}
	sel, err := metav1.LabelSelectorAsSelector(&np.Spec.PodSelector)
	if err != nil {
		panic(err)
	}
	return sel.Matches(k8slabels.Set(target.Labels))
}

func c29K8sAllowsSel(np *networkingv1.NetworkPolicy, selects bool, cl *c29Cluster, target *c29Pod, ingress bool, peer *c29Pod, peerIP netip.Addr, conn c29Conn) (isolated, allowed bool) {
	if !selects {
		return false, true
	}
	// policyTypes: "If this field is not specified, it will default based on the existence of ingress or
	// egress rules; policies that contain an egress section are assumed to affect egress, and all policies
	// (whether or not they contain an ingress section) are assumed to affect ingress."
	affIngress, affEgress := false, false
	if len(np.Spec.PolicyTypes) == 0 {
		affIngress = true
		affEgress = len(np.Spec.Egress) > 0
	}
	for _, t := range np.Spec.PolicyTypes {
		if t == networkingv1.PolicyTypeIngress {
			affIngress = true
		}
		if t == networkingv1.PolicyTypeEgress {
			affEgress = true
		}
	}
	if (ingress && !affIngress) || (!ingress && !affEgress) {
		return false, true
	}
	dstPod := target
	if !ingress {
		dstPod = peer
	}
	peerMatches := func(peers []networkingv1.NetworkPolicyPeer) bool {
		if len(peers) == 0 {
			return true // "If this field is empty or missing, this rule matches all sources"
		}
		for _, pr := range peers {
			if pr.IPBlock != nil {
				if !netip.MustParsePrefix(pr.IPBlock.CIDR).Contains(peerIP) {
					continue
				}
				excepted := false
				for _, e := range pr.IPBlock.Except {
					if netip.MustParsePrefix(e).Contains(peerIP) {
						excepted = true
					}
				}
				if !excepted {
					return true
				}
				continue
			}
			if peer == nil {
				continue
			}
			if pr.NamespaceSelector == nil {
				if peer.NS != np.Namespace {
					continue
				}
			} else if !c29SelMatches(pr.NamespaceSelector, cl.NSLabels[peer.NS]) {
				continue
			}
			if pr.PodSelector != nil && !c29SelMatches(pr.PodSelector, peer.Labels) {
				continue
			}
			return true
		}
		return false
	}
	portMatches := func(ports []networkingv1.NetworkPolicyPort) bool {
		if len(ports) == 0 {
			return true // "If this field is empty or missing, this rule matches all ports (traffic not restricted by port)"
		}
		for _, pp := range ports {
			proto := c29TCP // "If not specified, this field defaults to TCP."
			if pp.Protocol != nil {
				switch *pp.Protocol {
				case kapiv1.ProtocolUDP:
					proto = c29UDP
				case kapiv1.ProtocolSCTP:
					proto = c29SCTP
				}
			}
			if conn.Proto != proto {
				continue
			}
			if pp.Port == nil {
				return true // "If this field is not provided, this matches all port names and numbers."
			}
			if pp.Port.Type == intstr.String {
				if dstPod == nil {
					continue
				}
				if np, ok := dstPod.Ports[pp.Port.StrVal]; ok && np.Proto == proto && np.Port == conn.Port {
					return true
				}
				continue
			}
			lo, hi := int(pp.Port.IntVal), int(pp.Port.IntVal)
			if pp.EndPort != nil {
				hi = int(*pp.EndPort)
			}
			if conn.Port >= lo && conn.Port <= hi {
				return true
			}
		}
		return false
	}
	if ingress {
		for _, r := range np.Spec.Ingress {
			if peerMatches(r.From) && portMatches(r.Ports) {
				return true, true
			}
		}
	} else {
		for _, r := range np.Spec.Egress {
			if peerMatches(r.To) && portMatches(r.Ports) {
				return true, true
			}
		}
	}
	return true, false
}

// ---------------------------------------------------------------------------------------------
// Calico side: evaluation of the converted model.Policy

type c29CalPolicy struct {
	pol      *model.Policy
	sel      *selector.Selector
	inbound  []c29CalRule
	outbound []c29CalRule
}

type c29CalRule struct {
	r                        *model.Rule
	src, dst, notSrc, notDst *selector.Selector
}

func c29ParseSel(s string) (*selector.Selector, error) {
	if s == "" {
		return nil, nil
	}
	return selector.Parse(s)
}

func c29Compile(pol *model.Policy) (*c29CalPolicy, error) {
	cp := &c29CalPolicy{pol: pol}
	var err error
	if cp.sel, err = selector.Parse(pol.Selector); err != nil {
		return nil, fmt.Errorf("policy selector %q: %v", pol.Selector, err)
	}
	comp := func(rs []model.Rule) ([]c29CalRule, error) {
		var out []c29CalRule
		for i := range rs {
			r := &rs[i]
			if r.ICMPType != nil || r.ICMPCode != nil || r.NotICMPType != nil || r.NotICMPCode != nil || r.HTTPMatch != nil ||
				r.SrcService != "" || r.DstService != "" || r.SrcTag != "" || r.DstTag != "" || r.NotSrcTag != "" || r.NotDstTag != "" ||
				len(r.OriginalSrcServiceAccountNames) > 0 || len(r.OriginalDstServiceAccountNames) > 0 ||
				r.OriginalSrcServiceAccountSelector != "" || r.OriginalDstServiceAccountSelector != "" {
				return nil, fmt.Errorf("rule uses a match the harness evaluator does not model: %+v", *r)
			}
			cr := c29CalRule{r: r}
			var e error
			if cr.src, e = c29ParseSel(r.SrcSelector); e != nil {
				return nil, e
			}
			if cr.dst, e = c29ParseSel(r.DstSelector); e != nil {
				return nil, e
			}
			if cr.notSrc, e = c29ParseSel(r.NotSrcSelector); e != nil {
				return nil, e
			}
			if cr.notDst, e = c29ParseSel(r.NotDstSelector); e != nil {
				return nil, e
			}
			out = append(out, cr)
		}
		return out, nil
	}
	if cp.inbound, err = comp(pol.InboundRules); err != nil {
		return nil, err
	}
	if cp.outbound, err = comp(pol.OutboundRules); err != nil {
		return nil, err
	}
	return cp, nil
}

func c29ProtoNum(p *numorstring.Protocol) int {
	if n, err := p.NumValue(); err == nil {
		return int(n)
	}
	switch strings.ToLower(p.StrVal) {
	case "tcp":
		return c29TCP
	case "udp":
		return c29UDP
	case "sctp":
		return c29SCTP
	case "icmp":
		return c29ICMP
	case "icmpv6":
		return 58
	case "udplite":
		return 136
	}
	return -1
}

func c29InNets(nets []*cnet.IPNet, a netip.Addr) bool {
	for _, n := range nets {
		if n.IPNet.Contains(a.AsSlice()) {
			return true
		}
	}
	return false
}

type c29Side struct {
	pod *c29Pod // nil = not a Calico endpoint
	ip  netip.Addr
}

func c29PortsMatch(ports []numorstring.Port, side c29Side, conn c29Conn) bool {
	if conn.Proto != c29TCP && conn.Proto != c29UDP && conn.Proto != c29SCTP {
		return false
	}
	for _, p := range ports {
		if p.PortName != "" {
			if side.pod == nil {
				continue
			}
			for _, ep := range side.pod.ep.Ports {
				if ep.Name == p.PortName && c29ProtoNum(&ep.Protocol) == conn.Proto && int(ep.Port) == conn.Port {
					return true
				}
			}
			continue
		}
		if conn.Port >= int(p.MinPort) && conn.Port <= int(p.MaxPort) {
			return true
		}
	}
	return false
}

func c29RuleMatches(cr *c29CalRule, src, dst c29Side, conn c29Conn) bool {
	r := cr.r
	if r.IPVersion != nil && *r.IPVersion != 4 {
		return false
	}
	if r.Protocol != nil && c29ProtoNum(r.Protocol) != conn.Proto {
		return false
	}
	if r.NotProtocol != nil && c29ProtoNum(r.NotProtocol) == conn.Proto {
		return false
	}
	selOK := func(s *selector.Selector, side c29Side) bool {
		return side.pod != nil && s.EvaluateLabels(side.pod.effU)
	}
	if cr.src != nil && !selOK(cr.src, src) {
		return false
	}
	if cr.dst != nil && !selOK(cr.dst, dst) {
		return false
	}
	if cr.notSrc != nil && selOK(cr.notSrc, src) {
		return false
	}
	if cr.notDst != nil && selOK(cr.notDst, dst) {
		return false
	}
	srcNets, dstNets, notSrcNets, notDstNets := r.SrcNets, r.DstNets, r.NotSrcNets, r.NotDstNets
	if r.SrcNet != nil {
		srcNets = append(append([]*cnet.IPNet{}, srcNets...), r.SrcNet)
	}
	if r.DstNet != nil {
		dstNets = append(append([]*cnet.IPNet{}, dstNets...), r.DstNet)
	}
	if r.NotSrcNet != nil {
		notSrcNets = append(append([]*cnet.IPNet{}, notSrcNets...), r.NotSrcNet)
	}
	if r.NotDstNet != nil {
		notDstNets = append(append([]*cnet.IPNet{}, notDstNets...), r.NotDstNet)
	}
	if len(srcNets) > 0 && !c29InNets(srcNets, src.ip) {
		return false
	}
	if len(dstNets) > 0 && !c29InNets(dstNets, dst.ip) {
		return false
	}
	if len(notSrcNets) > 0 && c29InNets(notSrcNets, src.ip) {
		return false
	}
	if len(notDstNets) > 0 && c29InNets(notDstNets, dst.ip) {
		return false
	}
	if len(r.SrcPorts) > 0 || len(r.NotSrcPorts) > 0 {
		return false // source ports are not part of the modelled connections; K8s policies never produce them
	}
	if len(r.DstPorts) > 0 && !c29PortsMatch(r.DstPorts, dst, conn) {
		return false
	}
	if len(r.NotDstPorts) > 0 && c29PortsMatch(r.NotDstPorts, dst, conn) {
		return false
	}
	return true
}

// c29CalicoAllows evaluates the converted policy (alone in the default tier) plus the endpoint's profiles.
func c29CalicoAllows(cps []*c29CalPolicy, cl *c29Cluster, target *c29Pod, ingress bool, peer *c29Pod, peerIP netip.Addr, conn c29Conn) (applies, allowed bool) {
	tSide, pSide := c29Side{target, target.IP}, c29Side{peer, peerIP}
	src, dst := pSide, tSide
	if !ingress {
		src, dst = tSide, pSide
	}
	dir := "egress"
	if ingress {
		dir = "ingress"
	}
	for _, cp := range cps {
		if !cp.sel.EvaluateLabels(target.effU) {
			continue
		}
		hasType := false
		for _, t := range cp.pol.Types {
			if strings.ToLower(t) == dir {
				hasType = true
			}
		}
		if !hasType {
			continue
		}
		applies = true
		rules := cp.outbound
		if ingress {
			rules = cp.inbound
		}
		for i := range rules {
			if c29RuleMatches(&rules[i], src, dst, conn) {
				switch strings.ToLower(rules[i].r.Action) {
				case "allow", "":
					return true, true
				case "deny":
					return true, false
				default:
					panic("unexpected action " + rules[i].r.Action)
				}
			}
		}
	}
	if applies {
		return true, false // end of tier: default deny
	}
	// no policy applies: profiles decide
	for _, prof := range target.ep.ProfileIDs {
		pr := cl.profileRules[prof]
		if pr == nil {
			continue
		}
		rs := pr.OutboundRules
		if ingress {
			rs = pr.InboundRules
		}
		for i := range rs {
			cr := c29CalRule{r: &rs[i]}
			if rs[i].SrcSelector != "" || rs[i].DstSelector != "" || rs[i].NotSrcSelector != "" || rs[i].NotDstSelector != "" {
				panic("profile rule with selectors not expected")
			}
			if c29RuleMatches(&cr, src, dst, conn) {
				return false, strings.ToLower(rs[i].Action) == "allow"
			}
		}
	}
	return false, false
}

// c29Convert runs the real conversion pipeline: K8s NetworkPolicy -> v3 NetworkPolicy -> model.Policy.
func c29Convert(np *networkingv1.NetworkPolicy) (*c29CalPolicy, error) {
	conv := conversion.NewConverter()
	kvp, err := conv.K8sNetworkPolicyToCalico(np)
	if err != nil {
		return nil, fmt.Errorf("K8sNetworkPolicyToCalico: %v", err)
	}
	proc := updateprocessors.NewNetworkPolicyUpdateProcessor(model.KindKubernetesNetworkPolicy)
	out, err := proc.Process(kvp)
	if err != nil {
		return nil, fmt.Errorf("policy update processor: %v", err)
	}
	if len(out) != 1 {
		return nil, fmt.Errorf("policy update processor returned %d KVs", len(out))
	}
	pol, ok := out[0].Value.(*model.Policy)
	if !ok {
		return nil, fmt.Errorf("policy update processor returned %T", out[0].Value)
	}
	if _, ok := out[0].Key.(model.PolicyKey); !ok {
		return nil, fmt.Errorf("policy update processor returned key %T", out[0].Key)
	}
	if pol.Tier != "default" {
		return nil, fmt.Errorf("converted policy is in tier %q", pol.Tier)
	}
	return c29Compile(pol)
}

// ---------------------------------------------------------------------------------------------
// Policy generator

type c29Named[T any] struct {
	Name string
	V    T
}

func c29Req(key string, op metav1.LabelSelectorOperator, vals ...string) metav1.LabelSelectorRequirement {
	return metav1.LabelSelectorRequirement{Key: key, Operator: op, Values: vals}
}

func c29PodSelectors() []c29Named[metav1.LabelSelector] {
	return []c29Named[metav1.LabelSelector]{
		{"all", metav1.LabelSelector{}},
		{"app=web", metav1.LabelSelector{MatchLabels: map[string]string{"app": "web"}}},
		{"app-in-web-db", metav1.LabelSelector{MatchExpressions: []metav1.LabelSelectorRequirement{c29Req("app", metav1.LabelSelectorOpIn, "web", "db")}}},
		{"app-notin-web", metav1.LabelSelector{MatchExpressions: []metav1.LabelSelectorRequirement{c29Req("app", metav1.LabelSelectorOpNotIn, "web")}}},
		{"has-tier", metav1.LabelSelector{MatchExpressions: []metav1.LabelSelectorRequirement{c29Req("tier", metav1.LabelSelectorOpExists)}}},
		{"no-tier", metav1.LabelSelector{MatchExpressions: []metav1.LabelSelectorRequirement{c29Req("tier", metav1.LabelSelectorOpDoesNotExist)}}},
		{"app=web&&has-tier", metav1.LabelSelector{MatchLabels: map[string]string{"app": "web"}, MatchExpressions: []metav1.LabelSelectorRequirement{c29Req("tier", metav1.LabelSelectorOpExists)}}},
	}
}

func c29Peers() []c29Named[networkingv1.NetworkPolicyPeer] {
	ls := func(l metav1.LabelSelector) *metav1.LabelSelector { return &l }
	return []c29Named[networkingv1.NetworkPolicyPeer]{
		{"pod(app=web)", networkingv1.NetworkPolicyPeer{PodSelector: ls(metav1.LabelSelector{MatchLabels: map[string]string{"app": "web"}})}},
		{"pod(all)", networkingv1.NetworkPolicyPeer{PodSelector: ls(metav1.LabelSelector{})}},
		{"ns(team=b)", networkingv1.NetworkPolicyPeer{NamespaceSelector: ls(metav1.LabelSelector{MatchLabels: map[string]string{"team": "b"}})}},
		{"ns(all)", networkingv1.NetworkPolicyPeer{NamespaceSelector: ls(metav1.LabelSelector{})}},
		{"ns(team=b)+pod(app=web)", networkingv1.NetworkPolicyPeer{NamespaceSelector: ls(metav1.LabelSelector{MatchLabels: map[string]string{"team": "b"}}), PodSelector: ls(metav1.LabelSelector{MatchLabels: map[string]string{"app": "web"}})}},
		{"ns(all)+pod(app-notin-web)", networkingv1.NetworkPolicyPeer{NamespaceSelector: ls(metav1.LabelSelector{}), PodSelector: ls(metav1.LabelSelector{MatchExpressions: []metav1.LabelSelectorRequirement{c29Req("app", metav1.LabelSelectorOpNotIn, "web")}})}},
		{"ns(team-in-a)+pod(no-tier)", networkingv1.NetworkPolicyPeer{NamespaceSelector: ls(metav1.LabelSelector{MatchExpressions: []metav1.LabelSelectorRequirement{c29Req("team", metav1.LabelSelectorOpIn, "a")}}), PodSelector: ls(metav1.LabelSelector{MatchExpressions: []metav1.LabelSelectorRequirement{c29Req("tier", metav1.LabelSelectorOpDoesNotExist)}})}},
		{"ipblock(192.168/16)", networkingv1.NetworkPolicyPeer{IPBlock: &networkingv1.IPBlock{CIDR: "192.168.0.0/16"}}},
		{"ipblock(192.168/16-192.168.2/24)", networkingv1.NetworkPolicyPeer{IPBlock: &networkingv1.IPBlock{CIDR: "192.168.0.0/16", Except: []string{"192.168.2.0/24"}}}},
		{"ipblock(10.0/16-10.0.1.2-10.0.2/24)", networkingv1.NetworkPolicyPeer{IPBlock: &networkingv1.IPBlock{CIDR: "10.0.0.0/16", Except: []string{"10.0.1.2/32", "10.0.2.0/24"}}}},
	}
}

func c29Ports() []c29Named[networkingv1.NetworkPolicyPort] {
	pr := func(p kapiv1.Protocol) *kapiv1.Protocol { return &p }
	ip := func(i int) *intstr.IntOrString { v := intstr.FromInt(i); return &v }
	sp := func(s string) *intstr.IntOrString { v := intstr.FromString(s); return &v }
	i32 := func(i int32) *int32 { return &i }
	return []c29Named[networkingv1.NetworkPolicyPort]{
		{"tcp/80", networkingv1.NetworkPolicyPort{Protocol: pr(kapiv1.ProtocolTCP), Port: ip(80)}},
		{"udp/53", networkingv1.NetworkPolicyPort{Protocol: pr(kapiv1.ProtocolUDP), Port: ip(53)}},
		{"80(no-proto)", networkingv1.NetworkPolicyPort{Port: ip(80)}},
		{"udp(no-port)", networkingv1.NetworkPolicyPort{Protocol: pr(kapiv1.ProtocolUDP)}},
		{"named-http", networkingv1.NetworkPolicyPort{Port: sp("http")}},
		{"tcp/80-81", networkingv1.NetworkPolicyPort{Protocol: pr(kapiv1.ProtocolTCP), Port: ip(80), EndPort: i32(81)}},
		{"tcp/81", networkingv1.NetworkPolicyPort{Protocol: pr(kapiv1.ProtocolTCP), Port: ip(81)}},
		{"named-dns/udp", networkingv1.NetworkPolicyPort{Protocol: pr(kapiv1.ProtocolUDP), Port: sp("dns")}},
		{"empty", networkingv1.NetworkPolicyPort{}},
		{"sctp/80", networkingv1.NetworkPolicyPort{Protocol: pr(kapiv1.ProtocolSCTP), Port: ip(80)}},
		{"tcp/82", networkingv1.NetworkPolicyPort{Protocol: pr(kapiv1.ProtocolTCP), Port: ip(82)}},
	}
}

// c29ExceptLattice: CIDRs nested inside the ipBlock 10.0.0.0/8 (which covers all pod addresses), in a containment
// lattice: /16 > two disjoint /24s > a /32, plus the block itself.  c29LatticeProbes holds one address per region.
var c29ExceptLattice = []string{"10.0.0.0/16", "10.0.1.0/24", "10.0.1.2/32", "10.0.2.0/24", "10.0.0.0/8"}

// pods sit at 10.0.1.1, 10.0.1.2 (ns1) and 10.0.2.1, 10.0.2.2 (ns2); these two cover the remaining regions:
// inside the /16 but in neither /24, and inside the /8 but outside the /16.
var c29LatticeProbes = []netip.Addr{netip.MustParseAddr("10.0.3.1"), netip.MustParseAddr("10.1.0.1"), netip.MustParseAddr("10.0.2.9")}

// c29LatticePeers: ipBlock 10.0.0.0/8 with every except list of length 0-3 over the lattice, in every listing
// order and with repetitions (nested narrow-before-broad and broad-before-narrow, duplicates, disjoint, except == cidr).
func c29LatticePeers() []c29Named[networkingv1.NetworkPolicyPeer] {
	var out []c29Named[networkingv1.NetworkPolicyPeer]
	var rec func(ex []string)
	rec = func(ex []string) {
		out = append(out, c29Named[networkingv1.NetworkPolicyPeer]{
			Name: fmt.Sprintf("ipblock(10/8 except %v)", ex),
			V:    networkingv1.NetworkPolicyPeer{IPBlock: &networkingv1.IPBlock{CIDR: "10.0.0.0/8", Except: append([]string{}, ex...)}},
		})
		if len(ex) == 3 {
			return
		}
		for _, c := range c29ExceptLattice {
			rec(append(append([]string{}, ex...), c))
		}
	}
	rec(nil)
	return out
}

// c29Subsets returns the index lists of all subsets of {0..n-1} with at most max elements (ordered).
func c29Subsets(n, max int) [][]int {
	out := [][]int{{}}
	for i := 0; i < n; i++ {
		out = append(out, []int{i})
	}
	if max >= 2 {
		for i := 0; i < n; i++ {
			for j := 0; j < n; j++ {
				if i != j {
					out = append(out, []int{i, j}) // both orders: list order must not matter
				}
			}
		}
	}
	return out
}

type c29Rule struct {
	Peers []int
	Ports []int
}

type c29Spec struct {
	NS      string
	PodSel  int
	Types   int // 0 absent, 1 Ingress, 2 Egress, 3 both
	Ingress []c29Rule
	Egress  []c29Rule
}

type c29Gen struct {
	podSels []c29Named[metav1.LabelSelector]
	peers   []c29Named[networkingv1.NetworkPolicyPeer]
	ports   []c29Named[networkingv1.NetworkPolicyPort]
}

func (g *c29Gen) describe(s c29Spec) map[string]any {
	rule := func(r c29Rule) map[string]any {
		var ps, qs []string
		for _, i := range r.Peers {
			ps = append(ps, g.peers[i].Name)
		}
		for _, i := range r.Ports {
			qs = append(qs, g.ports[i].Name)
		}
		return map[string]any{"peers": ps, "ports": qs}
	}
	var in, eg []map[string]any
	for _, r := range s.Ingress {
		in = append(in, rule(r))
	}
	for _, r := range s.Egress {
		eg = append(eg, rule(r))
	}
	return map[string]any{"namespace": s.NS, "podSelector": g.podSels[s.PodSel].Name, "policyTypes": []string{"<absent>", "Ingress", "Egress", "Ingress,Egress"}[s.Types], "ingress": in, "egress": eg}
}

func (g *c29Gen) features(s c29Spec) string {
	f := map[string]bool{}
	for _, rs := range [][]c29Rule{s.Ingress, s.Egress} {
		for _, r := range rs {
			if len(r.Peers) == 0 {
				f["peers-empty"] = true
			}
			if len(r.Ports) == 0 {
				f["ports-empty"] = true
			}
			for _, i := range r.Peers {
				p := g.peers[i].V
				switch {
				case p.IPBlock != nil && len(p.IPBlock.Except) > 0:
					f["ipblock-except"] = true
				case p.IPBlock != nil:
					f["ipblock"] = true
				case p.NamespaceSelector != nil && p.PodSelector != nil:
					f["ns+pod-selector"] = true
				case p.NamespaceSelector != nil:
					f["ns-selector"] = true
				default:
					f["pod-selector"] = true
				}
			}
			for _, i := range r.Ports {
				p := g.ports[i].V
				switch {
				case p.Port != nil && p.Port.Type == intstr.String:
					f["named-port"] = true
				case p.EndPort != nil:
					f["port-range"] = true
				case p.Port == nil && p.Protocol == nil:
					f["port-empty-struct"] = true
				case p.Port == nil:
					f["protocol-only"] = true
				case p.Protocol == nil:
					f["default-protocol"] = true
				default:
					f["port"] = true
				}
			}
			if len(r.Ports) > 1 {
				f["multi-port"] = true
			}
			if len(r.Peers) > 1 {
				f["multi-peer"] = true
			}
		}
	}
	var ks []string
	for k := range f {
		ks = append(ks, k)
	}
	sort.Strings(ks)
	return strings.Join(ks, ",")
}

func (g *c29Gen) build(s c29Spec) *networkingv1.NetworkPolicy {
	np := &networkingv1.NetworkPolicy{ObjectMeta: metav1.ObjectMeta{Name: "np", Namespace: s.NS}}
	np.Spec.PodSelector = *g.podSels[s.PodSel].V.DeepCopy()
	switch s.Types {
	case 1:
		np.Spec.PolicyTypes = []networkingv1.PolicyType{networkingv1.PolicyTypeIngress}
	case 2:
		np.Spec.PolicyTypes = []networkingv1.PolicyType{networkingv1.PolicyTypeEgress}
	case 3:
		np.Spec.PolicyTypes = []networkingv1.PolicyType{networkingv1.PolicyTypeIngress, networkingv1.PolicyTypeEgress}
	}
	mk := func(r c29Rule) ([]networkingv1.NetworkPolicyPeer, []networkingv1.NetworkPolicyPort) {
		var peers []networkingv1.NetworkPolicyPeer
		var ports []networkingv1.NetworkPolicyPort
		for _, i := range r.Peers {
			peers = append(peers, g.peers[i].V) // selectors shared by pointer (read-only)
		}
		for _, i := range r.Ports {
			ports = append(ports, *g.ports[i].V.DeepCopy())
		}
		return peers, ports
	}
	for _, r := range s.Ingress {
		peers, ports := mk(r)
		np.Spec.Ingress = append(np.Spec.Ingress, networkingv1.NetworkPolicyIngressRule{From: peers, Ports: ports})
	}
	for _, r := range s.Egress {
		peers, ports := mk(r)
		np.Spec.Egress = append(np.Spec.Egress, networkingv1.NetworkPolicyEgressRule{To: peers, Ports: ports})
	}
	return np
}

var c29Conns = []c29Conn{{c29TCP, 80}, {c29TCP, 81}, {c29TCP, 82}, {c29UDP, 53}, {c29UDP, 80}, {c29SCTP, 80}, {c29ICMP, 0}}

type c29Worker struct {
	extraExternal []netip.Addr // additional external probe addresses (ipBlock lattice slice)
	c             *vk.Ctx
	cl            *c29Cluster
	g             *c29Gen
	states        int64
	evals         int64
	seen          map[string]bool
	outc          map[string]bool
}

func (w *c29Worker) flush() {
	w.c.Add("states", w.states)
	w.c.Add("transitions", w.evals)
	w.states, w.evals = 0, 0
	for s := range w.seen {
		w.c.Nontrivial(s)
	}
	for s := range w.outc {
		w.c.Outcome(s)
	}
	w.seen, w.outc = map[string]bool{}, map[string]bool{}
}

// checkPolicies converts the given policies (all present at once) and compares the two evaluators on every
// endpoint, direction, peer and connection.
func (w *c29Worker) checkPolicies(specs []c29Spec, phase string) {
	var nps []*networkingv1.NetworkPolicy
	var cps []*c29CalPolicy
	var descr []map[string]any
	feat := ""
	for i, s := range specs {
		np := w.g.build(s)
		np.Name = fmt.Sprintf("np%d", i)
		nps = append(nps, np)
		descr = append(descr, w.g.describe(s))
		feat += w.g.features(s) + ";"
		var cp *c29CalPolicy
		perr := vk.Catch(func() error {
			var e error
			cp, e = c29Convert(np)
			return e
		})
		w.evals++
		if perr != nil {
			w.c.Violation("C29:conversion-failed", map[string]any{"phase": phase, "policies": descr, "error": perr.Error()})
			return
		}
		cps = append(cps, cp)
	}
	w.states++
	sawAllow, sawDeny, sawIso := false, false, false
	for _, target := range w.cl.Pods {
		selects := make([]bool, len(nps))
		for i, np := range nps {
			selects[i] = c29K8sSelects(np, target)
		}
		for _, ingress := range []bool{true, false} {
			type peerT struct {
				pod *c29Pod
				ip  netip.Addr
			}
			var peers []peerT
			for _, p := range w.cl.Pods {
				if p != target {
					peers = append(peers, peerT{p, p.IP})
				}
			}
			for _, e := range w.cl.External {
				peers = append(peers, peerT{nil, e})
			}
			for _, e := range w.extraExternal {
				peers = append(peers, peerT{nil, e})
			}
			for _, peer := range peers {
				for _, conn := range c29Conns {
					// Kubernetes: policies are additive; a pod is isolated in a direction if any policy
					// selects it for that direction, and then traffic is allowed iff some policy allows it.
					kIso, kAllow := false, false
					for i, np := range nps {
						iso, al := c29K8sAllowsSel(np, selects[i], w.cl, target, ingress, peer.pod, peer.ip, conn)
						if iso {
							kIso = true
							kAllow = kAllow || al
						}
					}
					if !kIso {
						kAllow = true
					}
					var cApplies, cAllow bool
					perr := vk.Catch(func() error {
						cApplies, cAllow = c29CalicoAllows(cps, w.cl, target, ingress, peer.pod, peer.ip, conn)
						return nil
					})
					w.evals++
					if perr != nil {
						w.c.Violation("C29:evaluation-failed", map[string]any{"phase": phase, "policies": descr, "error": perr.Error()})
						return
					}
					if kIso {
						sawIso = true
						if kAllow {
							sawAllow = true
						} else {
							sawDeny = true
						}
					}
					if kAllow == cAllow {
						continue
					}
					dir := "egress"
					if ingress {
						dir = "ingress"
					}
					kind := "calico-too-strict"
					if cAllow {
						kind = "calico-too-permissive"
					}
					// key: direction, kind of mismatch and the most specific feature present in the policies
					primary := "plain"
					for _, f := range []string{"ipblock-except", "ipblock", "named-port", "port-range", "ns+pod-selector", "ns-selector", "pod-selector", "protocol-only", "port-empty-struct", "default-protocol", "multi-port", "peers-empty", "ports-empty"} {
						if strings.Contains(","+strings.ReplaceAll(feat, ";", ",")+",", ","+f+",") {
							primary = f
							break
						}
					}
					key := fmt.Sprintf("C29:%s-%s:%s", dir, kind, primary)
					for _, s := range specs {
						if s.Types == 0 && len(s.Egress) > 0 && !ingress && !cApplies && kIso {
							key = "C29:absent-policytypes-with-egress-rules-not-egress-isolated"
						}
					}
					peerName := peer.ip.String()
					if peer.pod != nil {
						peerName = peer.pod.NS + "/" + peer.pod.Name + "(" + peer.ip.String() + ")"
					}
					var conv []any
					for _, cp := range cps {
						conv = append(conv, cp.pol)
					}
					w.c.Violation(key, map[string]any{"phase": phase, "policies": descr, "k8s_objects": nps, "converted": conv,
						"endpoint": target.NS + "/" + target.Name, "direction": dir, "peer": peerName, "connection": conn.String(),
						"kubernetes_isolated": kIso, "kubernetes_allows": kAllow, "calico_policy_applies": cApplies, "calico_allows": cAllow})
				}
			}
		}
	}
	if sawIso {
		w.seen[phase+"|"+fmt.Sprint(specs)] = true
	}
	w.outc[fmt.Sprintf("%s|iso=%v|allow=%v|deny=%v|%s", phase, sawIso, sawAllow, sawDeny, feat)] = true
}

func TestVerif_C29(t *testing.T) {
	vk.Run(t, "C29", func(c *vk.Ctx) {
		logrus.SetLevel(logrus.PanicLevel)
		logrus.StandardLogger().ExitFunc = func(int) { panic("logrus.Fatal") }
		cl, err := c29BuildCluster()
		if err != nil {
			c.ToolError("cannot build the cluster through the real conversion code: " + err.Error())
			return
		}
		g := &c29Gen{podSels: c29PodSelectors(), peers: c29Peers(), ports: c29Ports()}
		c.Rule("Cluster: namespaces ns1{team=a}, ns2{team=b}; pods ns1/p1{app=web,tier=fe; http=tcp/80}, ns1/p2{app=db; http=tcp/81}, ns2/p3{app=web; http=tcp/80, dns=udp/53}, ns2/p4{}; external 192.168.1.1, 192.168.2.1, 172.16.0.1. " +
			"Policies: namespace x podSelector (7 shapes: empty, matchLabels, In, NotIn, Exists, DoesNotExist, labels+expression) x policyTypes {absent, Ingress, Egress, both} x rules built from 10 peers " +
			"(pod/namespace/both selectors incl. empty ones, ipBlock with 0-2 excepts incl. one covering pod IPs) and 11 ports (explicit/default protocol, protocol only, named, endPort range, adjacent ports, empty struct, SCTP); " +
			"peer and port lists of length 0-2 in both orders; plus ipBlock 10.0.0.0/8 with every except list of length 0-3 (all orders, repetitions) over the lattice {10.0.0.0/16, 10.0.1.0/24, 10.0.1.2/32, 10.0.2.0/24, 10.0.0.0/8}, probed additionally at 10.0.3.1, 10.1.0.1, 10.0.2.9 (slice S5). Slices: S1 one rule (ingress or egress) with the full peer-list x port-list product; S2 two rules in one direction; S3 one ingress + one egress rule; S4 two policies at once. " +
			"Every policy is evaluated for every pod x direction x (3 other pods + 3 external addresses) x 7 connections (tcp/80,81,82 udp/53,80 sctp/80 icmp). Non-trivial = the policy isolates at least one pod.")
		c.Assume("The Calico meaning of the converted model.Policy is given by the harness evaluator c29CalicoAllows (rule fields ANDed, first match decides, applicable policy without match denies, otherwise the namespace profile decides) using the real selector package; Felix's calculation graph and dataplanes are covered by other properties.")
		c.Assume("Pod IPs are what policy sees (no NAT); ipBlock is matched on the peer address whether or not it belongs to a pod.")

		nPeers, nPorts := len(g.peers), len(g.ports)
		// the ipBlock-except lattice peers are appended after the main pool (the main slices use indexes < nPeers)
		g.peers = append(g.peers, c29LatticePeers()...)
		nLattice := len(g.peers) - nPeers
		peerSets2, portSets2 := c29Subsets(nPeers, 2), c29Subsets(nPorts, 2)
		if c.Quick() {
			// quick tier: peer pairs in one order only (port pairs keep both orders: SimplifyPorts sorts them)
			var f [][]int
			for _, ps := range peerSets2 {
				if len(ps) < 2 || ps[0] < ps[1] {
					f = append(f, ps)
				}
			}
			peerSets2 = f
		}
		peerSets1, portSets1 := c29Subsets(nPeers, 1), c29Subsets(nPorts, 1)

		type job func(w *c29Worker)
		jobs := make(chan job, 1024)
		var wg sync.WaitGroup
		for i := 0; i < 6; i++ {
			wg.Add(1)
			go func() {
				defer wg.Done()
				w := &c29Worker{c: c, cl: cl, g: g, seen: map[string]bool{}, outc: map[string]bool{}}
				for j := range jobs {
					if c.Expired() {
						c.Capped("deadline")
						continue
					}
					j(w)
					w.flush()
				}
			}()
		}
		podSelsQ := []int{0, 1, 3, 5}
		if c.Thorough() {
			podSelsQ = []int{0, 1, 2, 3, 4, 5, 6}
		}
		// S1: one rule
		for _, ns := range []string{"ns1", "ns2"} {
			for _, ps := range podSelsQ {
				if ns == "ns2" && ps > 1 && c.Quick() {
					continue
				}
				for types := 0; types < 4; types++ {
					for _, ingress := range []bool{true, false} {
						jobs <- func(w *c29Worker) {
							for _, pe := range peerSets2 {
								for _, po := range portSets2 {
									// quick tier: full lists on one side at a time
									if w.c.Quick() && len(pe) == 2 && len(po) == 2 {
										continue
									}
									s := c29Spec{NS: ns, PodSel: ps, Types: types}
									if ingress {
										s.Ingress = []c29Rule{{pe, po}}
									} else {
										s.Egress = []c29Rule{{pe, po}}
									}
									w.checkPolicies([]c29Spec{s}, "S1")
								}
								if w.c.Expired() {
									w.c.Capped("deadline in S1")
									return
								}
							}
						}
					}
				}
			}
		}
		// S0: no rules at all (default deny / not isolated)
		jobs <- func(w *c29Worker) {
			for _, ns := range []string{"ns1", "ns2"} {
				for ps := range g.podSels {
					for types := 0; types < 4; types++ {
						w.checkPolicies([]c29Spec{{NS: ns, PodSel: ps, Types: types}}, "S0")
					}
				}
			}
		}
		// S2: two rules in one direction; S3: one ingress and one egress rule (reduced pools)
		for _, ps := range []int{0, 1, 3} {
			for types := 0; types < 4; types++ {
				jobs <- func(w *c29Worker) {
					var rules []c29Rule
					for _, pe := range peerSets1 {
						for _, po := range portSets1 {
							if w.c.Quick() && (len(pe) > 0 && pe[0]%2 == 1 || len(po) > 0 && po[0]%2 == 1) {
								continue
							}
							rules = append(rules, c29Rule{pe, po})
						}
					}
					for _, r1 := range rules {
						for _, r2 := range rules {
							w.checkPolicies([]c29Spec{{NS: "ns1", PodSel: ps, Types: types, Ingress: []c29Rule{r1, r2}}}, "S2")
							w.checkPolicies([]c29Spec{{NS: "ns1", PodSel: ps, Types: types, Egress: []c29Rule{r1, r2}}}, "S2")
							w.checkPolicies([]c29Spec{{NS: "ns1", PodSel: ps, Types: types, Ingress: []c29Rule{r1}, Egress: []c29Rule{r2}}}, "S3")
						}
						if w.c.Expired() {
							w.c.Capped("deadline in S2/S3")
							return
						}
					}
				}
			}
		}
		// S5: ipBlock except lattice (nested / duplicate / disjoint / except == cidr, every listing order), probed at
		// one address per region of the lattice.
		for _, ingress := range []bool{true, false} {
			jobs <- func(w *c29Worker) {
				w.extraExternal = c29LatticeProbes
				defer func() { w.extraExternal = nil }()
				for li := 0; li < nLattice; li++ {
					for _, others := range [][]int{nil, {0}, {7}} { // alone, next to a pod selector, next to another ipBlock
						for _, po := range [][]int{nil, {0}} {
							for _, first := range []bool{true, false} {
								if len(others) == 0 && !first {
									continue
								}
								pe := append([]int{nPeers + li}, others...)
								if !first {
									pe = append(append([]int{}, others...), nPeers+li)
								}
								s := c29Spec{NS: "ns1", PodSel: 0, Types: 3}
								if ingress {
									s.Ingress = []c29Rule{{pe, po}}
								} else {
									s.Egress = []c29Rule{{pe, po}}
								}
								w.checkPolicies([]c29Spec{s}, "S5")
							}
						}
					}
					if w.c.Expired() {
						w.c.Capped("deadline in S5")
						return
					}
				}
			}
		}
		// S4: two policies present at once (Kubernetes policies are additive)
		for _, psA := range []int{0, 1} {
			for _, psB := range []int{0, 3} {
				jobs <- func(w *c29Worker) {
					var rules []c29Rule
					for _, pe := range peerSets1 {
						for _, po := range portSets1 {
							if len(pe) > 0 && pe[0]%2 == 1 || len(po) > 0 && po[0]%3 != 0 {
								continue
							}
							rules = append(rules, c29Rule{pe, po})
						}
					}
					for _, tA := range []int{1, 3} {
						for _, tB := range []int{1, 2} {
							for _, r1 := range rules {
								for _, r2 := range rules {
									a := c29Spec{NS: "ns1", PodSel: psA, Types: tA, Ingress: []c29Rule{r1}}
									b := c29Spec{NS: "ns1", PodSel: psB, Types: tB, Ingress: []c29Rule{r2}, Egress: []c29Rule{r2}}
									w.checkPolicies([]c29Spec{a, b}, "S4")
								}
								if w.c.Expired() {
									w.c.Capped("deadline in S4")
									return
								}
							}
						}
					}
				}
			}
		}
		close(jobs)
		wg.Wait()

		// written-out samples
		for _, s := range []c29Spec{
			{NS: "ns1", PodSel: 1, Types: 1, Ingress: []c29Rule{{[]int{8}, []int{4}}}},
			{NS: "ns1", PodSel: 0, Types: 3, Ingress: []c29Rule{{[]int{2}, []int{0, 6}}}, Egress: []c29Rule{{[]int{9}, nil}}},
		} {
			np := g.build(s)
			cp, err := c29Convert(np)
			if err != nil {
				continue
			}
			verdicts := map[string]string{}
			for _, conn := range []c29Conn{{c29TCP, 80}, {c29TCP, 81}} {
				for _, peer := range []netip.Addr{cl.External[0], cl.External[1]} {
					_, k := c29K8sAllows(np, cl, cl.Pods[0], true, nil, peer, conn)
					_, ca := c29CalicoAllows([]*c29CalPolicy{cp}, cl, cl.Pods[0], true, nil, peer, conn)
					verdicts[fmt.Sprintf("ingress to ns1/p1 from %s %s", peer, conn)] = fmt.Sprintf("k8s=%v calico=%v", k, ca)
				}
			}
			c.Sample(map[string]any{"policy": g.describe(s), "converted": cp.pol, "verdicts": verdicts})
		}
	})
}

package intdataplane

// C41 — flow offload never bypasses endpoints that need per-packet processing.
//
//  1. explicit-state search over the REAL flowtableExclusionManager (flowtable_mgr.go) wired to the repo's mock
//     IP-sets dataplane: histories of workload / host endpoint updates and removals with QoS features toggling and
//     shared / changing addresses; oracle after every CompleteDeferredWork: the no-flow-offload set holds exactly the
//     current addresses of the endpoints that need the forward hooks.
//  2. in every such state the REAL rendered nftables offload rule (rules.StaticFilterForwardChains, nft mode, offload
//     on, rendered to text by the real nftables renderer through the real table layer) is executed by the nfsim
//     interpreter with set membership taken from what the manager actually programmed: no packet whose source or
//     destination belongs to an endpoint needing hooks, and no packet of a flow that is not established, may reach
//     the "flow offload" statement.

import (
	"fmt"
	"net/netip"
	"sort"
	"strings"
	"sync"
	"testing"

	"github.com/onsi/gomega"
	"github.com/sirupsen/logrus"

	dpsets "github.com/projectcalico/calico/felix/dataplane/ipsets"
	"github.com/projectcalico/calico/felix/generictables"
	"github.com/projectcalico/calico/felix/dataplane/linux/dataplanedefs"
	"github.com/projectcalico/calico/felix/ipsets"
	"github.com/projectcalico/calico/felix/nftables"
	"github.com/projectcalico/calico/felix/proto"
	"github.com/projectcalico/calico/felix/rules"
	"github.com/projectcalico/calico/zzverif/hbfs"
	"github.com/projectcalico/calico/zzverif/nfsim"
	"github.com/projectcalico/calico/zzverif/vk"
)

// ---- universe ----

// addresses: index 0..3 ; A is shared by everybody, D never belongs to an endpoint
var c41Addr4 = []string{"10.65.0.1", "10.65.0.2", "192.168.0.3", "10.65.0.9"}
var c41Addr6 = []string{"fd00::1", "fd00::2", "fd00:1::3", "fd00::9"}

const c41SentinelPrefix = "VERIF-FLOW-OFFLOAD"

// c41QoS indexes c41Shapes. The shapes sit on the boundaries of every clause of "needs per-packet processing":
// DSCP marking with the smallest (0 = a real marking: the DSCP manager renders a rule for every value 0..63), a
// middle and the largest value, one and two policies, an explicitly empty policy list; connection and packet-rate
// limits of 1 and of a large value, on either direction; controls whose only non-zero fields are NOT limits (burst
// without rate, bandwidth, peak rate / min burst), an all-zero controls object; and combinations.
type c41QoS int

type c41Shape struct {
	name  string
	needs bool // reference: DSCP marking or a connection or packet-rate limit
	pols  func() []*proto.QoSPolicy
	ctl   func() *proto.QoSControls
}

func c41Pols(vals ...int32) func() []*proto.QoSPolicy {
	return func() []*proto.QoSPolicy {
		out := []*proto.QoSPolicy{}
		for _, v := range vals {
			out = append(out, &proto.QoSPolicy{Dscp: v})
		}
		return out
	}
}

var c41Shapes = []c41Shape{
	{name: "none"},
	{name: "dscp0", needs: true, pols: c41Pols(0)},
	{name: "dscp20", needs: true, pols: c41Pols(20)},
	{name: "dscp63", needs: true, pols: c41Pols(63)},
	{name: "dscp0+46", needs: true, pols: c41Pols(0, 46)},
	{name: "empty-policy-list", pols: c41Pols()},
	{name: "conn-in1", needs: true, ctl: func() *proto.QoSControls { return &proto.QoSControls{IngressMaxConnections: 1} }},
	{name: "conn-out-big", needs: true, ctl: func() *proto.QoSControls { return &proto.QoSControls{EgressMaxConnections: 1 << 40} }},
	{name: "pktrate-in+burst", needs: true, ctl: func() *proto.QoSControls { return &proto.QoSControls{IngressPacketRate: 1000, IngressPacketBurst: 5} }},
	{name: "pktrate-out1", needs: true, ctl: func() *proto.QoSControls { return &proto.QoSControls{EgressPacketRate: 1} }},
	{name: "pktburst-without-rate", ctl: func() *proto.QoSControls { return &proto.QoSControls{IngressPacketBurst: 5, EgressPacketBurst: 5} }},
	{name: "bandwidth-only", ctl: func() *proto.QoSControls {
		return &proto.QoSControls{IngressBandwidth: 1000, EgressBandwidth: 1000, IngressBurst: 10, EgressBurst: 10, IngressPeakrate: 2000, EgressPeakrate: 2000, IngressMinburst: 1, EgressMinburst: 1}
	}},
	{name: "empty-controls", ctl: func() *proto.QoSControls { return &proto.QoSControls{} }},
	{name: "dscp0+bandwidth", needs: true, pols: c41Pols(0), ctl: func() *proto.QoSControls { return &proto.QoSControls{IngressBandwidth: 1000} }},
	{name: "bandwidth+conn-out1", needs: true, ctl: func() *proto.QoSControls { return &proto.QoSControls{EgressBandwidth: 1000, EgressMaxConnections: 1} }},
}

func c41ShapeIx(name string) c41QoS {
	for i, sh := range c41Shapes {
		if sh.name == name {
			return c41QoS(i)
		}
	}
	panic("unknown shape " + name)
}

func (q c41QoS) needsHooks() bool { return c41Shapes[q].needs }

type c41EpState struct {
	qos   c41QoS
	addrs []int // indices into the address table
}

func (e *c41EpState) String() string {
	if e == nil {
		return "-"
	}
	return fmt.Sprintf("%s%v", c41Shapes[e.qos].name, e.addrs)
}

type c41Cfg struct {
	ipv     uint8
	batched bool
}

type c41State struct {
	cfg   c41Cfg
	m     *flowtableExclusionManager
	sets  *dpsets.MockIPSets
	weps  [2]*c41EpState
	heps  [1]*c41EpState
	dirty bool // reference: updates since the last flush
	nUpd  int
	flushed bool
}

func (st *c41State) addr(i int) string {
	if st.cfg.ipv == 6 {
		return c41Addr6[i]
	}
	return c41Addr4[i]
}

func c41New(cfg c41Cfg) *c41State {
	st := &c41State{cfg: cfg, sets: dpsets.NewMockIPSets()}
	st.m = newFlowtableExclusionManager(st.sets, cfg.ipv, 1024)
	return st
}

type c41Ev struct {
	kind string // wep, weprm, hep, heprm, flush
	id   int
	ep   c41EpState
}

func (e c41Ev) String() string {
	switch e.kind {
	case "wep":
		return fmt.Sprintf("wep(w%d,%s)", e.id, e.ep.String())
	case "hep":
		return fmt.Sprintf("hep(h%d,%s)", e.id, e.ep.String())
	case "weprm":
		return fmt.Sprintf("weprm(w%d)", e.id)
	case "heprm":
		return fmt.Sprintf("heprm(h%d)", e.id)
	}
	return "flush"
}

var c41AddrSets = [][]int{{0}, {1}, {0, 1}, {}}

func c41Enabled(st *c41State, depth int) []c41Ev {
	var evs []c41Ev
	// w0: every QoS shape x every address set; w1: two shapes x {A},{B} (collides with w0 on both addresses)
	for q := c41QoS(0); int(q) < len(c41Shapes); q++ {
		for _, as := range c41AddrSets {
			evs = append(evs, c41Ev{kind: "wep", id: 0, ep: c41EpState{q, as}})
		}
	}
	for _, q := range []c41QoS{c41ShapeIx("none"), c41ShapeIx("conn-in1"), c41ShapeIx("dscp0")} {
		for _, as := range [][]int{{0}, {1}} {
			evs = append(evs, c41Ev{kind: "wep", id: 1, ep: c41EpState{q, as}})
		}
	}
	// host endpoints only have the DSCP clause
	for _, q := range []c41QoS{c41ShapeIx("none"), c41ShapeIx("dscp0"), c41ShapeIx("dscp63"), c41ShapeIx("empty-policy-list")} {
		for _, as := range [][]int{{0}, {2}, {0, 2}} {
			evs = append(evs, c41Ev{kind: "hep", id: 0, ep: c41EpState{q, as}})
		}
	}
	evs = append(evs, c41Ev{kind: "weprm", id: 0}, c41Ev{kind: "weprm", id: 1}, c41Ev{kind: "heprm", id: 0})
	if st.cfg.batched {
		evs = append(evs, c41Ev{kind: "flush"})
	}
	return evs
}

func (st *c41State) wepProto(e *c41EpState) *proto.WorkloadEndpoint {
	w := &proto.WorkloadEndpoint{State: "active", Name: "cali1"}
	for _, a := range e.addrs {
		// always give both families: the manager must pick its own
		w.Ipv4Nets = append(w.Ipv4Nets, c41Addr4[a]+"/32")
		w.Ipv6Nets = append(w.Ipv6Nets, c41Addr6[a]+"/128")
	}
	sh := c41Shapes[e.qos]
	if sh.pols != nil {
		w.QosPolicies = sh.pols()
	}
	if sh.ctl != nil {
		w.QosControls = sh.ctl()
	}
	return w
}

func (st *c41State) hepProto(e *c41EpState) *proto.HostEndpoint {
	h := &proto.HostEndpoint{Name: "eth0"}
	for _, a := range e.addrs {
		h.ExpectedIpv4Addrs = append(h.ExpectedIpv4Addrs, c41Addr4[a])
		h.ExpectedIpv6Addrs = append(h.ExpectedIpv6Addrs, c41Addr6[a])
	}
	if sh := c41Shapes[e.qos]; sh.pols != nil {
		h.QosPolicies = sh.pols()
	}
	return h
}

func c41Apply(st *c41State, e c41Ev) {
	switch e.kind {
	case "wep":
		ep := e.ep
		st.weps[e.id] = &ep
		st.m.OnUpdate(&proto.WorkloadEndpointUpdate{
			Id:       &proto.WorkloadEndpointID{OrchestratorId: "k8s", WorkloadId: fmt.Sprintf("pod-%d", e.id), EndpointId: "eth0"},
			Endpoint: st.wepProto(&ep)})
		st.nUpd++
	case "weprm":
		st.weps[e.id] = nil
		st.m.OnUpdate(&proto.WorkloadEndpointRemove{
			Id: &proto.WorkloadEndpointID{OrchestratorId: "k8s", WorkloadId: fmt.Sprintf("pod-%d", e.id), EndpointId: "eth0"}})
		st.nUpd++
	case "hep":
		ep := e.ep
		st.heps[e.id] = &ep
		st.m.OnUpdate(&proto.HostEndpointUpdate{Id: &proto.HostEndpointID{EndpointId: fmt.Sprintf("hep-%d", e.id)}, Endpoint: st.hepProto(&ep)})
		st.nUpd++
	case "heprm":
		st.heps[e.id] = nil
		st.m.OnUpdate(&proto.HostEndpointRemove{Id: &proto.HostEndpointID{EndpointId: fmt.Sprintf("hep-%d", e.id)}})
		st.nUpd++
	case "flush":
		st.flush()
		return
	}
	st.dirty = true
	if !st.cfg.batched {
		st.flush()
	}
}

func (st *c41State) flush() {
	if err := st.m.CompleteDeferredWork(); err != nil {
		panic(err)
	}
	st.dirty = false
	st.flushed = true
}

// expected: union of the current addresses of the endpoints that need hooks
func (st *c41State) expected() map[string]bool {
	exp := map[string]bool{}
	for _, e := range st.weps {
		if e != nil && e.qos.needsHooks() {
			for _, a := range e.addrs {
				exp[st.addr(a)] = true
			}
		}
	}
	for _, e := range st.heps {
		if e != nil && e.qos.needsHooks() {
			for _, a := range e.addrs {
				exp[st.addr(a)] = true
			}
		}
	}
	return exp
}

func (st *c41State) actual() (map[string]bool, bool) {
	s, ok := st.sets.Members[rules.IPSetIDNoFlowOffload]
	if !ok || s == nil {
		return nil, false
	}
	act := map[string]bool{}
	for m := range s.All() {
		act[m] = true
	}
	return act, true
}

func c41Keys(m map[string]bool) []string {
	var out []string
	for k := range m {
		out = append(out, k)
	}
	sort.Strings(out)
	return out
}

func (st *c41State) envString() string {
	return fmt.Sprintf("w0=%s w1=%s h0=%s", st.weps[0].String(), st.weps[1].String(), st.heps[0].String())
}

// ---- the rendered offload rule ----

type c41Rule struct {
	rs      *nfsim.Ruleset
	entry   string
	setName string // as it appears in the rule text
	lines   []string
}

var c41Rules sync.Map // ipv -> *c41Rule or error string

func c41RenderConfig() rules.Config {
	return rules.Config{
		IPSetConfigV4:            ipsets.NewIPVersionConfig(ipsets.IPFamilyV4, "cali", nil, nil),
		IPSetConfigV6:            ipsets.NewIPVersionConfig(ipsets.IPFamilyV6, "cali", nil, nil),
		MarkAccept:               0x8,
		MarkPass:                 0x10,
		MarkScratch0:             0x20,
		MarkScratch1:             0x40,
		MarkDrop:                 0x80,
		MarkEndpoint:             0xff00,
		MarkNonCaliEndpoint:      0x0100,
		WorkloadIfacePrefixes:    []string{"cali"},
		NFTablesFlowTableOffload: true,
	}
}

// c41BuildRule renders filter FORWARD with the real renderers and parses it. The "flow offload @calico" statement is
// outside nfsim's vocabulary: after checking that it is exactly the rendered form of FlowOffloadAction it is
// replaced by a non-terminal log statement with a sentinel prefix, so that "the packet reached the offload
// statement" is visible in Result.Logs (a flow offload statement, like log, does not end rule traversal).
func c41BuildRule(ipv uint8, offload bool) (*c41Rule, error) {
	rc := c41RenderConfig()
	rc.NFTablesFlowTableOffload = offload
	renderer := rules.NewRenderer(rc, true)
	b := nfsim.NewBuilder(nfsim.Nft, ipv, "filter")
	// the whole static filter table is rendered (what production programs); only FORWARD is interpreted, the rest is
	// scanned for further offload statements
	other := nfsim.NewBuilder(nfsim.Nft, ipv, "filter")
	for _, ch := range renderer.StaticFilterTableChains(ipv) {
		if ch.Name == rules.ChainFilterForward {
			b.Table().UpdateChains([]*generictables.Chain{ch})
		} else {
			other.Table().UpdateChains([]*generictables.Chain{ch})
		}
	}
	for _, l := range other.Lines() {
		if strings.Contains(l, " offload") || strings.Contains(l, "flow ") {
			return nil, fmt.Errorf("flow offload statement outside %s (not covered by this check): %q", rules.ChainFilterForward, l)
		}
	}
	lines := b.Lines()
	if len(lines) == 0 {
		return nil, fmt.Errorf("no %s chain rendered", rules.ChainFilterForward)
	}
	rs := nfsim.New(nfsim.Nft)
	rs.Family = int(ipv)
	out := &c41Rule{rs: rs, lines: lines, entry: b.ChainName(rules.ChainFilterForward)}
	offloadStmt := nftables.FlowOffloadAction{}.ToFragment(nfsim.DefaultFeatures)
	if offloadStmt != "flow offload @"+dataplanedefs.FlowtableName {
		return nil, fmt.Errorf("unexpected rendering of FlowOffloadAction: %q", offloadStmt)
	}
	ipcfg := rc.IPSetConfigV4
	if ipv == 6 {
		ipcfg = rc.IPSetConfigV6
	}
	out.setName = nftables.LegalizeSetName(ipcfg.NameForMainIPSet(rules.IPSetIDNoFlowOffload))
	for _, l := range lines {
		i := strings.Index(l, ": ")
		if i < 0 {
			return nil, fmt.Errorf("unparseable rendered line %q", l)
		}
		chain, body := l[:i], l[i+2:]
		if strings.Contains(body, "flow ") || strings.Contains(body, " offload") {
			if strings.Count(body, offloadStmt) != 1 || strings.Count(body, " offload") != 1 || !strings.HasSuffix(body, offloadStmt) {
				return nil, fmt.Errorf("offload statement in unexpected form: %q", body)
			}
			body = strings.Replace(body, offloadStmt, `log prefix "`+c41SentinelPrefix+`"`, 1)
		}
		if err := rs.AddNftRule(chain, body); err != nil {
			return nil, fmt.Errorf("nfsim cannot read rendered rule %q: %w", l, err)
		}
	}
	// everything FORWARD jumps to is a leaf for this check
	for _, n := range []string{rules.ChainDispatchFromHostEndPointForward, rules.ChainFromWorkloadDispatch, rules.ChainToWorkloadDispatch,
		rules.ChainDispatchToHostEndpointForward, rules.ChainCIDRBlock} {
		rs.Leaves[b.ChainName(n)] = true
	}
	return out, nil
}

func c41GetRule(ipv uint8) (*c41Rule, error) {
	if v, ok := c41Rules.Load(ipv); ok {
		if r, ok := v.(*c41Rule); ok {
			return r, nil
		}
		return nil, fmt.Errorf("%v", v)
	}
	r, err := c41BuildRule(ipv, true)
	if err != nil {
		c41Rules.Store(ipv, err.Error())
		return nil, err
	}
	c41Rules.Store(ipv, r)
	return r, nil
}

var c41CTStates = []string{"NEW", "ESTABLISHED", "RELATED", "INVALID", "UNTRACKED"}

type c41PktResult struct {
	offloaded bool
	verdict   string
}

// c41Eval: the FORWARD chain is left when a leaf dispatch chain is reached; what matters is whether the offload
// statement was reached before. Leaves end the evaluation, so FORWARD is walked once per "leaf skipped" by
// choosing interfaces that match no workload prefix and a set accept mark (host-endpoint forward dispatch is
// skipped when the accept bit is set): the offload rule is the first rule and is evaluated in every walk.
func (r *c41Rule) eval(ipv uint8, ct string, src, dst string, memb map[string]bool, inIf, outIf string) (c41PktResult, error) {
	p := nfsim.Packet{IPVersion: int(ipv), InIface: inIf, OutIface: outIf, Src: netip.MustParseAddr(src), Dst: netip.MustParseAddr(dst),
		Proto: nfsim.ProtoTCP, SPort: 1000, DPort: 80, CTState: ct, Sets: map[string]bool{}}
	if memb[src] {
		p.Sets[nfsim.SetKey(r.setName, "src")] = true
	}
	if memb[dst] {
		p.Sets[nfsim.SetKey(r.setName, "dst")] = true
	}
	res, err := r.rs.Eval(r.entry, p, false)
	if err != nil {
		return c41PktResult{}, err
	}
	out := c41PktResult{verdict: res.Verdict}
	for _, l := range res.Logs {
		if strings.Contains(l, c41SentinelPrefix) {
			out.offloaded = true
		}
	}
	return out, nil
}

// ---- oracle ----

func c41Check(st *c41State, hist []c41Ev) []hbfs.Fail {
	if st.dirty {
		return nil // mid-batch
	}
	if !st.flushed {
		return nil
	}
	var fails []hbfs.Fail
	fam := fmt.Sprintf("v%d", st.cfg.ipv)
	exp := st.expected()
	act, programmed := st.actual()
	if !programmed {
		fails = append(fails, hbfs.Fail{Key: "C41:exclusion-set-never-programmed:" + fam, Msg: "after CompleteDeferredWork the no-flow-offload set does not exist in the IP sets dataplane (the offload rule references it) [" + st.envString() + "]"})
		return fails
	}
	var missing, extra []string
	for a := range exp {
		if !act[a] {
			missing = append(missing, a)
		}
	}
	for a := range act {
		if !exp[a] {
			extra = append(extra, a)
		}
	}
	sort.Strings(missing)
	sort.Strings(extra)
	last := "start"
	for i := len(hist) - 1; i >= 0; i-- {
		if hist[i].kind != "flush" {
			last = hist[i].kind
			break
		}
	}
	if len(missing) > 0 {
		fails = append(fails, hbfs.Fail{Key: "C41:endpoint-needing-hooks-not-excluded:" + fam + ":after-" + last,
			Msg: fmt.Sprintf("no-flow-offload set = %v but %v (addresses of endpoints with DSCP / connection / packet-rate limits) are missing [%s]", c41Keys(act), missing, st.envString())})
	}
	if len(extra) > 0 {
		fails = append(fails, hbfs.Fail{Key: "C41:stale-address-excluded:" + fam + ":after-" + last,
			Msg: fmt.Sprintf("no-flow-offload set = %v contains %v which is not a current address of any endpoint needing hooks [%s]", c41Keys(act), extra, st.envString())})
	}
	if m := st.sets.Metadata[rules.IPSetIDNoFlowOffload]; m.Type != ipsets.IPSetTypeHashIP {
		fails = append(fails, hbfs.Fail{Key: "C41:exclusion-set-wrong-type", Msg: fmt.Sprint(m)})
	}
	// the rule, executed against what was actually programmed
	r, err := c41GetRule(st.cfg.ipv)
	if err != nil {
		panic("TOOL: " + err.Error())
	}
	for _, ct := range c41CTStates {
		for si := 0; si < 4; si++ {
			for di := 0; di < 4; di++ {
				if si == di {
					continue
				}
				src, dst := st.addr(si), st.addr(di)
				res, err := r.eval(st.cfg.ipv, ct, src, dst, act, "eth0", "eth1")
				if err != nil {
					panic("TOOL: " + err.Error())
				}
				if !res.offloaded {
					continue
				}
				switch {
				case ct != "ESTABLISHED" && ct != "RELATED":
					fails = append(fails, hbfs.Fail{Key: "C41:offload-of-flow-not-established:" + ct, Msg: fmt.Sprintf("ct state %s %s->%s reaches the flow offload statement", ct, src, dst)})
				case exp[src] || exp[dst]:
					which := "source"
					if exp[dst] {
						which = "destination"
					}
					fails = append(fails, hbfs.Fail{Key: "C41:offload-of-flow-touching-endpoint-needing-hooks:" + which + ":" + fam,
						Msg: fmt.Sprintf("%s packet %s->%s is offloaded although its %s belongs to an endpoint needing per-packet processing; programmed set=%v [%s]", ct, src, dst, which, c41Keys(act), st.envString())})
				}
			}
		}
	}
	return fails
}

func c41Key(st *c41State) string {
	var sb strings.Builder
	fmt.Fprintf(&sb, "%s|dirty=%v/%v|flushed=%v|", st.envString(), st.dirty, st.m.dirty, st.flushed)
	var parts []string
	for id, ips := range st.m.wepIPs {
		parts = append(parts, fmt.Sprintf("%s=%v", id.WorkloadId, ips))
	}
	for id, ips := range st.m.hepIPs {
		parts = append(parts, fmt.Sprintf("%s=%v", id.EndpointId, ips))
	}
	sort.Strings(parts)
	sb.WriteString(strings.Join(parts, ","))
	act, ok := st.actual()
	fmt.Fprintf(&sb, "|set=%v %v", ok, c41Keys(act))
	return sb.String()
}

func c41Spec(cfg c41Cfg, name string, depth int, graph bool) *hbfs.Spec[*c41State, c41Ev] {
	sp := &hbfs.Spec[*c41State, c41Ev]{
		Name:     name,
		New:      func() *c41State { return c41New(cfg) },
		Apply:    c41Apply,
		Enabled:  c41Enabled,
		Check:    c41Check,
		Show:     func(e c41Ev) string { return e.String() },
		MaxDepth: depth,
		Workers:  6,
		Nontrivial: func(st *c41State) bool {
			// an address is held by two endpoints of which at least one needs hooks
			cnt := map[int]int{}
			need := map[int]bool{}
			for _, e := range []*c41EpState{st.weps[0], st.weps[1], st.heps[0]} {
				if e == nil {
					continue
				}
				for _, a := range e.addrs {
					cnt[a]++
					need[a] = need[a] || e.qos.needsHooks()
				}
			}
			for a, n := range cnt {
				if n > 1 && need[a] {
					return !st.dirty
				}
			}
			return false
		},
		Outcome: func(st *c41State) string {
			if st.dirty {
				return "mid-batch"
			}
			act, _ := st.actual()
			return fmt.Sprint(c41Keys(act))
		},
		PanicKey: func(val string, hist []c41Ev) string {
			l := val
			if i := strings.IndexByte(l, '\n'); i >= 0 {
				l = l[:i]
			}
			if len(l) > 100 {
				l = l[:100]
			}
			return "C41:panic:" + l
		},
	}
	if graph {
		sp.Key = c41Key
	}
	return sp
}

// c41RuleTable: the rule alone, over every membership combination (independent of the manager).
func c41RuleTable(c *vk.Ctx, ipv uint8) {
	r, err := c41GetRule(ipv)
	if err != nil {
		c.ToolError(err.Error())
		return
	}
	addrs := c41Addr4
	if ipv == 6 {
		addrs = c41Addr6
	}
	offloadedSome := false
	for _, ct := range c41CTStates {
		for _, srcIn := range []bool{false, true} {
			for _, dstIn := range []bool{false, true} {
				for _, ifs := range [][2]string{{"eth0", "eth1"}, {"cali1", "eth0"}, {"eth0", "cali1"}, {"cali1", "cali2"}} {
					memb := map[string]bool{addrs[0]: srcIn, addrs[1]: dstIn}
					res, err := r.eval(ipv, ct, addrs[0], addrs[1], memb, ifs[0], ifs[1])
					if err != nil {
						c.ToolError(err.Error())
						return
					}
					c.Add("transitions", 1)
					c.Outcome(fmt.Sprintf("rule v%d ct=%s src-in-set=%v dst-in-set=%v -> offload=%v", ipv, ct, srcIn, dstIn, res.offloaded))
					if res.offloaded {
						offloadedSome = true
						if ct != "ESTABLISHED" && ct != "RELATED" {
							c.Violation("C41:offload-of-flow-not-established:"+ct, map[string]any{"ipv": ipv, "ct": ct, "rule": r.lines})
						}
						if srcIn {
							c.Violation(fmt.Sprintf("C41:offload-rule-ignores-set:source:v%d", ipv), map[string]any{"ipv": ipv, "ct": ct, "src_in_set": srcIn, "dst_in_set": dstIn, "rule": r.lines})
						}
						if dstIn {
							c.Violation(fmt.Sprintf("C41:offload-rule-ignores-set:destination:v%d", ipv), map[string]any{"ipv": ipv, "ct": ct, "src_in_set": srcIn, "dst_in_set": dstIn, "rule": r.lines})
						}
					}
				}
			}
		}
	}
	c.Add("states", 1)
	if !offloadedSome {
		c.Extra(fmt.Sprintf("rule_v%d_never_offloads", ipv), true)
		fmt.Printf("INFO C41 v%d: the rendered FORWARD chain never reaches a flow offload statement (vacuous for the rule clause)\n", ipv)
	}
	// offload disabled => no offload statement at all
	if off, err := c41BuildRule(ipv, false); err != nil {
		c.ToolError(err.Error())
	} else {
		res, err := off.eval(ipv, "ESTABLISHED", addrs[0], addrs[1], map[string]bool{}, "eth0", "eth1")
		if err != nil {
			c.ToolError(err.Error())
		} else if res.offloaded {
			c.Violation("C41:offload-rule-rendered-when-disabled", map[string]any{"rule": off.lines})
		}
	}
}

func TestVerif_C41(t *testing.T) {
	logrus.SetLevel(logrus.PanicLevel)
	logrus.StandardLogger().ExitFunc = func(int) { panic("logrus.Fatal") }
	gomega.RegisterFailHandler(func(m string, _ ...int) { panic("gomega: " + m) })
	vk.Run(t, "C41", func(c *vk.Ctx) {
		c.Rule("state = (reference environment: QoS shape + address set of workload endpoints w0,w1 and host endpoint h0; manager's wepIPs/hepIPs/dirty; programmed members of the no-flow-offload set); " +
			"transition = WorkloadEndpointUpdate (15 QoS shapes on the boundary of every clause: DSCP 0/20/63, two policies, empty policy list, connection limit 1 / 2^40, packet rate 1 / 1000+burst, burst without rate, bandwidth/peakrate only, all-zero controls, combinations x address sets {A},{B},{A,B},{}), HostEndpointUpdate (none / DSCP 0 / DSCP 63 / empty policy list x {A},{C},{A,C}), removes (also of absent endpoints), and CompleteDeferredWork (after every event, or as a separate event in the batched system); " +
			"in every flushed state the rendered nft FORWARD chain is executed for 5 conntrack states x 12 (src,dst) address pairs with set membership = what the manager programmed; non-trivial = an address shared by two endpoints of which one needs hooks")
		c.Assume("RELATED packets are treated like ESTABLISHED ones (Felix's 'established' = ct state RELATED,ESTABLISHED); the statement's 'not already established' is enforced for NEW, INVALID and UNTRACKED")
		c.Assume("the 'flow offload @calico' statement is replaced by a sentinel log statement before the text is handed to nfsim (outside its vocabulary); all matches of the rule are interpreted by nfsim from the rendered text")
		c.Assume("set membership seen by the rule = members handed to the IP-sets dataplane under SetID no-flow-offload; the name in the rule is checked to be IPVersionConfig.NameForMainIPSet of that id")
		if rf := c.ReplayFile(); rf != "" {
			var d struct {
				Spec    string
				History []string
			}
			if err := vk.LoadReplay(rf, &d); err != nil {
				c.ToolError(err.Error())
				return
			}
			if d.Spec == "" {
				c41RuleTable(c, 4)
				c41RuleTable(c, 6)
				c.Sample("rule table re-evaluated")
				return
			}
			cfg := c41Cfg{ipv: 4, batched: strings.Contains(d.Spec, "batched")}
			if strings.Contains(d.Spec, "v6") {
				cfg.ipv = 6
			}
			fails, err := hbfs.Replay(c41Spec(cfg, d.Spec, 99, false), d.History)
			if err != nil {
				c.ToolError(err.Error())
			}
			for _, f := range fails {
				c.Violation(f.Key, map[string]any{"spec": d.Spec, "history": d.History, "msg": f.Msg})
			}
			c.Add("states", 1)
			c.Add("transitions", int64(len(d.History)))
			c.Sample(map[string]any{"replayed": d.History})
			return
		}
		for _, ipv := range []uint8{4, 6} {
			r, err := c41GetRule(ipv)
			if err != nil {
				c.ToolError(err.Error())
				return
			}
			if ipv == 4 {
				c.Sample(map[string]any{"rendered_forward_chain_v4": r.lines, "set_name": r.setName})
			}
			if !strings.Contains(strings.Join(r.lines, "\n"), "@"+r.setName) {
				c.Violation(fmt.Sprintf("C41:offload-rule-does-not-reference-exclusion-set:v%d", ipv), map[string]any{"want_set": r.setName, "rule": r.lines})
			}
			c41RuleTable(c, ipv)
		}
		c.Sample(map[string]any{"system": "atomic-v4", "history": []string{"wep(w0,dscp0[0 1])", "wep(w1,conn-in1[0])", "wep(w0,pktburst-without-rate[0 1])", "weprm(w1)"},
			"meaning": "A shared by two limited endpoints; w0 (DSCP 0 = a marking) changes to controls that are not a limit (A must stay, B must go); w1 removed (A must go)"})
		hbfs.Explore(c, c41Spec(c41Cfg{ipv: 4}, "excl-atomic-v4-graph", c.Pick(3, 6), true))
		hbfs.Explore(c, c41Spec(c41Cfg{ipv: 4}, "excl-atomic-v4-tree", c.Pick(2, 3), false))
		hbfs.Explore(c, c41Spec(c41Cfg{ipv: 4, batched: true}, "excl-batched-v4-graph", c.Pick(3, 5), true))
		hbfs.Explore(c, c41Spec(c41Cfg{ipv: 6}, "excl-atomic-v6-graph", c.Pick(3, 5), true))
	})
}

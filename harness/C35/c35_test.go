package markbits

// C35 — mark-bit allocation is collision-free and reversible.

import (
	"fmt"
	"math/bits"
	"runtime"
	"sort"
	"sync"
	"sync/atomic"
	"testing"

	"github.com/sirupsen/logrus"

	"github.com/projectcalico/calico/zzverif/vk"
)

type c35Ev struct {
	Op   string // single | block
	Size int
}

func (e c35Ev) String() string { return fmt.Sprintf("%s:%d", e.Op, e.Size) }

type c35State struct {
	mask   uint32
	m      *MarkBitsManager
	handed uint32 // union of every bit handed out so far
	nOut   int
	bad    []string
	failed int // allocation attempts that failed
}

var c35Events = []c35Ev{{"single", 0}, {"block", 0}, {"block", 1}, {"block", 2}, {"block", 3}, {"block", 5}, {"block", 33}}

func (s *c35State) fail(f string, a ...any) { s.bad = append(s.bad, fmt.Sprintf(f, a...)) }

func c35Apply(s *c35State, e c35Ev) {
	free := bits.OnesCount32(s.mask) - s.nOut
	switch e.Op {
	case "single":
		b, err := s.m.NextSingleBitMark()
		if free == 0 {
			if err == nil {
				s.fail("exhausted:NextSingleBitMark handed out %#x although all %d bits of mask %#x are taken", b, s.nOut, s.mask)
			} else {
				s.failed++
			}
			return
		}
		if err != nil {
			s.fail("premature-failure:NextSingleBitMark failed with %d of %d bits free: %v", free, bits.OnesCount32(s.mask), err)
			return
		}
		switch {
		case bits.OnesCount32(b) != 1:
			s.fail("not-single-bit:NextSingleBitMark returned %#x", b)
		case b&^s.mask != 0:
			s.fail("outside-mask:NextSingleBitMark returned %#x outside mask %#x", b, s.mask)
		case b&s.handed != 0:
			s.fail("duplicate:NextSingleBitMark returned %#x again (already handed out %#x)", b, s.handed)
		}
		s.handed |= b
		s.nOut++
	case "block":
		mark, n := s.m.NextBlockBitsMark(e.Size)
		want := min(e.Size, free)
		if n != want {
			s.fail("block-count:NextBlockBitsMark(%d) reported %d bits with %d free", e.Size, n, free)
		}
		switch {
		case bits.OnesCount32(mark) != n:
			s.fail("block-bits:NextBlockBitsMark(%d) returned %#x for a reported count of %d", e.Size, mark, n)
		case mark&^s.mask != 0:
			s.fail("outside-mask:NextBlockBitsMark returned %#x outside mask %#x", mark, s.mask)
		case mark&s.handed != 0:
			s.fail("duplicate:NextBlockBitsMark returned %#x overlapping earlier hand-outs %#x", mark, s.handed)
		}
		if n < e.Size {
			s.failed++
		}
		s.handed |= mark
		s.nOut += n
	}
}

type c35Fail struct{ Key, Msg string }

func c35Check(s *c35State) []c35Fail {
	var fails []c35Fail
	for _, b := range s.bad {
		k := b
		for i := range b {
			if b[i] == ':' {
				k = b[:i]
				break
			}
		}
		fails = append(fails, c35Fail{Key: "C35:" + k, Msg: fmt.Sprintf("mask %#x: %s", s.mask, b)})
	}
	if got, want := s.m.AvailableMarkBitCount(), bits.OnesCount32(s.mask)-s.nOut; got != want && len(s.bad) == 0 {
		fails = append(fails, c35Fail{Key: "C35:available-count", Msg: fmt.Sprintf("mask %#x: AvailableMarkBitCount()=%d want %d", s.mask, got, want)})
	}
	if s.m.GetMask() != s.mask {
		fails = append(fails, c35Fail{Key: "C35:mask-changed", Msg: fmt.Sprintf("mask %#x: GetMask()=%#x", s.mask, s.m.GetMask())})
	}
	return fails
}

// state key: internal counters + reference; attempts after exhaustion are capped at 2 so the graph is finite
func c35Key(s *c35State) string {
	return fmt.Sprintf("%d/%d/%#x/%d/%d", s.m.numBitsAllocated, s.m.numFreeBits, s.handed, min(s.failed, 2), len(s.bad))
}

func c35Build(mask uint32, hist []c35Ev) (s *c35State, err error) {
	err = vk.Catch(func() error {
		s = &c35State{mask: mask, m: NewMarkBitsManager(mask, "verif")}
		for _, e := range hist {
			c35Apply(s, e)
		}
		return nil
	})
	return
}

func c35Show(h []c35Ev) []string {
	out := make([]string, len(h))
	for i, e := range h {
		out[i] = e.String()
	}
	return out
}

// c35Explore is a breadth-first search over allocation histories of one mask, merging states by
// c35Key, to fixpoint. Each successor is computed by replaying the history on a fresh manager.
func c35Explore(c *vk.Ctx, mask uint32) (states, trans int64) {
	seen := map[string]bool{}
	visit := func(h []c35Ev) (expand bool) {
		s, err := c35Build(mask, h)
		if err != nil {
			c.Violation("C35:panic", map[string]any{"mask": mask, "history": c35Show(h), "panic": err.Error()})
			return false
		}
		fails := c35Check(s)
		for _, f := range fails {
			c.Violation(f.Key, map[string]any{"mask": mask, "history": c35Show(h), "msg": f.Msg})
		}
		k := c35Key(s)
		if s.nOut >= 2 || s.failed > 0 {
			c.Nontrivial(fmt.Sprintf("%#x|%s", mask, k))
		}
		c.Outcome(fmt.Sprintf("bits=%d out=%d failedAttempts=%d", bits.OnesCount32(s.mask), s.nOut, min(s.failed, 2)))
		if seen[k] {
			return false
		}
		seen[k] = true
		states++
		return len(fails) == 0
	}
	visit(nil)
	frontier := [][]c35Ev{nil}
	for len(frontier) > 0 {
		var next [][]c35Ev
		for _, h := range frontier {
			for _, e := range c35Events {
				hh := append(append(make([]c35Ev, 0, len(h)+1), h...), e)
				trans++
				if visit(hh) {
					next = append(next, hh)
				}
			}
		}
		frontier = next
		if c.Expired() {
			c.Capped(fmt.Sprintf("deadline during allocation search of mask %#x", mask))
			break
		}
	}
	return
}

// c35Masks: every mask with <= maxBits bits in a 12-bit window at shifts 0, 8, 20 + structured ones.
func c35Masks(maxBits int) []uint32 {
	seen := map[uint32]bool{}
	var out []uint32
	add := func(m uint32) {
		if !seen[m] {
			seen[m] = true
			out = append(out, m)
		}
	}
	for _, m := range []uint32{0, 1, 1 << 31, 0xffff0000, 0xaaaaaaaa, 0x55555555, 0xfffffffe, 0xffffffff, 0x80000001, 0x0000ffff, 0x7fffffff} {
		add(m)
	}
	for w := uint32(0); w < 1<<12; w++ {
		if bits.OnesCount32(w) > maxBits {
			continue
		}
		for _, sh := range []uint{0, 8, 20} {
			add(w << sh)
		}
	}
	return out
}

// c35RoundTrip checks number -> mark -> number for n, and returns a failure description.
func c35RoundTrip(m *MarkBitsManager, mask uint32, n int) (string, string) {
	mark, err := m.MapNumberToMark(n)
	if err != nil {
		return "number-rejected", fmt.Sprintf("mask %#x: MapNumberToMark(%d) failed although the number fits %d bits: %v", mask, n, bits.OnesCount32(mask), err)
	}
	if mark&^mask != 0 {
		return "mark-outside-mask", fmt.Sprintf("mask %#x: MapNumberToMark(%d)=%#x has bits outside the mask", mask, n, mark)
	}
	back, err := m.MapMarkToNumber(mark)
	if err != nil {
		return "mark-rejected", fmt.Sprintf("mask %#x: MapMarkToNumber(%#x) failed for the mark of number %d: %v", mask, mark, n, err)
	}
	if back != n {
		return "round-trip", fmt.Sprintf("mask %#x: %d -> mark %#x -> %d", mask, n, mark, back)
	}
	return "", ""
}

func c35Bijection(c *vk.Ctx, mask uint32) {
	p := bits.OnesCount32(mask)
	m := NewMarkBitsManager(mask, "verif")
	report := func(k, msg string, n uint64) {
		c.Violation("C35:"+k, map[string]any{"mask": mask, "number": n, "msg": msg})
	}
	total := uint64(1) << uint(p)
	full := p <= 16 || c.Thorough()
	var evals int64
	if full {
		workers := 1
		if p > 20 {
			workers = min(8, runtime.NumCPU())
		}
		var wg sync.WaitGroup
		var stop int32
		chunk := (total + uint64(workers) - 1) / uint64(workers)
		for w := 0; w < workers; w++ {
			lo, hi := uint64(w)*chunk, min(total, uint64(w+1)*chunk)
			wg.Add(1)
			go func() {
				defer wg.Done()
				mm := NewMarkBitsManager(mask, "verif")
				var n uint64
				for n = lo; n < hi; n++ {
					if n&0xfffff == 0 && (atomic.LoadInt32(&stop) == 1 || c.Expired()) {
						atomic.StoreInt32(&stop, 1)
						break
					}
					if k, msg := c35RoundTrip(mm, mask, int(n)); k != "" {
						report(k, msg, n)
						break
					}
				}
				atomic.AddInt64(&evals, int64(n-lo))
			}()
		}
		wg.Wait()
		if stop == 1 {
			c.Capped(fmt.Sprintf("deadline during number<->mark round trip of mask %#x", mask))
		}
	} else {
		// wide mask in the quick tier: numbers with <=2 bits set or <=2 bits clear (within p bits)
		all := total - 1
		try := func(n uint64) {
			evals++
			if k, msg := c35RoundTrip(m, mask, int(n)); k != "" {
				report(k, msg, n)
			}
		}
		try(0)
		try(all)
		for i := 0; i < p; i++ {
			try(1 << uint(i))
			try(all &^ (1 << uint(i)))
			for j := i + 1; j < p; j++ {
				try(1<<uint(i) | 1<<uint(j))
				try(all &^ (1<<uint(i) | 1<<uint(j)))
			}
		}
	}
	// every sub-mask maps to a number below 2^p and back (only for narrow masks)
	if p <= 12 {
		sub := uint32(0)
		for {
			n, err := m.MapMarkToNumber(sub)
			evals++
			if err != nil || n < 0 || uint64(n) >= total {
				report("submask-to-number", fmt.Sprintf("mask %#x: MapMarkToNumber(%#x)=%d,%v", mask, sub, n, err), uint64(sub))
			} else if mk, err := m.MapNumberToMark(n); err != nil || mk != sub {
				report("submask-round-trip", fmt.Sprintf("mask %#x: mark %#x -> %d -> %#x,%v", mask, sub, n, mk, err), uint64(sub))
			}
			if sub == mask {
				break
			}
			sub = (sub - mask) & mask // next sub-mask
		}
	}
	// marks with a bit outside the mask are not "inside the mask": must not be accepted as a number silently equal to another mark's
	for sh := uint(0); sh < 32; sh++ {
		b := uint32(1) << sh
		if mask&b != 0 {
			continue
		}
		evals++
		if n, err := m.MapMarkToNumber(b | mask); err == nil {
			// statement: number<->mark is a bijection between numbers that fit and marks inside the mask;
			// accepting a foreign mark would alias it with the in-mask mark of the same number
			report("foreign-mark-accepted", fmt.Sprintf("mask %#x: MapMarkToNumber(%#x) accepted a mark outside the mask as number %d", mask, b|mask, n), uint64(b|mask))
		}
	}
	// informational: what happens to numbers that do not fit
	if p < 32 {
		if _, err := m.MapNumberToMark(int(total)); err == nil {
			c.Outcome("number 2^bits accepted")
		} else {
			c.Outcome("number 2^bits rejected")
		}
	}
	c.Add("transitions", evals)
	c.Add("roundtrips", evals)
}

// ---- history-based pass: several translation calls on ONE manager --------------------------------

// reference translations (plain bit arithmetic, no state)
func c35RefMark(mask uint32, n uint64) (uint32, bool) {
	var mark uint32
	i := uint(0)
	for sh := uint(0); sh < 32; sh++ {
		if mask&(1<<sh) != 0 {
			if n&(1<<i) != 0 {
				mark |= 1 << sh
			}
			i++
		}
	}
	return mark, n>>i == 0
}

func c35RefNumber(mask, mark uint32) (uint64, bool) {
	if mark&^mask != 0 {
		return 0, false
	}
	var n uint64
	i := uint(0)
	for sh := uint(0); sh < 32; sh++ {
		if mask&(1<<sh) != 0 {
			if mark&(1<<sh) != 0 {
				n |= 1 << i
			}
			i++
		}
	}
	return n, true
}

type c35Call struct {
	Kind string // n2m | m2n | alloc
	N    uint64
	M    uint32
}

func (k c35Call) String() string {
	switch k.Kind {
	case "n2m":
		return fmt.Sprintf("MapNumberToMark(%d)", k.N)
	case "m2n":
		return fmt.Sprintf("MapMarkToNumber(%#x)", k.M)
	}
	return "NextSingleBitMark()"
}

// c35CallAlphabet: numbers that fit (all of them for <=5 bits, boundary ones above), numbers that do NOT fit,
// marks inside the mask (all sub-masks for <=5 bits, boundary ones and the marks of the chosen numbers above),
// one mark with a foreign bit, and one allocation call.
func c35CallAlphabet(mask uint32) []c35Call {
	p := bits.OnesCount32(mask)
	total := uint64(1) << uint(p)
	nset := map[uint64]bool{}
	mset := map[uint32]bool{}
	if p <= 5 {
		for n := uint64(0); n < total; n++ {
			nset[n] = true
		}
		sub := uint32(0)
		for {
			mset[sub] = true
			if sub == mask {
				break
			}
			sub = (sub - mask) & mask
		}
	} else {
		for _, n := range []uint64{0, 1, 2, total - 1, total - 2, total >> 1} {
			nset[n] = true
			mk, _ := c35RefMark(mask, n)
			mset[mk] = true
		}
		mset[mask&-mask] = true
		mset[mask&^(mask&-mask)] = true
	}
	if p < 32 {
		// refused numbers; their low bits coincide with fitting numbers 0, 1, max and a middle one
		for _, n := range []uint64{total, total + 1, 2*total - 1, total + total>>1, 3 * total} {
			if n < 1<<32 {
				nset[n] = true
			}
		}
	}
	var out []c35Call
	var ns []uint64
	for n := range nset {
		ns = append(ns, n)
	}
	sort.Slice(ns, func(i, j int) bool { return ns[i] < ns[j] })
	for _, n := range ns {
		out = append(out, c35Call{Kind: "n2m", N: n})
	}
	var ms []uint32
	for m := range mset {
		ms = append(ms, m)
	}
	sort.Slice(ms, func(i, j int) bool { return ms[i] < ms[j] })
	for _, m := range ms {
		out = append(out, c35Call{Kind: "m2n", M: m})
	}
	for sh := uint(0); sh < 32; sh++ {
		if mask&(1<<sh) == 0 {
			out = append(out, c35Call{Kind: "m2n", M: mask&-mask | 1<<sh})
			break
		}
	}
	out = append(out, c35Call{Kind: "alloc"})
	return out
}

// c35Histories runs every sequence of `length` calls on one manager and checks every answer that the statement
// defines (numbers that fit, marks inside the mask) against the stateless reference; calls the statement is silent
// about (numbers that do not fit) are executed for their side effects only.
func c35Histories(c *vk.Ctx, mask uint32, length int) (seqs, calls int64) {
	alpha := c35CallAlphabet(mask)
	idx := make([]int, length)
	reported := false
	for {
		m := NewMarkBitsManager(mask, "verif")
		seqs++
		for step, ai := range idx {
			k := alpha[ai]
			calls++
			var msg, key string
			switch k.Kind {
			case "n2m":
				got, err := m.MapNumberToMark(int(k.N))
				want, fits := c35RefMark(mask, k.N)
				if fits && (err != nil || got != want) {
					key, msg = "history:number-to-mark", fmt.Sprintf("%v = %#x,%v want %#x", k, got, err, want)
				} else if !fits && err == nil {
					c.Outcome("refused-number accepted in some history")
					if got&^mask != 0 {
						key, msg = "history:mark-outside-mask", fmt.Sprintf("%v = %#x outside the mask", k, got)
					}
				}
			case "m2n":
				got, err := m.MapMarkToNumber(k.M)
				want, inside := c35RefNumber(mask, k.M)
				if inside && (err != nil || got < 0 || uint64(got) != want) {
					key, msg = "history:mark-to-number", fmt.Sprintf("%v = %d,%v want %d", k, got, err, want)
				} else if !inside && err == nil {
					key, msg = "history:foreign-mark-accepted", fmt.Sprintf("%v = %d accepted", k, got)
				}
			case "alloc":
				_, _ = m.NextSingleBitMark()
			}
			if key != "" && !reported {
				reported = true
				var h []string
				for _, j := range idx[:step+1] {
					h = append(h, alpha[j].String())
				}
				c.Violation("C35:"+key, map[string]any{"mask": mask, "calls": h, "msg": fmt.Sprintf("mask %#x after %v: %s", mask, h[:step], msg)})
			}
		}
		// next sequence
		i := length - 1
		for ; i >= 0; i-- {
			idx[i]++
			if idx[i] < len(alpha) {
				break
			}
			idx[i] = 0
		}
		if i < 0 {
			break
		}
	}
	return
}

func TestVerif_C35(t *testing.T) {
	logrus.SetLevel(logrus.PanicLevel)
	vk.Run(t, "C35", func(c *vk.Ctx) {
		maxBits := 12
		c.Rule(fmt.Sprintf("configurations = masks with <=%d bits in a 12-bit window at shifts 0/8/20 + 11 structured masks; per mask: states = (numBitsAllocated, numFreeBits, union of bits handed out, failed-attempt count<=2), "+
			"transitions = one real NextSingleBitMark / NextBlockBitsMark(0,1,2,3,5,33) call replayed on a fresh manager, explored to fixpoint; plus one transition per number->mark->number round trip (all numbers < 2^bits; "+
			"for masks wider than 16 bits in the quick tier: numbers with <=2 bits set or clear); plus, per mask, every sequence of 2 (3 for masks of <=3 bits; thorough: 3 except 4-5 bits) calls of MapNumberToMark / MapMarkToNumber / NextSingleBitMark on ONE manager over all numbers+sub-masks (<=5 bits) or boundary ones, incl. numbers that do not fit and a foreign mark, every defined answer compared with a stateless reference; non-trivial = >=2 bits handed out or an allocation attempt on an exhausted mask", maxBits))
		if rf := c.ReplayFile(); rf != "" {
			var d struct {
				History []string
				Calls   []string
				Mask    uint32
			}
			if err := vk.LoadReplay(rf, &d); err != nil {
				c.ToolError(err.Error())
				return
			}
			if d.Calls != nil {
				// call-history violations: re-enumerate the histories of that length for that mask
				c35Histories(c, d.Mask, len(d.Calls))
			} else if d.History != nil {
				var h []c35Ev
				for _, x := range d.History {
					var e c35Ev
					for _, cand := range c35Events {
						if cand.String() == x {
							e = cand
						}
					}
					if e.Op == "" {
						c.ToolError("replay: unknown event " + x)
						return
					}
					h = append(h, e)
				}
				st, err := c35Build(d.Mask, h)
				if err != nil {
					c.Violation("C35:panic", map[string]any{"mask": d.Mask, "history": d.History, "panic": err.Error()})
				} else {
					for _, f := range c35Check(st) {
						c.Violation(f.Key, map[string]any{"mask": d.Mask, "history": d.History, "msg": f.Msg})
					}
				}
			} else {
				c35Bijection(c, d.Mask)
			}
			c.Add("states", 1)
			c.Add("transitions", 1)
			return
		}
		masks := c35Masks(maxBits)
		c.Extra("masks", len(masks))
		c.Sample(map[string]any{"mask": "0x00000b00", "history": []string{"single:0", "block:2", "single:0", "block:1"},
			"oracle": "hand-outs 0x100, 0xa00 distinct single bits/blocks inside the mask; 4th and 5th attempt must fail; numbers 0..7 <-> marks round trip"})
		// allocation sequences: one explicit-state search per mask, masks spread over workers
		var next int64 = -1
		var wg sync.WaitGroup
		for w := 0; w < 6; w++ {
			wg.Add(1)
			go func() {
				defer wg.Done()
				for {
					i := int(atomic.AddInt64(&next, 1))
					if i >= len(masks) || c.Expired() {
						return
					}
					st, tr := c35Explore(c, masks[i])
					c.Add("states", st)
					c.Add("transitions", tr)
				}
			}()
		}
		wg.Wait()
		if c.Expired() {
			c.Capped("deadline during allocation searches")
		}
		fmt.Printf("enum markbits allocation: %d masks, states=%d transitions=%d\n", len(masks), c.Get("states"), c.Get("transitions"))
		for _, m := range masks {
			if c.Expired() {
				c.Capped("deadline during round trips")
				break
			}
			c35Bijection(c, m)
		}
		fmt.Printf("enum markbits round trips: %d evaluations\n", c.Get("roundtrips"))
		// history-based pass: all call sequences of length 3 (masks <= 3 bits, and every mask in the thorough tier) / 2 (others)
		var hnext int64 = -1
		var hseq, hcalls int64
		var hwg sync.WaitGroup
		for w := 0; w < 6; w++ {
			hwg.Add(1)
			go func() {
				defer hwg.Done()
				for {
					i := int(atomic.AddInt64(&hnext, 1))
					if i >= len(masks) {
						return
					}
					if c.Expired() {
						c.Capped("deadline during call-history enumeration")
						return
					}
					l := 2
					if p := bits.OnesCount32(masks[i]); p <= 3 || (c.Thorough() && p != 4 && p != 5) {
						l = 3
					}
					sq, cl := c35Histories(c, masks[i], l)
					atomic.AddInt64(&hseq, sq)
					atomic.AddInt64(&hcalls, cl)
				}
			}()
		}
		hwg.Wait()
		c.Add("states", hseq)
		c.Add("transitions", hcalls)
		c.Extra("call_histories", hseq)
		fmt.Printf("enum markbits call histories: %d sequences, %d calls\n", hseq, hcalls)
	})
}

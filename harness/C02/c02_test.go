package calc

// C02 — Felix's output stream never references something the dataplane lacks.
//
// Oracle: the shadow dataplane (engine/shadowdp) replays EVERY message emitted during the history
// (with flush as a free event: after every update, after batches, only at the end are all paths of
// the search) and during the final probe flush, and checks on each message:
//   - IPSetDeltaUpdate: the set exists, added members are absent, removed members are present;
//   - ActivePolicyUpdate / ActiveProfileUpdate: every IP set named by a rule exists;
//   - Workload/HostEndpointUpdate: every policy in every tier list and every profile id exists;
//   - IPSetRemove / ActivePolicyRemove / ActiveProfileRemove: the object exists and nothing in the
//     dataplane still references it; every other *Remove names an existing object;
//   - inside one flush: no RouteUpdate through VXLAN node N before N's VTEP update, no VTEP remove of N
//     before the RouteRemove of a route through N;
//   - in-sync clause: see c02_insync_test.go (real AsyncCalcGraph loop, lock-stepped).

import (
	"testing"

	"github.com/projectcalico/calico/zzverif/hbfs"
)

func c02Check(x *vcRun, s *vcState, hist []vcEv) []hbfs.Fail {
	var fails []hbfs.Fail
	seen := map[string]bool{}
	for _, f := range s.g.dp.Fails {
		k := "C02:" + f.Class
		if seen[k] {
			continue
		}
		seen[k] = true
		fails = append(fails, hbfs.Fail{Key: k, Msg: f.Msg + " (datastore {" + s.dsString() + "})"})
	}
	if s.g.dp.InSync {
		fails = append(fails, hbfs.Fail{Key: "C02:insync-from-synchronous-graph", Msg: "the synchronous graph emitted proto.InSync"})
	}
	return fails
}

func TestVerif_C02(t *testing.T) {
	vcMain(t, &vcProp{ID: "C02", Check: c02Check, After: c02InSync, QuickBatchBases: map[string][]string{"pol": {"full"}, "set": {"full"}}},
		"states = (datastore content, in-sync flag, shadow dataplane content, EventSequencer pending-object digest) reached by histories of "+
			"set(key,variant)/del(key)/flush/insync over three universes (pol, set, route), each from an empty graph and from a fully populated, in-sync, flushed graph; "+
			"flush is a free event, so every placement of flush points up to the depth bound is a path; transitions = one event replayed on a fresh real graph; "+
			"every emitted proto message is checked by the shadow dataplane against what it holds at that moment; non-trivial = the probed dataplane holds at least one "+
			"endpoint, route, IP set or VTEP; in-sync clause: every {update,status,tick} sequence up to the bound through the real AsyncCalcGraph.loop() in lock-step",
		"VXLAN ordering is only demanded inside one flush batch (what the sequencer promises); a route whose node never had a VTEP is legal",
		"an IPSetUpdate for a set the dataplane already has is a replacement (remove + re-add coalesced), not a violation")
}

package calc

// C02, in-sync clause: "in-sync is never reported before the datastore reported it".
//
// proto.InSync is produced only by AsyncCalcGraph.loop()/maybeFlush(). The REAL loop() is run in a
// goroutine with its input channel replaced by an unbuffered one and its flush ticker by a
// driver-owned channel. The driver is the only producer of inputs and the only consumer of outputs:
// it offers the next input and drains outputs in one select, so an input is accepted only when the
// loop is back in its top-level select, i.e. after every output caused by the earlier inputs has been
// received. Every sequence over {update A, update B, status ResyncInProgress, status InSync, flush
// tick} up to the bound is executed.

import (
	"fmt"
	"time"

	"github.com/projectcalico/calico/felix/config"
	"github.com/projectcalico/calico/felix/proto"
	"github.com/projectcalico/calico/libcalico-go/lib/backend/api"
	"github.com/projectcalico/calico/libcalico-go/lib/backend/model"
	"github.com/projectcalico/calico/zzverif/vk"
)

type c02Poison struct{}

func c02RunAsync(u *vcUniverse, seq []string) (outputs []string, inSyncConsumedAt int, firstInSyncMsgAfter int) {
	conf := config.New()
	conf.FelixHostname = vcLocal
	conf.Encapsulation = config.Encapsulation{VXLANEnabled: true}
	out := make(chan any)
	acg := NewAsyncCalcGraph(conf, []chan<- any{out}, nil, nil)
	in := make(chan any)
	acg.inputEvents = in
	ticks := make(chan time.Time)
	acg.flushTicks = ticks
	done := make(chan struct{})
	go func() {
		defer close(done)
		defer func() { _ = recover() }() // the poison value makes loop() panic: that is how it is stopped
		acg.loop()
	}()
	inSyncConsumedAt = -1
	firstInSyncMsgAfter = -1
	accepted := 0
	record := func(m any) {
		outputs = append(outputs, fmt.Sprintf("%d:%T", accepted, m))
		if _, ok := m.(*proto.InSync); ok && firstInSyncMsgAfter < 0 {
			firstInSyncMsgAfter = accepted
		}
	}
	offer := func(toIn any, tick bool) {
		for {
			if tick {
				select {
				case m := <-out:
					record(m)
				case ticks <- time.Time{}:
					return
				}
			} else {
				select {
				case m := <-out:
					record(m)
				case in <- toIn:
					return
				}
			}
		}
	}
	for _, e := range seq {
		switch e {
		case "tick":
			offer(nil, true)
		case "resync":
			offer(api.ResyncInProgress, false)
		case "insync":
			offer(api.InSync, false)
			if inSyncConsumedAt < 0 {
				inSyncConsumedAt = accepted + 1
			}
		default:
			ev := u.ev(e)
			kd := u.Keys[ev.K]
			offer([]api.Update{{KVPair: model.KVPair{Key: kd.Key, Value: kd.Vars[ev.V].Make()}, UpdateType: api.UpdateTypeKVNew}}, false)
		}
		accepted++
	}
	// barrier: two more ticks, so that everything caused by seq (+ one tick) has been drained
	offer(nil, true)
	accepted++
	offer(nil, true)
	accepted++
	// stop the loop
	for stopped := false; !stopped; {
		select {
		case m := <-out:
			record(m)
		case in <- c02Poison{}:
			stopped = true
		}
	}
	for {
		select {
		case m := <-out:
			record(m)
			continue
		case <-done:
		}
		break
	}
	return
}

func c02InSync(x *vcRun) {
	c := x.c
	u := vcUniversePol()
	alpha := []string{"w1=A", "p1rules=allow", "resync", "insync", "tick"}
	depth := c.Pick(5, 7)
	var seqs, evs, withMsg int64
	var rec func(seq []string)
	rec = func(seq []string) {
		if c.Expired() {
			c.Capped("in-sync clause: deadline")
			return
		}
		if len(seq) > 0 {
			var outs []string
			var consumedAt, msgAfter int
			err := vk.Catch(func() error {
				outs, consumedAt, msgAfter = c02RunAsync(u, seq)
				return nil
			})
			seqs++
			evs += int64(len(seq)) + 2
			if err != nil {
				c.Violation("C02:insync:panic", map[string]any{"sequence": seq, "panic": err.Error()})
				return
			}
			if msgAfter >= 0 {
				withMsg++
				c.Nontrivial("insync|" + fmt.Sprint(seq))
				// msgAfter = number of inputs accepted when the first proto.InSync was received
				if consumedAt < 0 || msgAfter < consumedAt {
					c.Violation("C02:insync-before-datastore-insync", map[string]any{"sequence": seq, "outputs": outs,
						"msg": fmt.Sprintf("proto.InSync was emitted after %d inputs, but the datastore's InSync status is input #%d (-1 = never sent)", msgAfter, consumedAt)})
				}
			}
			c.Outcome(fmt.Sprintf("insync-clause|msg=%v|status=%v", msgAfter >= 0, consumedAt >= 0))
		}
		if len(seq) == depth {
			return
		}
		for _, a := range alpha {
			rec(append(append([]string{}, seq...), a))
		}
	}
	rec(nil)
	c.Add("states", seqs)
	c.Add("transitions", evs)
	c.Extra("insync_clause", map[string]any{"alphabet": alpha, "depth": depth, "sequences": seqs, "sequences_with_InSync_message": withMsg})
	fmt.Printf("enum insync-clause: sequences=%d depth=%d with-InSync-msg=%d\n", seqs, depth, withMsg)
}

package rules

// C37, clause "the same identity always gets the same name" under concurrent callers: Felix calls the
// naming functions from several goroutines. The anchored files are rebuilt with package sync replaced by
// the scheduling shim zzverif/synchook (vcheck rewrite of the `"sync"` import; a no-op while those files
// use no locks), and EVERY interleaving of 2 and 3 callers at the lock operations is executed; every
// caller's result must equal the result of the same call made alone.

import (
	"fmt"

	"github.com/projectcalico/calico/felix/types"
	"github.com/projectcalico/calico/libcalico-go/lib/hash"
	"github.com/projectcalico/calico/zzverif/synchook"
	"github.com/projectcalico/calico/zzverif/vk"
)

type c37Call struct {
	name string
	f    func() string
}

func c37ConcCalls() []c37Call {
	long1 := "aaaaaaaaaaaaaaaaaaaaaaaaaaaaaaaaaaaa"
	long2 := "bbbbbbbbbbbbbbbbbbbbbbbbbbbbbbbbbbbb"
	pid := func(n string) *types.PolicyID {
		return &types.PolicyID{Name: n, Kind: "GlobalNetworkPolicy"}
	}
	return []c37Call{
		{"limited(long1)", func() string { return hash.GetLengthLimitedID("cali-", long1, 28) }},
		{"limited(long2)", func() string { return hash.GetLengthLimitedID("cali-", long2, 28) }},
		{"limited(short)", func() string { return hash.GetLengthLimitedID("cali-", "short", 28) }},
		{"limited(_marker)", func() string { return hash.GetLengthLimitedID("cali-", "_x", 28) }},
		{"unique(s,long1)", func() string { return hash.MakeUniqueID("s", long1) }},
		{"policy-chain(long1)", func() string { return PolicyChainName(PolicyInboundPfx, pid(long1), false) }},
		{"policy-chain(long2,nft)", func() string { return PolicyChainName(PolicyOutboundPfx, pid(long2), true) }},
		{"profile-chain(long2)", func() string { return ProfileChainName(ProfileInboundPfx, &types.ProfileID{Name: long2}, false) }},
		{"endpoint-chain(long1)", func() string { return EndpointChainName(WorkloadToEndpointPfx, long1, 28) }},
	}
}

// c37SchedSelfTest: the explorer must find the lost update of a check-then-act toy over a hooked mutex,
// must not report the correctly locked version, and must reproduce the failing schedule on replay.
func c37SchedSelfTest(c *vk.Ctx) bool {
	toy := func(atomicUpdate bool) func() ([]func(), func(synchook.Result) string) {
		return func() ([]func(), func(synchook.Result) string) {
			var mu synchook.Mutex
			x := 0
			body := func() {
				mu.Lock()
				v := x
				if !atomicUpdate {
					mu.Unlock()
					mu.Lock()
				}
				x = v + 1
				mu.Unlock()
			}
			return []func(){body, body}, func(synchook.Result) string {
				if x != 2 {
					return fmt.Sprintf("lost update: x=%d", x)
				}
				return ""
			}
		}
	}
	var bad [][]int
	st, err := synchook.Explore(toy(false), -1, 10000, func(ch []int, _ []string, _ string) { bad = append(bad, ch) })
	if err != nil || len(bad) == 0 {
		c.ToolError(fmt.Sprintf("synchook self-test: seeded lost update not found (executions=%d err=%v)", st.Executions, err))
		return false
	}
	for i := 0; i < 2; i++ {
		if _, msg, err := synchook.Replay(toy(false), bad[0]); err != nil || msg == "" {
			c.ToolError(fmt.Sprintf("synchook self-test: failing schedule %v did not reproduce on replay %d (msg=%q err=%v)", bad[0], i, msg, err))
			return false
		}
	}
	good := 0
	st2, err := synchook.Explore(toy(true), -1, 10000, func([]int, []string, string) { good++ })
	if err != nil || good != 0 || st2.Executions < 2 {
		c.ToolError(fmt.Sprintf("synchook self-test: correctly locked toy reported %d failures in %d executions (err=%v)", good, st2.Executions, err))
		return false
	}
	c.Extra("synchook_selftest", map[string]any{"lost_update_schedules": len(bad), "executions_buggy": st.Executions, "executions_correct": st2.Executions, "replayed_twice": true})
	return true
}

func c37Concurrency(c *vk.Ctx) {
	if !c37SchedSelfTest(c) {
		return
	}
	synchook.LockOps.Store(0)
	calls := c37ConcCalls()
	alone := make([]string, len(calls))
	for i, cl := range calls {
		alone[i] = cl.f()
	}
	var execs, decisions, combos int64
	explore := func(ix []int) {
		combos++
		got := make([]string, len(ix))
		mk := func() ([]func(), func(synchook.Result) string) {
			bodies := make([]func(), len(ix))
			for t := range ix {
				t := t
				bodies[t] = func() { got[t] = calls[ix[t]].f() }
			}
			check := func(synchook.Result) string {
				for t := range ix {
					if got[t] != alone[ix[t]] {
						return fmt.Sprintf("caller %d %s got %q, alone it gets %q", t, calls[ix[t]].name, got[t], alone[ix[t]])
					}
				}
				return ""
			}
			return bodies, check
		}
		names := make([]string, len(ix))
		for t := range ix {
			names[t] = calls[ix[t]].name
		}
		st, err := synchook.Explore(mk, -1, 200000, func(choices []int, trace []string, msg string) {
			c.Violation("C37:name-depends-on-concurrent-callers", map[string]any{"callers": names, "schedule": choices, "trace": trace, "msg": msg})
		})
		if err != nil {
			c.ToolError("C37 concurrency slice: " + err.Error())
			return
		}
		if st.Capped {
			c.Capped(fmt.Sprintf("C37 concurrency slice: schedule cap hit for callers %v", names))
		}
		execs += st.Executions
		decisions += st.Decisions
	}
	n := len(calls)
	for a := 0; a < n; a++ {
		for b := 0; b < n; b++ {
			explore([]int{a, b})
		}
	}
	// three callers: the four GetLengthLimitedID shapes and one of each chain-name function
	for _, tr := range [][]int{{0, 1, 2}, {0, 1, 0}, {1, 0, 3}, {0, 5, 6}, {5, 6, 7}, {0, 8, 7}, {4, 0, 1}} {
		explore(tr)
	}
	c.Add("transitions", execs)
	c.Add("schedules", execs)
	c.Extra("concurrency_slice", map[string]any{"caller_combinations": combos, "schedules_executed": execs, "scheduling_decisions": decisions,
		"hooked_lock_operations_seen": synchook.LockOps.Load(),
		"note": "hooked_lock_operations_seen == 0 means the naming code takes no lock in the rewritten files: each call is one atomic block and the schedules are the caller orders"})
	fmt.Printf("sched C37 concurrency: combos=%d schedules=%d decisions=%d lock-ops=%d\n", combos, execs, decisions, synchook.LockOps.Load())
}

package rules

// C37 — length-limited kernel object names never collide, fit the limit, and are deterministic.
//
// Bounded-exhaustive enumeration of identities through the REAL naming functions
// (hash.GetLengthLimitedID, PolicyChainName, ProfileChainName, EndpointChainName,
// PolicyGroup.ChainName, IPVersionConfig.NameForMainIPSet / NameForTempIPSet, nftables.LegalizeSetName).
// Every produced name is filed in the name space it lives in (all chains of one table flavour share a
// name space; IP sets share one); a second, different identity producing the same name is a violation.

import (
	"fmt"
	"sort"
	"strings"
	"testing"

	"github.com/sirupsen/logrus"

	"github.com/projectcalico/calico/felix/ipsets"
	"github.com/projectcalico/calico/felix/iptables"
	"github.com/projectcalico/calico/felix/nftables"
	"github.com/projectcalico/calico/felix/types"
	"github.com/projectcalico/calico/libcalico-go/lib/hash"
	"github.com/projectcalico/calico/zzverif/vk"
)

type c37Entry struct {
	ident     string // class + identity
	class     string
	shortened bool
}

type c37Space struct {
	name  string
	names map[string]c37Entry
}

type c37Run struct {
	c       *vk.Ctx
	evals   int64
	idents  int64
	minHash int // below this many hash characters a clash of two shortened names is a truncated-hash collision (out of scope)
}

// file records name for identity ident in space sp and checks limit, prefix and injectivity.
func (r *c37Run) file(sp *c37Space, class, prefix, ident, name string, maxLen int, shortened bool, hashChars int) {
	r.evals++
	full := class + "|" + ident
	if len(name) > maxLen {
		r.c.Violation("C37:too-long:"+class, map[string]any{"space": sp.name, "class": class, "identity": ident, "name": name, "limit": maxLen})
	}
	if !strings.HasPrefix(name, prefix) {
		r.c.Violation("C37:prefix-lost:"+class, map[string]any{"space": sp.name, "class": class, "identity": ident, "name": name, "prefix": prefix})
	}
	if old, ok := sp.names[name]; ok {
		if old.ident == full {
			return // same identity again (determinism is checked by the callers)
		}
		if old.shortened && shortened && hashChars < r.minHash {
			r.c.Outcome("truncated-hash collision with <" + fmt.Sprint(r.minHash) + " hash chars (out of scope)")
			return
		}
		a, b := old.class, class
		if a > b {
			a, b = b, a
		}
		kind := map[bool]string{true: "shortened", false: "verbatim"}
		k1, k2 := kind[old.shortened], kind[shortened]
		if k1 > k2 {
			k1, k2 = k2, k1
		}
		r.c.Violation(fmt.Sprintf("C37:collision:%s-vs-%s:%s-vs-%s", a, b, k1, k2),
			map[string]any{"space": sp.name, "name": name, "identity1": old.ident, "identity2": full})
		return
	}
	sp.names[name] = c37Entry{ident: full, class: class, shortened: shortened}
	r.idents++
	if shortened || len(name) == maxLen {
		r.c.Nontrivial(sp.name + "|" + full)
	}
	r.c.Outcome(fmt.Sprintf("%s %s len-vs-limit=%d", class, map[bool]string{true: "shortened", false: "verbatim"}[shortened], c37Clamp(len(name)-maxLen)))
}

// call runs one real naming call twice (determinism) and converts a panic into a violation.
func (r *c37Run) call(flavour, class, ident string, f func() string) (string, bool) {
	var n1, n2 string
	err := vk.Catch(func() error {
		n1 = f()
		n2 = f()
		return nil
	})
	if err != nil {
		r.evals++
		kind := class
		if i := strings.Index(kind, ":"); i >= 0 {
			kind = kind[:i]
		}
		key := fmt.Sprintf("C37:panic:%s:%s", flavour, kind)
		if strings.Contains(err.Error(), "slice bounds out of range") {
			key = fmt.Sprintf("C37:shortening-panics-when-limit-exceeds-hash-length:%s:%s", flavour, kind)
		}
		r.c.Violation(key, map[string]any{"flavour": flavour, "class": class, "identity": ident, "identity_length": len(ident), "panic": err.Error()})
		r.c.Outcome(flavour + " " + kind + " PANIC")
		return "", false
	}
	if n1 != n2 {
		r.c.Violation("C37:nondeterministic:"+class, map[string]any{"identity": ident, "names": []string{n1, n2}})
	}
	return n1, true
}

func c37Clamp(d int) int {
	if d < -3 {
		return -3
	}
	return d
}

// reference classification (only used to label entries and pick adversarial identities)
func c37Shortened(prefix, suffix string, maxLen int) bool {
	t := len(prefix) + len(suffix)
	return t > maxLen || (t == maxLen && strings.HasPrefix(suffix, "_"))
}

// c37Strings: every string of length l over alphabet whose free positions are the first 2 and the last k
// characters (the middle is filled with alphabet[0]); all strings of that length if l <= 2+k.
func c37Strings(alphabet string, l, k int, f func(string)) {
	if l <= 0 {
		return
	}
	free := make([]int, 0, l)
	for i := 0; i < l; i++ {
		if i < 2 || i >= l-k {
			free = append(free, i)
		}
	}
	buf := []byte(strings.Repeat(alphabet[:1], l))
	var rec func(j int)
	rec = func(j int) {
		if j == len(free) {
			f(string(buf))
			return
		}
		for x := 0; x < len(alphabet); x++ {
			buf[free[j]] = alphabet[x]
			rec(j + 1)
		}
	}
	rec(0)
}

func c37Lens(limit int, extra ...int) []int {
	set := map[int]bool{}
	for _, l := range append([]int{1, 2, 3, limit - 2, limit - 1, limit, limit + 1, limit + 2, limit + 9}, extra...) {
		if l >= 1 {
			set[l] = true
		}
	}
	var out []int
	for l := range set {
		out = append(out, l)
	}
	sort.Ints(out)
	return out
}

var c37Kinds = []string{"NetworkPolicy", "GlobalNetworkPolicy", "StagedNetworkPolicy", "StagedGlobalNetworkPolicy",
	"StagedKubernetesNetworkPolicy", "KubernetesNetworkPolicy", "KubernetesClusterNetworkPolicy", "_x"}

var c37EndpointPfx = []string{WorkloadToEndpointPfx, WorkloadFromEndpointPfx, SetEndPointMarkPfx, HostToEndpointPfx, HostFromEndpointPfx,
	HostToEndpointForwardPfx, HostFromEndpointForwardPfx, WorkloadARPPfx}

func TestVerif_C37(t *testing.T) {
	logrus.SetLevel(logrus.PanicLevel)
	vk.Run(t, "C37", func(c *vk.Ctx) {
		k := c.Pick(7, 10)
		c.Rule(fmt.Sprintf("identities = names over the alphabet {a,_} (free positions: first 2 and last %d characters) of every length 1-3, limit-2..limit+2 and limit+9 for each naming function and table flavour "+
			"(iptables limit 28, nftables limit 256), x all 7 policy kinds + an unknown kind starting with the marker x namespaces {none,n,_n} x both directions; all 8 endpoint chain prefixes; "+
			"every shortened name is fed back as an identity of its own (adversarial: an object literally named like another's shortened form); policy groups over 4 selectors x both directions x all policy sequences of length <=3 from 12 policies in which kind, namespace and name each vary alone (same name/namespace across enforced, staged and kubernetes kinds); "+
			"IP set ids = 9 static ids + MakeUniqueID(s|n|svc|svcnoport, 600 contents), v4+v6, main and temp names, nft-legalised; small-scale: every suffix over {a,b,_} up to length limit+2 for limits 4..8. "+
			"states = distinct (class, identity) filed; transitions = real naming calls; non-trivial = name shortened or exactly at the limit", k))
		c.Assume("the empty identity is outside the domain (GetLengthLimitedID maps it to the marker \"_\" on purpose, so \"\" and \"_\" share a name; no Calico object has an empty name)")
		c.Assume("IP set ids are the ones Felix generates (hash.MakeUniqueID) or its static ids; NameForMainIPSet truncates by design and relies on ids being hashes")
		c.Assume("a clash of two SHORTENED names is a collision of the truncated SHA-256 (probabilistic, out of scope) when fewer than 16 hash characters remain; with >= 16 characters it is reported")
		r := &c37Run{c: c, minHash: 16}
		if c.ReplayFile() != "" {
			c.Extra("replay", "C37 is a pure enumeration: the full quick enumeration is re-run")
		}

		// ---- 1. GetLengthLimitedID directly, small limits, ALL suffixes over {a,b,_} ----------------
		for _, pfx := range []string{"", "p", "p-"} {
			for lim := len(pfx) + 2; lim <= len(pfx)+6; lim++ {
				sp := &c37Space{name: fmt.Sprintf("direct[%q,%d]", pfx, lim), names: map[string]c37Entry{}}
				for l := 1; l <= lim-len(pfx)+2; l++ {
					c37Strings("ab_", l, l, func(s string) {
						n1, ok := r.call("direct", "direct", s, func() string { return hash.GetLengthLimitedID(pfx, string([]byte(s)), lim) })
						if !ok {
							return
						}
						r.file(sp, "direct", pfx, s, n1, lim, c37Shortened(pfx, s, lim), lim-1-len(pfx))
					})
				}
			}
		}

		// ---- 2. chains: one name space per table flavour ------------------------------------------
		for _, nft := range []bool{false, true} {
			maxLen := iptables.MaxChainNameLength
			flavour := "iptables"
			if nft {
				maxLen = nftables.MaxChainNameLength
				flavour = "nftables"
			}
			sp := &c37Space{name: "chains/" + flavour, names: map[string]c37Entry{}}
			var feedback [][2]string // (class prefix, suffix) of shortened names to feed back as identities

			// profiles
			for _, pfx := range []ProfileChainNamePrefix{ProfileInboundPfx, ProfileOutboundPfx} {
				lim := maxLen - len(pfx)
				profile := func(s string) {
					n1, ok := r.call(flavour, "profile:"+string(pfx), s, func() string {
						return ProfileChainName(pfx, &types.ProfileID{Name: string([]byte(s))}, nft)
					})
					if !ok {
						return
					}
					sh := c37Shortened(string(pfx), s, maxLen)
					r.file(sp, "profile:"+string(pfx), string(pfx), s, n1, maxLen, sh, maxLen-1-len(pfx))
					if sh && strings.HasPrefix(n1, string(pfx)) && !strings.HasPrefix(s, "_fb") {
						feedback = append(feedback, [2]string{"profile:" + string(pfx), n1[len(pfx):]})
					}
				}
				for _, l := range c37Lens(lim) {
					c37Strings("a_", l, k, profile)
				}
			}
			// policies
			for _, pfx := range []PolicyChainNamePrefix{PolicyInboundPfx, PolicyOutboundPfx} {
				for _, kind := range c37Kinds {
					for _, ns := range []string{"", "n", "_n"} {
						probe := types.PolicyID{Kind: kind, Namespace: ns, Name: ""}
						base := len(probe.ID()) // "<short>/" or "<short>/<ns>/"
						lim := maxLen - len(pfx) - base
						for _, l := range c37Lens(lim) {
							c37Strings("a_", l, k, func(s string) {
								id := types.PolicyID{Kind: kind, Namespace: ns, Name: s}
								n1, ok := r.call(flavour, "policy:"+string(pfx), id.String(), func() string {
									id2 := types.PolicyID{Kind: kind, Namespace: ns, Name: string([]byte(s))}
									return PolicyChainName(pfx, &id2, nft)
								})
								if !ok {
									return
								}
								r.file(sp, "policy:"+string(pfx), string(pfx), id.String(), n1, maxLen, c37Shortened(string(pfx), id.ID(), maxLen), maxLen-1-len(pfx))
							})
						}
					}
				}
			}
			// endpoints (interface names)
			for _, pfx := range c37EndpointPfx {
				lim := maxLen - len(pfx)
				ep := func(s string) {
					n1, ok := r.call(flavour, "endpoint:"+pfx, s, func() string { return EndpointChainName(pfx, string([]byte(s)), maxLen) })
					if !ok {
						return
					}
					sh := c37Shortened(pfx, s, maxLen)
					r.file(sp, "endpoint:"+pfx, pfx, s, n1, maxLen, sh, maxLen-1-len(pfx))
					if sh && strings.HasPrefix(n1, pfx) && !strings.HasPrefix(s, "_fb") {
						feedback = append(feedback, [2]string{"endpoint:" + pfx, n1[len(pfx):]})
					}
				}
				lens := c37Lens(lim, 15)
				if nft {
					// interface names cannot come anywhere near the 256-character nftables limit (IFNAMSIZ = 16)
					lens = []int{1, 2, 3, 14, 15, 16}
				}
				for _, l := range lens {
					c37Strings("a_", l, k, ep)
				}
			}
			// adversarial feedback: an object literally named like another object's shortened name
			for _, fb := range feedback {
				cls, s := fb[0], fb[1]
				pfx := cls[strings.Index(cls, ":")+1:]
				n1, ok := r.call(flavour, cls, s, func() string {
					if strings.HasPrefix(cls, "profile:") {
						return ProfileChainName(ProfileChainNamePrefix(pfx), &types.ProfileID{Name: s}, nft)
					}
					return EndpointChainName(pfx, s, maxLen)
				})
				if !ok {
					continue
				}
				r.file(sp, cls, pfx, s, n1, maxLen, c37Shortened(pfx, s, maxLen), maxLen-1-len(pfx))
			}
			c.Extra("feedback_identities/"+flavour, len(feedback))
			// policy groups (same names in both flavours)
			// member policies chosen so that every field varies ALONE at least once: same (namespace, name) across
			// kinds (enforced / staged / kubernetes variants), same (kind, name) across namespaces, same (kind,
			// namespace) across names, and a pair whose namespace+name concatenations coincide
			pols := []*types.PolicyID{
				{Kind: "NetworkPolicy", Namespace: "n", Name: "a"},
				{Kind: "NetworkPolicy", Namespace: "n", Name: "b"},
				{Kind: "NetworkPolicy", Namespace: "m", Name: "a"},
				{Kind: "StagedNetworkPolicy", Namespace: "n", Name: "a"},
				{Kind: "KubernetesNetworkPolicy", Namespace: "n", Name: "a"},
				{Kind: "StagedKubernetesNetworkPolicy", Namespace: "n", Name: "a"},
				{Kind: "GlobalNetworkPolicy", Name: "a"},
				{Kind: "GlobalNetworkPolicy", Name: "b"},
				{Kind: "StagedGlobalNetworkPolicy", Name: "a"},
				{Kind: "KubernetesClusterNetworkPolicy", Name: "a"},
				{Kind: "NetworkPolicy", Namespace: "na", Name: "b"},
				{Kind: "NetworkPolicy", Namespace: "n", Name: "ab"},
			}
			var seqs [][]*types.PolicyID
			var rec func(cur []*types.PolicyID)
			rec = func(cur []*types.PolicyID) {
				seqs = append(seqs, append([]*types.PolicyID(nil), cur...))
				if len(cur) == 3 {
					return
				}
				for _, p := range pols {
					rec(append(cur, p))
				}
			}
			rec(nil)
			for _, dir := range []PolicyDirection{PolicyDirectionInbound, PolicyDirectionOutbound} {
				for _, sel := range []string{"", "all()", "a == 'b'", "a == 'b' "} {
					for _, seq := range seqs {
						g := &PolicyGroup{Direction: dir, Selector: sel, Policies: seq}
						n1 := g.ChainName()
						n1b := g.ChainName() // cached path
						g2 := &PolicyGroup{Direction: dir, Selector: sel, Policies: append([]*types.PolicyID(nil), seq...)}
						if n2 := g2.ChainName(); n1 != n2 || n1 != n1b {
							c.Violation("C37:nondeterministic:group", map[string]any{"names": []string{n1, n1b, n2}})
						}
						var ids []string
						for _, p := range seq {
							ids = append(ids, p.String())
						}
						pfx := PolicyGroupInboundPrefix
						if dir == PolicyDirectionOutbound {
							pfx = PolicyGroupOutboundPrefix
						}
						r.file(sp, "group:"+pfx, pfx, fmt.Sprintf("%s|%q|%v", dir, sel, ids), n1, iptables.MaxChainNameLength, true, len(n1)-len(pfx))
					}
				}
			}
			c.Extra("names/"+sp.name, len(sp.names))
		}

		// ---- 3. IP sets ---------------------------------------------------------------------------
		for _, nft := range []bool{false, true} {
			sp := &c37Space{name: map[bool]string{false: "ipsets/kernel", true: "ipsets/nftables"}[nft], names: map[string]c37Entry{}}
			var ids []string
			ids = append(ids, IPSetIDDSCPEndpoints, IPSetIDNoFlowOffload, IPSetIDNetworkPools, IPSetIDNATOutgoingMasqPools, IPSetIDAllHostNets,
				IPSetIDAllVXLANSourceNets, IPSetIDThisHostIPs, IPSetIDAllIstioWEPs, "all-ipam-pools")
			for _, p := range []string{"s", "n", "svc", "svcnoport"} {
				for i := 0; i < 600; i++ {
					ids = append(ids, hash.MakeUniqueID(p, fmt.Sprintf("content-%d", i)))
				}
			}
			for _, fam := range []ipsets.IPFamily{ipsets.IPFamilyV4, ipsets.IPFamilyV6} {
				cfg := ipsets.NewIPVersionConfig(fam, IPSetNamePrefix, AllHistoricIPSetNamePrefixes, nil)
				cfg2 := ipsets.NewIPVersionConfig(fam, IPSetNamePrefix, AllHistoricIPSetNamePrefixes, nil)
				pfx := IPSetNamePrefix + map[ipsets.IPFamily]string{ipsets.IPFamilyV4: "4", ipsets.IPFamilyV6: "6"}[fam]
				for _, id := range ids {
					n1, n2 := cfg.NameForMainIPSet(id), cfg2.NameForMainIPSet(id)
					if nft {
						n1, n2 = nftables.LegalizeSetName(n1), nftables.LegalizeSetName(n2)
					}
					if n1 != n2 {
						c.Violation("C37:nondeterministic:ipset", map[string]any{"id": id, "names": []string{n1, n2}})
					}
					if !cfg.OwnsIPSet(n1) && !nft {
						c.Violation("C37:ipset-not-owned", map[string]any{"id": id, "name": n1})
					}
					// a truncated id is a truncated hash: "shortened" for the purpose of the collision rule
					trunc := len(pfx)+1+len(id) > ipsets.MaxIPSetNameLength
					hashChars := ipsets.MaxIPSetNameLength - len(pfx) - 1 - (strings.Index(id, ":") + 1)
					r.file(sp, "ipset-main", pfx, string(fam)+"|"+id, n1, ipsets.MaxIPSetNameLength, trunc, hashChars)
				}
				for n := uint(0); n < 300; n++ {
					n1 := cfg.NameForTempIPSet(n)
					if !cfg.IsTempIPSetName(n1) {
						c.Violation("C37:temp-name-not-recognised", map[string]any{"n": n, "name": n1})
					}
					r.file(sp, "ipset-temp", pfx, fmt.Sprintf("%s|temp-%d", fam, n), n1, ipsets.MaxIPSetNameLength, false, 99)
				}
			}
			c.Extra("names/"+sp.name, len(sp.names))
		}

		c.Add("states", r.idents)
		c.Add("transitions", r.evals)
		c.Sample(map[string]any{"space": "chains/iptables", "class": "profile:cali-pri-",
			"identities": []string{"_aaaaaaaaaaaaaaaaaa (19 chars: exactly at the limit, starts with the marker -> must be hashed)", "aaaaaaaaaaaaaaaaaaa (19 chars: verbatim)", "aaaaaaaaaaaaaaaaaaaa (20 chars: hashed)",
				"the 19-character tail of the previous identity's hashed name, used as a profile name of its own"},
			"oracle": "four distinct names, each <= 28 characters, each starting with cali-pri-"})
		fmt.Printf("enum C37 identities=%d naming-calls=%d\n", r.idents, r.evals)
		c37Concurrency(c)
	})
}

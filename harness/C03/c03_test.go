package calc

// C03 — each local endpoint gets exactly its matching policies, correctly ordered.
//
// Oracle: a reference computed from the current datastore content only (values that fail validation
// count as absent), written from the property statement and independent of the graph's indexes:
//   effective labels = own labels, plus labels of the endpoint's profiles for names the endpoint does
//     not set itself;
//   matching = the policy's selector (parsed by the real selector package, evaluated on a plain map);
//   tiers that exist: ascending order, unset order last, then name;
//   inside a tier: ascending order, unset order last, then name;
//   ingress / egress lists by the policy's types (no types = both);
//   host endpoints additionally: untracked tiers (doNotTrack policies), pre-DNAT tiers (preDNAT
//     policies, ingress only) and forward tiers (normal policies with applyOnForward); a tier appears in
//     a list iff it has at least one ingress or egress policy there; untracked / pre-DNAT policies are
//     host-endpoint policies and are not listed on workload endpoints;
//   active policies in the dataplane = exactly the union of the matches of the local endpoints.
// Under-specified by the statement, therefore accepted as the code does it: where a tier that has no
// Tier resource is placed, and its default action. Membership and intra-tier order are still checked
// for such tiers.

import (
	"fmt"
	"sort"
	"strings"
	"testing"

	v3 "github.com/projectcalico/api/pkg/apis/projectcalico/v3"

	"github.com/projectcalico/calico/felix/proto"
	"github.com/projectcalico/calico/libcalico-go/lib/backend/model"
	"github.com/projectcalico/calico/libcalico-go/lib/selector"
	"github.com/projectcalico/calico/zzverif/hbfs"
	"github.com/projectcalico/calico/zzverif/shadowdp"
)

type c03Tier struct {
	Name    string
	Ingress []string
	Egress  []string
}

func (t c03Tier) String() string {
	return fmt.Sprintf("%s{in:%v eg:%v}", t.Name, t.Ingress, t.Egress)
}

type c03Pol struct {
	id    string
	name  string
	order *float64
	pol   *model.Policy
}

// c03OrderLess: ascending order, unset last.
func c03OrderLess(a, b *float64) (less, equal bool) {
	switch {
	case a == nil && b == nil:
		return false, true
	case a == nil:
		return false, false
	case b == nil:
		return true, false
	case *a == *b:
		return false, true
	}
	return *a < *b, false
}

type c03World struct {
	tiers    map[string]*model.Tier
	pols     []c03Pol
	profLab  map[string]map[string]string
	localEPs map[string]c03EP // "wep orch/w1/ep" / "hep he1"
}

type c03EP struct {
	labels   map[string]string
	profiles []string
}

func c03WorldOf(s *vcState) *c03World {
	w := &c03World{tiers: map[string]*model.Tier{}, profLab: map[string]map[string]string{}, localEPs: map[string]c03EP{}}
	for k, kd := range s.u.Keys {
		val := s.valid(k)
		if val == nil {
			continue
		}
		switch key := kd.Key.(type) {
		case model.TierKey:
			w.tiers[key.Name] = val.(*model.Tier)
		case model.PolicyKey:
			p := val.(*model.Policy)
			w.pols = append(w.pols, c03Pol{id: key.Kind + "/" + key.Namespace + "/" + key.Name, name: key.Name, order: p.Order, pol: p})
		case model.ResourceKey:
			if key.Kind == v3.KindProfile {
				w.profLab[key.Name] = val.(*v3.Profile).Spec.LabelsToApply
			}
		case model.WorkloadEndpointKey:
			if key.Hostname == vcLocal {
				e := val.(*model.WorkloadEndpoint)
				w.localEPs["wep "+key.OrchestratorID+"/"+key.WorkloadID+"/"+key.EndpointID] = c03EP{labels: e.Labels.RecomputeOriginalMap(), profiles: e.ProfileIDs}
			}
		case model.HostEndpointKey:
			if key.Hostname == vcLocal {
				e := val.(*model.HostEndpoint)
				w.localEPs["hep "+key.EndpointID] = c03EP{labels: e.Labels.RecomputeOriginalMap(), profiles: e.ProfileIDs}
			}
		}
	}
	return w
}

func (w *c03World) effectiveLabels(ep c03EP) map[string]string {
	eff := map[string]string{}
	for k, v := range ep.labels {
		eff[k] = v
	}
	for _, p := range ep.profiles {
		for k, v := range w.profLab[p] {
			if _, own := eff[k]; !own {
				eff[k] = v
			}
		}
	}
	return eff
}

// expected returns the tier lists for an endpoint: those of existing tiers in order, and those of
// tiers without a Tier resource by name.
// c03InList says whether a policy belongs to the given per-endpoint list kind: "normal" (neither
// untracked nor pre-DNAT), "untracked" (doNotTrack), "prednat" (preDNAT, ingress only), "forward"
// (normal policies with applyOnForward; host endpoints only).
func c03InList(p *model.Policy, kind string) bool {
	switch kind {
	case "untracked":
		return p.DoNotTrack
	case "prednat":
		return !p.DoNotTrack && p.PreDNAT
	case "forward":
		return !p.DoNotTrack && !p.PreDNAT && p.ApplyOnForward
	}
	return !p.DoNotTrack && !p.PreDNAT
}

func (w *c03World) expected(ep c03EP, kind string) (ordered []c03Tier, missing map[string]c03Tier, matched []string) {
	eff := w.effectiveLabels(ep)
	byTier := map[string][]c03Pol{}
	for _, p := range w.pols {
		sel, err := selector.Parse(p.pol.Selector)
		if err != nil {
			panic(fmt.Sprintf("harness bug: valid policy with unparsable selector %q", p.pol.Selector))
		}
		if sel.Evaluate(eff) {
			matched = append(matched, p.id)
			if c03InList(p.pol, kind) {
				byTier[p.pol.Tier] = append(byTier[p.pol.Tier], p)
			}
		}
	}
	mk := func(name string, ps []c03Pol) c03Tier {
		sort.SliceStable(ps, func(i, j int) bool {
			less, eq := c03OrderLess(ps[i].order, ps[j].order)
			if eq {
				return ps[i].name < ps[j].name
			}
			return less
		})
		t := c03Tier{Name: name}
		for _, p := range ps {
			in, eg := len(p.pol.Types) == 0, len(p.pol.Types) == 0
			for _, ty := range p.pol.Types {
				if strings.EqualFold(ty, "ingress") {
					in = true
				}
				if strings.EqualFold(ty, "egress") {
					eg = true
				}
			}
			if in {
				t.Ingress = append(t.Ingress, p.id)
			}
			if eg && kind != "prednat" {
				t.Egress = append(t.Egress, p.id)
			}
		}
		return t
	}
	var names []string
	for n := range byTier {
		if _, ok := w.tiers[n]; ok {
			names = append(names, n)
		}
	}
	sort.Slice(names, func(i, j int) bool {
		less, eq := c03OrderLess(w.tiers[names[i]].Order, w.tiers[names[j]].Order)
		if eq {
			return names[i] < names[j]
		}
		return less
	})
	for _, n := range names {
		if t := mk(n, byTier[n]); len(t.Ingress)+len(t.Egress) > 0 {
			ordered = append(ordered, t)
		}
	}
	missing = map[string]c03Tier{}
	for n, ps := range byTier {
		if _, ok := w.tiers[n]; !ok {
			if t := mk(n, ps); len(t.Ingress)+len(t.Egress) > 0 {
				missing[n] = t
			}
		}
	}
	return
}

// c03StaleMetadataExplains reports whether the emitted existing-tier lists equal the reference computed
// with one policy's order/types/tier replaced by those of another valid variant of the same key.
func c03StaleMetadataExplains(s *vcState, w *c03World, ep c03EP, got []c03Tier) bool {
	for k, kd := range s.u.Keys {
		pk, ok := kd.Key.(model.PolicyKey)
		if !ok || s.valid(k) == nil {
			continue
		}
		id := pk.Kind + "/" + pk.Namespace + "/" + pk.Name
		for v, vr := range kd.Vars {
			if v == s.ds[k] || vr.Invalid {
				continue
			}
			old := vr.Make().(*model.Policy)
			w2 := *w
			w2.pols = nil
			for _, p := range w.pols {
				if p.id == id {
					cp := *p.pol
					cp.Order, cp.Types, cp.Tier = old.Order, old.Types, old.Tier
					p = c03Pol{id: p.id, name: p.name, order: cp.Order, pol: &cp}
				}
				w2.pols = append(w2.pols, p)
			}
			ordered, _, _ := w2.expected(ep, "normal")
			if fmt.Sprint(ordered) == fmt.Sprint(got) {
				return true
			}
		}
	}
	return false
}

func c03Emitted(tiers []*proto.TierInfo) []c03Tier {
	var out []c03Tier
	for _, t := range tiers {
		ct := c03Tier{Name: t.Name}
		for _, p := range t.IngressPolicies {
			ct.Ingress = append(ct.Ingress, shadowdp.PolID(p))
		}
		for _, p := range t.EgressPolicies {
			ct.Egress = append(ct.Egress, shadowdp.PolID(p))
		}
		out = append(out, ct)
	}
	return out
}

func c03Check(x *vcRun, s *vcState, hist []vcEv) []hbfs.Fail {
	var fails []hbfs.Fail
	add := func(key, f string, a ...any) {
		fails = append(fails, hbfs.Fail{Key: "C03:" + key, Msg: fmt.Sprintf(f, a...) + " (datastore {" + s.dsString() + "})"})
	}
	w := c03WorldOf(s)
	dp := s.g.dp
	union := map[string]bool{}
	for id, ep := range w.localEPs {
		type listT struct {
			name, kind string
			emitted    []c03Tier
		}
		var lists []listT
		if strings.HasPrefix(id, "wep ") {
			e := dp.WEPs[strings.TrimPrefix(id, "wep ")]
			if e == nil {
				add("local-endpoint-not-sent", "local endpoint %s is valid in the datastore but the dataplane does not have it", id)
				continue
			}
			lists = []listT{{"tiers", "normal", c03Emitted(e.Tiers)}}
		} else {
			e := dp.HEPs[strings.TrimPrefix(id, "hep ")]
			if e == nil {
				add("local-endpoint-not-sent", "local endpoint %s is valid in the datastore but the dataplane does not have it", id)
				continue
			}
			lists = []listT{
				{"tiers", "normal", c03Emitted(e.Tiers)},
				{"untrackedTiers", "untracked", c03Emitted(e.UntrackedTiers)},
				{"preDnatTiers", "prednat", c03Emitted(e.PreDnatTiers)},
				{"forwardTiers", "forward", c03Emitted(e.ForwardTiers)},
			}
		}
		for _, l := range lists {
			emitted := l.emitted
			sfx := ""
			if l.kind != "normal" {
				sfx = ":" + l.name
			}
			ordered, missing, matched := w.expected(ep, l.kind)
			for _, m := range matched {
				union[m] = true
			}
			var gotOrdered []c03Tier
			seen := map[string]bool{}
			for _, t := range emitted {
				if seen[t.Name] {
					add("tier-listed-twice"+sfx, "%s %s lists tier %s twice: %v", id, l.name, t.Name, emitted)
				}
				seen[t.Name] = true
				if _, exists := w.tiers[t.Name]; exists {
					gotOrdered = append(gotOrdered, t)
					continue
				}
				want, ok := missing[t.Name]
				if !ok {
					add("unexpected-tier"+sfx, "%s %s lists tier %s which has no matching policy: emitted %v", id, l.name, t.Name, emitted)
					continue
				}
				if fmt.Sprint(want) != fmt.Sprint(t) {
					add("policies-of-tierless-tier"+sfx, "%s %s, tier %s (no Tier resource): emitted %v, want %v", id, l.name, t.Name, t, want)
				}
			}
			for n, want := range missing {
				if !seen[n] {
					add("matching-policy-not-listed"+sfx, "%s %s: policies %v match but their tier %s (no Tier resource) is not listed: emitted %v", id, l.name, want, n, emitted)
				}
			}
			if fmt.Sprint(gotOrdered) != fmt.Sprint(ordered) {
				key := "policy-list"
				// classify: membership vs order
				flat := func(ts []c03Tier) string {
					var all []string
					for _, t := range ts {
						for _, p := range t.Ingress {
							all = append(all, t.Name+"/in/"+p)
						}
						for _, p := range t.Egress {
							all = append(all, t.Name+"/eg/"+p)
						}
					}
					sort.Strings(all)
					return strings.Join(all, ",")
				}
				if flat(gotOrdered) == flat(ordered) {
					key = "policy-order"
				} else {
					key = "policy-membership"
				}
				// Diagnosis for a more specific key: is the emitted list what the reference gives when ONE
				// policy keeps its current selector but has the order/types/tier of another (earlier)
				// variant of itself? Then the graph is using stale metadata for that policy.
				if l.kind == "normal" && c03StaleMetadataExplains(s, w, ep, gotOrdered) {
					key = "stale-policy-metadata"
				}
				add(key+sfx, "%s %s (effective labels %v): emitted tiers %v, reference %v", id, l.name, w.effectiveLabels(ep), gotOrdered, ordered)
			}
		}
	}
	// endpoints in the dataplane that are not valid local endpoints
	for id := range dp.WEPs {
		if _, ok := w.localEPs["wep "+id]; !ok {
			add("stale-endpoint", "dataplane has workload endpoint %s which is not a valid local endpoint", id)
		}
	}
	for id := range dp.HEPs {
		if _, ok := w.localEPs["hep "+id]; !ok {
			add("stale-endpoint", "dataplane has host endpoint %s which is not a valid local endpoint", id)
		}
	}
	// only policies that apply to some local endpoint are sent — and all of those are
	for id := range dp.Policies {
		if !union[id] {
			add("policy-sent-without-local-match", "policy %s is active in the dataplane but matches no local endpoint", id)
		}
	}
	for id := range union {
		if _, ok := dp.Policies[id]; !ok {
			add("matching-policy-not-active", "policy %s matches a local endpoint but is not active in the dataplane", id)
		}
	}
	return fails
}

func TestVerif_C03(t *testing.T) {
	vcMain(t, &vcProp{ID: "C03", Check: c03Check, Universes: []string{"pol", "set"}, QuickBatchBases: map[string][]string{"pol": {"empty", "full"}}},
		"states = (datastore content, in-sync flag, shadow dataplane content, EventSequencer pending-object digest) reached by histories of "+
			"set(key,variant)/del(key)/flush/insync over universe pol (2 tiers with orders 10/20/30/unset incl. an order tie, 2 policies with orders 1/2/unset incl. a tie, "+
			"types ingress/egress/both/none, selectors on own, inherited and overridden labels, tier moves, a policy variant that fails validation; WEP with two label/profile variants, HEP, "+
			"profile labels present/empty/invalid) and universe set (selectors matched through remote endpoints and network sets), each from an empty graph and from a fully populated, "+
			"in-sync, flushed graph; transitions = one event replayed on a fresh real graph; in every state: probe (in-sync + flush) then compare every local endpoint's tier lists and "+
			"the active-policy set with the reference; non-trivial = the probed dataplane holds at least one endpoint, IP set, route or VTEP",
		"where a tier without a Tier resource is placed, and its default action, is not specified by the statement and is accepted as emitted",
		"precedence between two profiles that set the same label is not specified; the universe avoids that conflict")
}

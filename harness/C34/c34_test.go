package authorizer

// C34 — tiered policy authorization is correct and race-free.
//
// Shape S (schedule enumeration) + bounded-exhaustive input enumeration of the REAL
// AuthorizeTierOperation:
//
//   - the wrapped k8s authorizer is a fake that answers from a *question table* (who / verb / group /
//     resource / subresource / name / namespace -> decision, reason, error), so that the oracle is
//     stated on what the user may do and not on the order or number of calls made;
//   - each Authorize call blocks on its own channel; the driver waits until the three spawned
//     goroutines are parked inside the fake and releases them in every permutation, waiting for the
//     released goroutine to terminate before releasing the next one (plus one free-running schedule);
//   - every combination of {Allow,Deny,NoOpinion} x {nil,error} for the three questions, and for the
//     answer given to any other question, is enumerated for every request shape.
//
// The binary is built with -race. The parent test process never runs the code under test: it spawns
// itself twice as a child:
//   enum child: GORACE=report_bugs=0   -> functional verdicts of the enumeration
//   race child: race reports to a log  -> the SAME enumeration observed by the happens-before race
//                                         detector (dynamic race detection)

import (
	"context"
	"encoding/json"
	"errors"
	"fmt"
	"os"
	"os/exec"
	"path/filepath"
	"regexp"
	"runtime"
	"sort"
	"strconv"
	"strings"
	"sync"
	"testing"
	"time"

	"github.com/sirupsen/logrus"
	k8serrors "k8s.io/apimachinery/pkg/api/errors"
	"k8s.io/apiserver/pkg/authentication/user"
	k8sauth "k8s.io/apiserver/pkg/authorization/authorizer"
	genericapirequest "k8s.io/apiserver/pkg/endpoints/request"

	"github.com/projectcalico/calico/zzverif/vk"
)

// ---------------------------------------------------------------------------------------------
// request shapes

type c34Shape struct {
	Verb        string
	Resource    string
	Namespace   string
	Name        string // request name ("" for collection verbs)
	Subresource string
	Tier        string
	PolicyName  string // the policyName argument (only used for the error text)
	NoUser      bool
	Class       string // input class used in violation keys
}

const c34Group = "projectcalico.org"

func c34Shapes(thorough bool) []c34Shape {
	var out []c34Shape
	type res struct{ r, ns string }
	ress := []res{{"globalnetworkpolicies", ""}, {"networkpolicies", "ns1"}}
	named := []string{"get", "update", "delete"}
	unnamed := []string{"list", "create"}
	if thorough {
		ress = append(ress, res{"stagednetworkpolicies", "ns1"}, res{"stagedglobalnetworkpolicies", ""}, res{"stagedkubernetesnetworkpolicies", "ns2"})
		named = append(named, "patch", "watch")
		unnamed = append(unnamed, "watch", "deletecollection")
	}
	for _, r := range ress {
		for _, v := range named {
			out = append(out, c34Shape{Verb: v, Resource: r.r, Namespace: r.ns, Name: "t1.pol", Tier: "t1", PolicyName: "t1.pol", Class: "named"})
		}
		for _, v := range unnamed {
			out = append(out, c34Shape{Verb: v, Resource: r.r, Namespace: r.ns, Name: "", Tier: "t1", PolicyName: "", Class: "unnamed"})
		}
	}
	// new-style bare policy name; tier that is not a prefix of the name
	out = append(out,
		c34Shape{Verb: "get", Resource: "globalnetworkpolicies", Name: "pol", Tier: "t1", PolicyName: "pol", Class: "bare-name"},
		c34Shape{Verb: "delete", Resource: "networkpolicies", Namespace: "ns1", Name: "pol", Tier: "default", PolicyName: "pol", Class: "bare-name"},
		// the request name IS the tier wildcard: the policy question and the wildcard question coincide
		c34Shape{Verb: "get", Resource: "globalnetworkpolicies", Name: "t1.*", Tier: "t1", PolicyName: "t1.*", Class: "wildcard-name"},
		c34Shape{Verb: "update", Resource: "networkpolicies", Namespace: "ns1", Name: "t1.*", Tier: "t1", PolicyName: "t1.*", Class: "wildcard-name"},
		// subresource request
		c34Shape{Verb: "update", Resource: "networkpolicies", Namespace: "ns1", Name: "t1.pol", Subresource: "status", Tier: "t1", PolicyName: "t1.pol", Class: "subresource"},
		// no user in the context
		c34Shape{Verb: "get", Resource: "globalnetworkpolicies", Name: "t1.pol", Tier: "t1", PolicyName: "t1.pol", NoUser: true, Class: "no-user"},
		// a tier whose name contains a dot, policyName argument different from the request name
		c34Shape{Verb: "create", Resource: "networkpolicies", Namespace: "ns1", Name: "", Tier: "a.b", PolicyName: "a.b.pol", Class: "unnamed"},
	)
	return out
}

var c34User = &user.DefaultInfo{Name: "alice", UID: "u1", Groups: []string{"g1"}}

func (s c34Shape) ctx() context.Context {
	ctx := genericapirequest.NewContext()
	if !s.NoUser {
		ctx = genericapirequest.WithUser(ctx, c34User)
	}
	if s.Namespace != "" {
		ctx = genericapirequest.WithNamespace(ctx, s.Namespace)
	}
	p := "/apis/" + c34Group + "/v3/"
	if s.Namespace != "" {
		p += "namespaces/" + s.Namespace + "/"
	}
	p += s.Resource
	if s.Name != "" {
		p += "/" + s.Name
	}
	if s.Subresource != "" {
		p += "/" + s.Subresource
	}
	ri := &genericapirequest.RequestInfo{
		IsResourceRequest: true, Path: p, Verb: s.Verb, APIGroup: c34Group, APIVersion: "v3",
		Resource: s.Resource, Subresource: s.Subresource, Namespace: s.Namespace, Name: s.Name,
	}
	return genericapirequest.WithRequestInfo(ctx, ri)
}

// ---------------------------------------------------------------------------------------------
// the question table (what the user may do)

type c34Q struct {
	User, Verb, Group, Resource, Subresource, Name, Namespace string
	ResourceRequest                                            bool
}

func c34QOf(a k8sauth.Attributes) c34Q {
	u := "<none>"
	if usr := a.GetUser(); usr != nil {
		u = usr.GetName()
	}
	return c34Q{User: u, Verb: a.GetVerb(), Group: a.GetAPIGroup(), Resource: a.GetResource(), Subresource: a.GetSubresource(),
		Name: a.GetName(), Namespace: a.GetNamespace(), ResourceRequest: a.IsResourceRequest()}
}

func (s c34Shape) userName() string {
	if s.NoUser {
		return "<none>"
	}
	return c34User.Name
}

// the three questions of the statement
func (s c34Shape) qTier() c34Q {
	return c34Q{User: s.userName(), Verb: "get", Group: c34Group, Resource: "tiers", Name: s.Tier, ResourceRequest: true}
}
func (s c34Shape) qPolicy() c34Q {
	return c34Q{User: s.userName(), Verb: s.Verb, Group: c34Group, Resource: "tier." + s.Resource, Subresource: s.Subresource,
		Name: s.Name, Namespace: s.Namespace, ResourceRequest: true}
}
func (s c34Shape) qWildcard() c34Q {
	q := s.qPolicy()
	q.Name = s.Tier + ".*"
	return q
}

// answers: index 0..5 = decision (Allow, Deny, NoOpinion) x error (no, yes)
type c34Ans int

var c34Decisions = []k8sauth.Decision{k8sauth.DecisionAllow, k8sauth.DecisionDeny, k8sauth.DecisionNoOpinion}

func (a c34Ans) dec() k8sauth.Decision { return c34Decisions[int(a)/2] }
func (a c34Ans) hasErr() bool          { return int(a)%2 == 1 }
func (a c34Ans) String() string {
	n := map[k8sauth.Decision]string{k8sauth.DecisionAllow: "Allow", k8sauth.DecisionDeny: "Deny", k8sauth.DecisionNoOpinion: "NoOpinion"}[a.dec()]
	if a.hasErr() {
		n += "+err"
	}
	return n
}

// may: 1 yes (Allow, no error), 0 no (not Allow), -1 statement silent (Allow together with an error)
func (a c34Ans) may() int {
	if a.dec() != k8sauth.DecisionAllow {
		return 0
	}
	if a.hasErr() {
		return -1
	}
	return 1
}

type c34Call struct {
	q       c34Q
	kind    int // 0 tier, 1 policy, 2 wildcard, 3 other
	release chan struct{}
}

type c34Fake struct {
	table   map[c34Q]c34Ans
	def     c34Ans
	kinds   map[c34Q]int
	block   bool
	arrived chan *c34Call
	mu      sync.Mutex
	asked   []c34Q
	other   int
}

func (f *c34Fake) Authorize(ctx context.Context, a k8sauth.Attributes) (k8sauth.Decision, string, error) {
	q := c34QOf(a)
	ans, ok := f.table[q]
	kind := 3
	if ok {
		kind = f.kinds[q]
	} else {
		ans = f.def
	}
	f.mu.Lock()
	f.asked = append(f.asked, q)
	if !ok {
		f.other++
	}
	f.mu.Unlock()
	if f.block {
		c := &c34Call{q: q, kind: kind, release: make(chan struct{})}
		f.arrived <- c
		<-c.release
	}
	var err error
	if ans.hasErr() {
		err = fmt.Errorf("injected error for %s/%s", q.Resource, q.Name)
	}
	return ans.dec(), "reason-" + ans.String(), err
}

func (f *c34Fake) ConditionsAwareAuthorize(ctx context.Context, a k8sauth.Attributes) k8sauth.ConditionsAwareDecision {
	return k8sauth.ConditionsAwareDecisionFromParts(f.Authorize(ctx, a))
}

func (f *c34Fake) EvaluateConditions(ctx context.Context, d k8sauth.ConditionsAwareDecision, data k8sauth.ConditionsData) (k8sauth.Decision, string, error) {
	return k8sauth.DecisionDeny, "", k8sauth.ErrorConditionEvaluationNotSupported
}

// ---------------------------------------------------------------------------------------------
// one execution under one schedule

// schedules: 0..5 = the permutations of (tier, policy, wildcard) completion; 6 = free running
var c34Perms = [][3]int{{0, 1, 2}, {0, 2, 1}, {1, 0, 2}, {1, 2, 0}, {2, 0, 1}, {2, 1, 0}}

const c34FreeRun = 6

type c34Case struct {
	Shape c34Shape
	Tier  c34Ans // answer to "get the tier"
	Pol   c34Ans // answer to "operation on the policy name"
	Wild  c34Ans // answer to "operation on the tier wildcard"
	Def   c34Ans // answer to any other question
	Sched int
}

func (c c34Case) String() string {
	return fmt.Sprintf("%s %s/%s ns=%q name=%q sub=%q tier=%s nouser=%v | tier=%s policy=%s wildcard=%s other=%s | sched=%d",
		c.Shape.Verb, c.Shape.Resource, c.Shape.Class, c.Shape.Namespace, c.Shape.Name, c.Shape.Subresource, c.Shape.Tier, c.Shape.NoUser,
		c.Tier, c.Pol, c.Wild, c.Def, c.Sched)
}

type c34Result struct {
	Returned    bool
	Allowed     bool
	ErrText     string
	Forbidden   bool
	Panic       string
	Calls       int
	OtherAsked  int
	Unrealised  string // why the completion order could not be imposed ("" = imposed)
	Unconfirmed bool   // a released goroutine's termination could not be observed
}

type c34Driver struct {
	base     int // goroutine count with nothing in flight
	watchdog time.Duration
	timeouts int
}

func (d *c34Driver) settle() bool {
	dl := time.Now().Add(d.watchdog)
	for i := 0; runtime.NumGoroutine() > d.base; i++ {
		runtime.Gosched()
		if i > 1000 {
			time.Sleep(20 * time.Microsecond)
			if time.Now().After(dl) {
				return false
			}
		}
	}
	return true
}

func (d *c34Driver) run(c c34Case) (r c34Result) {
	s := c.Shape
	f := &c34Fake{table: map[c34Q]c34Ans{}, kinds: map[c34Q]int{}, def: c.Def, block: c.Sched != c34FreeRun, arrived: make(chan *c34Call, 8)}
	// wildcard first so that when the policy question coincides with it, one consistent answer is used
	f.table[s.qWildcard()], f.kinds[s.qWildcard()] = c.Wild, 2
	f.table[s.qPolicy()], f.kinds[s.qPolicy()] = c.Pol, 1
	f.table[s.qTier()], f.kinds[s.qTier()] = c.Tier, 0
	az := NewTierAuthorizer(f)
	type ret struct {
		err error
		pan string
	}
	done := make(chan ret, 1)
	ctx := s.ctx()
	go func() {
		var rr ret
		defer func() {
			if p := recover(); p != nil {
				rr.pan = fmt.Sprint(p)
			}
			done <- rr
		}()
		rr.err = az.AuthorizeTierOperation(ctx, s.PolicyName, s.Tier)
	}()
	var fin *ret
	if f.block {
		var calls []*c34Call
		wd := time.NewTimer(d.watchdog)
	collect:
		for len(calls) < 3 && fin == nil {
			select {
			case cl := <-f.arrived:
				calls = append(calls, cl)
			case x := <-done:
				fin = &x
			case <-wd.C:
				r.Unrealised = fmt.Sprintf("only %d concurrent checks were parked in the authorizer", len(calls))
				d.timeouts++
				break collect
			}
		}
		wd.Stop()
		if r.Unrealised == "" && fin == nil {
			// impose the completion order
			sort.SliceStable(calls, func(i, j int) bool { return calls[i].kind < calls[j].kind })
			for _, ix := range c34Perms[c.Sched] {
				n := runtime.NumGoroutine()
				close(calls[ix].release)
				dl := time.Now().Add(d.watchdog)
				for i := 0; runtime.NumGoroutine() >= n; i++ {
					runtime.Gosched()
					if i > 1000 {
						time.Sleep(20 * time.Microsecond)
						if time.Now().After(dl) {
							r.Unconfirmed = true
							break
						}
					}
				}
			}
		} else {
			// fall back: let everything run, releasing late arrivals as they come
			for _, cl := range calls {
				close(cl.release)
			}
		}
		wd2 := time.NewTimer(5 * d.watchdog)
		for fin == nil {
			select {
			case cl := <-f.arrived:
				close(cl.release)
			case x := <-done:
				fin = &x
			case <-wd2.C:
				r.Calls = len(f.asked)
				return r // Returned=false
			}
		}
		wd2.Stop()
	} else {
		wd := time.NewTimer(5 * d.watchdog)
		select {
		case x := <-done:
			fin = &x
		case <-wd.C:
			return r
		}
		wd.Stop()
	}
	r.Returned = true
	r.Panic = fin.pan
	r.Allowed = fin.err == nil && fin.pan == ""
	if fin.err != nil {
		r.ErrText = fin.err.Error()
		r.Forbidden = k8serrors.IsForbidden(fin.err)
	}
	if !d.settle() {
		r.Unconfirmed = true
	}
	f.mu.Lock()
	r.Calls, r.OtherAsked = len(f.asked), f.other
	f.mu.Unlock()
	return r
}

// ---------------------------------------------------------------------------------------------
// oracle (from the statement): allowed  <=>  may(get tier) AND ( may(op on policy name) OR may(op on tier wildcard) )

// expected returns (lower, upper): verdict when "Allow together with an error" counts as no / as yes.
func (c c34Case) expected() (bool, bool) {
	pol := c.Pol
	if c.Shape.qPolicy() == c.Shape.qWildcard() {
		pol = c.Wild // same question, one answer
	}
	f := func(silentAs int) bool {
		m := func(a c34Ans) bool {
			v := a.may()
			if v < 0 {
				v = silentAs
			}
			return v == 1
		}
		return m(c.Tier) && (m(pol) || m(c.Wild))
	}
	return f(0), f(1)
}

type c34Viol struct {
	Key    string
	Detail map[string]any
}

type c34Out struct {
	Mode         string
	States       int64
	Transitions  int64
	Nontrivial   []string
	Outcomes     map[string]int64
	Violations   []c34Viol
	Samples      []any
	Silent       int64 // executions on which the statement is silent (Allow+error decisive)
	SilentAllow  int64 // ... of which the code allowed
	Unrealised   int64
	Unconfirmed  int64
	Caps         []string
	Shapes       int
	Complete     bool
	PerSchedule  map[string]int64
	WallS        float64
	GoMaxProcs   int
	OtherAskedEx int64
}

func c34Enumerate(thorough bool, deadline time.Time, only *c34Case) *c34Out {
	out := &c34Out{Outcomes: map[string]int64{}, PerSchedule: map[string]int64{}, GoMaxProcs: runtime.GOMAXPROCS(0)}
	start := time.Now()
	seenViol := map[string]bool{}
	viol := func(key string, c c34Case, r c34Result, msg string) {
		if seenViol[key] {
			return
		}
		seenViol[key] = true
		out.Violations = append(out.Violations, c34Viol{Key: key, Detail: map[string]any{"case": c, "case_text": c.String(), "result": r, "msg": msg}})
	}
	d := &c34Driver{watchdog: 2 * time.Second}
	runtime.Gosched()
	d.base = runtime.NumGoroutine()
	check := func(c c34Case, r c34Result) {
		out.Transitions++
		out.PerSchedule[strconv.Itoa(c.Sched)]++
		cls := c.Shape.Class
		if r.Unrealised != "" {
			out.Unrealised++
		}
		if r.Unconfirmed {
			out.Unconfirmed++
		}
		if r.OtherAsked > 0 {
			out.OtherAskedEx++
		}
		if !r.Returned {
			viol("C34:no-return:"+cls, c, r, "AuthorizeTierOperation did not return after every check had been answered")
			return
		}
		if r.Panic != "" {
			viol("C34:panic:"+cls, c, r, "AuthorizeTierOperation panicked: "+r.Panic)
			return
		}
		lo, hi := c.expected()
		out.Outcomes[fmt.Sprintf("allowed=%v forbidden=%v cannot-get-tier-text=%v", r.Allowed, r.Forbidden, strings.Contains(r.ErrText, "(user cannot get tier)"))]++
		if lo != hi {
			out.Silent++
			if r.Allowed {
				out.SilentAllow++
			}
			return
		}
		if r.Allowed && !lo {
			why := "neither-policy-nor-wildcard-allowed"
			if c.Tier.may() != 1 {
				why = "tier-get-not-allowed"
			}
			viol("C34:allowed-but-must-deny:"+why+":"+cls, c, r, "request was allowed although the statement's condition is false")
		}
		if !r.Allowed && lo {
			via := "wildcard"
			if c.Pol.may() == 1 && c.Wild.may() == 1 {
				via = "policy-name-and-wildcard"
			} else if c.Pol.may() == 1 {
				via = "policy-name"
			}
			viol("C34:denied-but-must-allow:via-"+via+":"+cls, c, r, "request was refused although the user may get the tier and may perform the operation: "+r.ErrText)
		}
	}
	if only != nil {
		out.States = 1
		r := d.run(*only)
		check(*only, r)
		out.Samples = append(out.Samples, map[string]any{"case": only.String(), "result": r})
		out.Complete = true
		return out
	}
	shapes := c34Shapes(thorough)
	out.Shapes = len(shapes)
	out.Complete = true
	// all configurations first
	var confs []c34Case
	for _, s := range shapes {
		for t := c34Ans(0); t < 6; t++ {
			for p := c34Ans(0); p < 6; p++ {
				for w := c34Ans(0); w < 6; w++ {
					if s.qPolicy() == s.qWildcard() && p != w {
						continue // one question cannot have two answers
					}
					for _, def := range []c34Ans{0, 2} { // other questions: Allow / Deny
						confs = append(confs, c34Case{Shape: s, Tier: t, Pol: p, Wild: w, Def: def})
					}
				}
			}
		}
	}
	out.States = int64(len(confs))
	for _, base := range confs {
		lo, hi := base.expected()
		if lo == hi && (lo || base.Tier.may() == 1 || base.Pol.may() == 1 || base.Wild.may() == 1) {
			s := base.Shape
			out.Nontrivial = append(out.Nontrivial, fmt.Sprintf("%s|%s|%s|%s|%d%d%d%d", s.Verb, s.Resource, s.Name, s.Class, base.Tier, base.Pol, base.Wild, base.Def))
		}
	}
	// phase 1: the six imposed completion orders, on one P (hand-offs are direct and deterministic);
	// phase 2: the free-running schedule on all Ps.
	verdict := make([]int8, len(confs)) // 0 unknown, 1 allowed, 2 denied (first schedule that returned)
	fallback := false
	allProcs := runtime.GOMAXPROCS(0)
	defer runtime.GOMAXPROCS(allProcs)
loop:
	for phase := 1; phase <= 2; phase++ {
		if phase == 1 {
			runtime.GOMAXPROCS(1)
		} else {
			runtime.GOMAXPROCS(allProcs)
		}
		for i, base := range confs {
			if time.Now().After(deadline) {
				out.Caps = append(out.Caps, fmt.Sprintf("deadline during enumeration (phase %d, configuration %d of %d)", phase, i, len(confs)))
				out.Complete = false
				break loop
			}
			lo, hi := base.expected()
			for sched := 0; sched <= c34FreeRun; sched++ {
				if (phase == 1) != (sched != c34FreeRun) {
					continue
				}
				if fallback && sched != c34FreeRun {
					continue
				}
				c := base
				c.Sched = sched
				r := d.run(c)
				check(c, r)
				if len(out.Samples) < 3 && sched == 3 && lo == hi && lo && c.Pol.may() != c.Wild.may() && c.Def == 2 {
					out.Samples = append(out.Samples, map[string]any{"case": c.String(), "result": r})
				}
				// "however its concurrent checks interleave": the verdict may not depend on the schedule
				if r.Returned && r.Panic == "" {
					v := int8(2)
					if r.Allowed {
						v = 1
					}
					if verdict[i] == 0 {
						verdict[i] = v
					} else if verdict[i] != v {
						viol("C34:schedule-dependent-verdict:"+c.Shape.Class, c, r, fmt.Sprintf("verdict under schedule %d differs from an earlier schedule (allowed there=%v)", sched, verdict[i] == 1))
					}
				}
				if d.timeouts >= 3 && !fallback {
					fallback = true
					out.Caps = append(out.Caps, "the code under test does not park three concurrent checks in the authorizer: completion orders cannot be imposed, free-running schedule only")
					out.Complete = false
				}
			}
		}
	}
	out.WallS = time.Since(start).Seconds()
	return out
}

// ---------------------------------------------------------------------------------------------
// race log parsing (parent side)

type c34Race struct {
	Key    string
	Report string
	Sites  []string
}

var c34FrameRe = regexp.MustCompile(`^\s+(\S+\.go):(\d+) \+0x`)

func c34ParseRaceLog(text string) []c34Race {
	var out []c34Race
	seen := map[string]bool{}
	for _, blk := range strings.Split(text, "==================") {
		if !strings.Contains(blk, "WARNING: DATA RACE") {
			continue
		}
		lines := strings.Split(blk, "\n")
		// the two access sites: first frame after "Write at/Read at" and after "Previous write/read at"
		var sites []string
		var fns []string
		allErr := true
		for i, l := range lines {
			ll := strings.TrimSpace(l)
			if !(strings.HasPrefix(ll, "Write at") || strings.HasPrefix(ll, "Read at") || strings.HasPrefix(ll, "Previous write at") || strings.HasPrefix(ll, "Previous read at")) {
				continue
			}
			if i+2 >= len(lines) {
				continue
			}
			fn := strings.TrimSpace(lines[i+1])
			m := c34FrameRe.FindStringSubmatch(lines[i+2])
			site := fn
			if m != nil {
				site = fmt.Sprintf("%s %s:%s", fn, m[1], m[2])
				ln, _ := strconv.Atoi(m[2])
				src := c34SourceLine(m[1], ln)
				site += "  «" + strings.TrimSpace(src) + "»"
				if !regexp.MustCompile(`\berr\b`).MatchString(src) || !strings.Contains(m[1], "authorizer/authorizer.go") {
					allErr = false
				}
			} else {
				allErr = false
			}
			sites = append(sites, site)
			if k := strings.LastIndex(fn, "/"); k >= 0 {
				fn = fn[k+1:]
			}
			fns = append(fns, strings.TrimSuffix(fn, "()"))
		}
		key := "C34:data-race:" + strings.Join(fns, "~")
		if len(sites) == 2 && allErr && strings.Contains(fns[0], "AuthorizeTierOperation.func") && strings.Contains(fns[1], "AuthorizeTierOperation.func") {
			key = "C34:data-race-shared-err"
		}
		if seen[key] {
			continue
		}
		seen[key] = true
		if len(blk) > 6000 {
			blk = blk[:6000]
		}
		out = append(out, c34Race{Key: key, Report: blk, Sites: sites})
	}
	return out
}

func c34SourceLine(file string, n int) string {
	b, err := os.ReadFile(file)
	if err != nil {
		// -trimpath builds report module-relative paths
		const mod = "github.com/projectcalico/calico/"
		if i := strings.Index(file, mod); i >= 0 {
			repo := os.Getenv("VERIF_REPO")
			if repo == "" {
				repo = "/repo"
			}
			b, err = os.ReadFile(filepath.Join(repo, file[i+len(mod):]))
		}
		if err != nil {
			return ""
		}
	}
	ls := strings.Split(string(b), "\n")
	if n < 1 || n > len(ls) {
		return ""
	}
	return ls[n-1]
}

// ---------------------------------------------------------------------------------------------
// child / parent plumbing

func c34Child(t *testing.T) {
	mode := os.Getenv("C34_CHILD")
	outPath := os.Getenv("C34_OUT")
	thorough := os.Getenv("VERIF_TIER") == "thorough"
	secs, _ := strconv.Atoi(os.Getenv("C34_BUDGET_S"))
	if secs <= 0 {
		secs = 60
	}
	var only *c34Case
	if s := os.Getenv("C34_ONLY"); s != "" {
		only = &c34Case{}
		if err := json.Unmarshal([]byte(s), only); err != nil {
			t.Fatalf("bad C34_ONLY: %v", err)
		}
	}
	out := c34Enumerate(thorough, time.Now().Add(time.Duration(secs)*time.Second), only)
	out.Mode = mode
	b, _ := json.Marshal(out)
	if err := os.WriteFile(outPath, b, 0o644); err != nil {
		t.Fatalf("cannot write %s: %v", outPath, err)
	}
}

func c34Spawn(c *vk.Ctx, mode, gorace, dir string, budget int, only string) (*c34Out, string, error) {
	outPath := filepath.Join(dir, mode+".json")
	cmd := exec.Command(os.Args[0], "-test.run", "^TestVerif_C34$", "-test.count", "1", "-test.timeout", "0")
	cmd.Env = append(os.Environ(), "C34_CHILD="+mode, "C34_OUT="+outPath, "GORACE="+gorace, "C34_BUDGET_S="+strconv.Itoa(budget), "C34_ONLY="+only, "VERIF_TIER="+c.Tier())
	b, err := cmd.CombinedOutput()
	tail := string(b)
	if len(tail) > 3000 {
		tail = tail[len(tail)-3000:]
	}
	rb, rerr := os.ReadFile(outPath)
	if rerr != nil {
		return nil, tail, fmt.Errorf("%s child left no result (%v, exit: %v)", mode, rerr, err)
	}
	out := &c34Out{}
	if e := json.Unmarshal(rb, out); e != nil {
		return nil, tail, e
	}
	return out, tail, nil
}

func TestVerif_C34(t *testing.T) {
	logrus.SetLevel(logrus.PanicLevel)
	if os.Getenv("C34_CHILD") != "" {
		c34Child(t)
		return
	}
	vk.Run(t, "C34", func(c *vk.Ctx) {
		c.Rule("states = (request shape, answers of the wrapped authorizer to the three questions of the statement and to any other question), " +
			"answers in {Allow,Deny,NoOpinion} x {no error, error}; transitions = one real AuthorizeTierOperation call under one schedule: the three checks " +
			"parked inside the fake authorizer and completed one after the other in each of the 3! orders, plus one free-running schedule; " +
			"non-trivial = the statement decides the case and at least one answer is Allow")
		c.Assume("completion order = order in which the three Authorize calls return, each released goroutine running to termination before the next is released (observed through runtime.NumGoroutine); interleavings *inside* the few statements after Authorize returns are not enumerated — they touch only the shared err variable, which is what the race pass is about")
		c.Assume("the statement is silent on an Allow decision that comes together with an error: such cases are executed, counted (silent_cases) and accepted either way")
		c.Assume("race-free clause: decided by the Go race detector (happens-before based dynamic race detection) observing the SAME enumeration in a second child process; a happens-before detector reports a race in an execution iff two conflicting accesses of that execution are unordered, independently of timing, but it only sees executions that were run")
		dir, err := os.MkdirTemp("", "c34-")
		if err != nil {
			c.ToolError(err.Error())
			return
		}
		defer os.RemoveAll(dir)
		budget := c.Pick(50, 600)
		only := ""
		raceOnly := false
		if rf := c.ReplayFile(); rf != "" {
			var d struct {
				Case       *c34Case `json:"case"`
				RaceReport string   `json:"race_report"`
			}
			if err := vk.LoadReplay(rf, &d); err != nil {
				c.ToolError(err.Error())
				return
			}
			if d.Case != nil {
				only = vk.JSON(d.Case)
			} else {
				raceOnly = true
			}
		}
		// --- functional pass (race reporting off)
		if !raceOnly {
			out, tail, err := c34Spawn(c, "enum", "report_bugs=0", dir, budget, only)
			if err != nil {
				c.ToolError(err.Error() + "\n" + tail)
				return
			}
			c.Add("states", out.States)
			c.Add("transitions", out.Transitions)
			for _, s := range out.Nontrivial {
				c.Nontrivial(s)
			}
			for k, n := range out.Outcomes {
				for i := int64(0); i < n && i < 1; i++ {
					c.Outcome(k)
				}
			}
			for _, s := range out.Samples {
				c.Sample(s)
			}
			for _, v := range out.Violations {
				c.Violation(v.Key, v.Detail)
			}
			for _, cp := range out.Caps {
				c.Capped("enum pass: " + cp)
			}
			if out.Unconfirmed > 0 {
				c.Capped(fmt.Sprintf("enum pass: in %d executions the termination of a released goroutine could not be observed (completion order not confirmed)", out.Unconfirmed))
			}
			c.Extra("enum_pass", map[string]any{"shapes": out.Shapes, "configurations": out.States, "executions": out.Transitions, "per_schedule": out.PerSchedule,
				"outcome_counts": out.Outcomes, "silent_cases": out.Silent, "silent_cases_allowed_by_code": out.SilentAllow,
				"executions_asking_other_questions": out.OtherAskedEx, "complete": out.Complete, "wall_s": out.WallS, "gomaxprocs": out.GoMaxProcs})
			fmt.Printf("enum C34 functional pass: shapes=%d configurations=%d executions=%d silent=%d complete=%v violations=%d wall=%.1fs\n",
				out.Shapes, out.States, out.Transitions, out.Silent, out.Complete, len(out.Violations), out.WallS)
		}
		// --- race pass: same enumeration with the race detector reporting
		logBase := filepath.Join(dir, "racelog")
		out, tail, err := c34Spawn(c, "race", "halt_on_error=0 exitcode=66 log_path="+logBase, dir, budget, "")
		if err != nil {
			c.ToolError(err.Error() + "\n" + tail)
			return
		}
		var logText strings.Builder
		files, _ := filepath.Glob(logBase + ".*")
		for _, f := range files {
			b, _ := os.ReadFile(f)
			logText.Write(b)
		}
		races := c34ParseRaceLog(logText.String())
		for _, r := range races {
			c.Violation(r.Key, map[string]any{"race_report": r.Report, "sites": r.Sites,
				"how": "any single AuthorizeTierOperation call with a non-nil authorizer, binary built with -race"})
		}
		if strings.Contains(logText.String(), "WARNING: DATA RACE") && len(races) == 0 {
			c.ToolError("race log present but not parsed:\n" + logText.String()[:min(2000, logText.Len())])
		}
		for _, cp := range out.Caps {
			c.Capped("race pass: " + cp)
		}
		if raceOnly {
			c.Add("states", out.States)
			c.Add("transitions", out.Transitions)
			c.Sample(map[string]any{"race_pass_executions": out.Transitions})
		}
		var keys []string
		for _, r := range races {
			keys = append(keys, r.Key)
		}
		c.Extra("race_pass", map[string]any{"method": "dynamic race detection (Go race detector, happens-before) over the same enumeration, reports de-duplicated by the runtime",
			"executions_observed": out.Transitions, "distinct_races": keys, "complete": out.Complete, "wall_s": out.WallS})
		fmt.Printf("enum C34 race pass: executions=%d distinct-races=%d %v wall=%.1fs\n", out.Transitions, len(races), keys, out.WallS)
	})
}

var _ = errors.New

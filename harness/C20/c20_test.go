package hipam

// C20 — IPAM allocations respect pools, uses, reservations and affinity limits.
// Shape I x H: bounded-exhaustive enumeration of pool layouts x reservations x IPAM configs, and for
// each configuration an explicit-state search (engine hbfs, graph mode over a canonical projection of
// the datastore) of every short history of requests through the REAL ipamClient over casstore.
// Sequential (no interleaving needed: the property is about what a successful call may return).

import (
	"fmt"
	"net"
	"sort"
	"strings"
	"sync"
	"sync/atomic"
	"testing"

	v3 "github.com/projectcalico/api/pkg/apis/projectcalico/v3"
	corev1 "k8s.io/api/core/v1"
	metav1 "k8s.io/apimachinery/pkg/apis/meta/v1"

	"github.com/projectcalico/calico/libcalico-go/lib/backend/model"
	"github.com/projectcalico/calico/libcalico-go/lib/ipam"
	cnet "github.com/projectcalico/calico/libcalico-go/lib/net"
	"github.com/projectcalico/calico/libcalico-go/lib/selector"
	"github.com/projectcalico/calico/zzverif/hbfs"
	"github.com/projectcalico/calico/zzverif/vclock"
	"github.com/projectcalico/calico/zzverif/vk"
)

const (
	c20CIDRA = "10.0.0.0/29"
	c20CIDRB = "10.0.1.0/29"
)

var c20NodeLabels = map[string]map[string]string{"n1": {"role": "a"}, "n2": nil}
var c20NSLabels = map[string]map[string]string{"x": {"team": "x"}, "y": {"team": "y"}}

// pool variants (index 7 = the pool does not exist)
var c20VariantNames = []string{"default", "disabled", "tunnel-only", "lb-only", "node-selector(n1)", "ns-selector(x)", "manual", "absent"}

func c20Pool(name, cidr string, variant int) *vPool {
	p := &vPool{Name: name, CIDR: cidr, BlockSize: 30}
	switch variant {
	case 1:
		p.Disabled = true
	case 2:
		p.Uses = []v3.IPPoolAllowedUse{v3.IPPoolAllowedUseTunnel}
	case 3:
		p.Uses = []v3.IPPoolAllowedUse{v3.IPPoolAllowedUseLoadBalancer}
	case 4:
		p.NodeSelector = "role == 'a'"
	case 5:
		p.NSSelector = "team == 'x'"
	case 6:
		p.Manual = true
	case 7:
		return nil
	}
	return p
}

var c20Reservations = [][]string{nil, {"10.0.0.1/32", "10.0.0.5/32", "10.0.1.2/32"}, {"10.0.0.0/30"}, {"10.0.0.0/29"}}

// valid IPAM configs (SetIPAMConfig forbids !strict&&!auto and maxBlocks>0 without strict); nil = no config object
var c20Configs = []*model.IPAMConfig{
	nil,
	{StrictAffinity: true, AutoAllocateBlocks: true},
	{StrictAffinity: true, AutoAllocateBlocks: true, MaxBlocksPerHost: 1},
	{StrictAffinity: true, AutoAllocateBlocks: false},
	{StrictAffinity: true, AutoAllocateBlocks: false, MaxBlocksPerHost: 1},
}

type c20Ev struct {
	Kind  string // auto | relmin | assignip | relhost
	Host  string
	Use   v3.IPPoolAllowedUse
	NS    string
	Pools []string
	Num   int
	IP    string
}

func (e c20Ev) String() string {
	s := e.Kind
	if e.Host != "" {
		s += " host=" + e.Host
	}
	if e.Use != "" {
		s += " use=" + string(e.Use)
	}
	if e.NS != "" {
		s += " ns=" + e.NS
	}
	if len(e.Pools) > 0 {
		s += " pools=" + strings.Join(e.Pools, "+")
	}
	if e.Num > 1 {
		s += fmt.Sprintf(" num=%d", e.Num)
	}
	if e.IP != "" {
		s += " ip=" + e.IP
	}
	return s
}

var c20Events = []c20Ev{
	{Kind: "auto", Host: "n1", Use: v3.IPPoolAllowedUseWorkload},
	{Kind: "auto", Host: "n2", Use: v3.IPPoolAllowedUseWorkload},
	{Kind: "auto", Host: "n1", Use: v3.IPPoolAllowedUseTunnel},
	{Kind: "auto", Host: v3.VirtualLoadBalancer, Use: v3.IPPoolAllowedUseLoadBalancer},
	{Kind: "auto", Host: "n1", Use: v3.IPPoolAllowedUseWorkload, NS: "x"},
	{Kind: "auto", Host: "n2", Use: v3.IPPoolAllowedUseWorkload, NS: "y"},
	{Kind: "auto", Host: "n1", Use: v3.IPPoolAllowedUseWorkload, Pools: []string{c20CIDRB}},
	{Kind: "auto", Host: "n1", Use: v3.IPPoolAllowedUseWorkload, Num: 5},
	{Kind: "relmin"},
	{Kind: "assignip", Host: "n2", IP: "10.0.0.1"},
	{Kind: "relhost", Host: "n1"},
}

type c20State struct {
	w     *ipamWorld
	cfgID string
	fails []hbfs.Fail
	last  string // outcome class of the last event
	// blocks that came into existence during an AssignIP call: AssignIP's contract is to claim block
	// affinity as needed, and the statement's cap clause is about automatically assigned addresses,
	// so these blocks neither count towards nor trigger the MaxBlocksPerHost clause
	viaAssignIP map[string]bool
}

type c20Conf struct {
	A, B, R, C int
}

func (k c20Conf) String() string {
	return fmt.Sprintf("A=%s B=%s reserved=%v config=%s", c20VariantNames[k.A], c20VariantNames[k.B], c20Reservations[k.R], c20CfgName(c20Configs[k.C]))
}

func c20CfgName(c *model.IPAMConfig) string {
	if c == nil {
		return "none(defaults)"
	}
	return fmt.Sprintf("strict=%v,auto=%v,maxBlocks=%d", c.StrictAffinity, c.AutoAllocateBlocks, c.MaxBlocksPerHost)
}

func (k c20Conf) world() *ipamWorld {
	cfg := worldCfg{Nodes: c20NodeLabels, Config: c20Configs[k.C], Reserved: c20Reservations[k.R]}
	if p := c20Pool("pa", c20CIDRA, k.A); p != nil {
		cfg.Pools = append(cfg.Pools, *p)
	}
	if p := c20Pool("pb", c20CIDRB, k.B); p != nil {
		cfg.Pools = append(cfg.Pools, *p)
	}
	return newIPAMWorld(cfg)
}

func selMatches(sel string, labels map[string]string) bool {
	if sel == "" {
		return true
	}
	p, err := selector.Parse(sel)
	if err != nil {
		return false
	}
	if labels == nil {
		labels = map[string]string{}
	}
	return p.Evaluate(labels)
}

func poolContaining(w *ipamWorld, ip net.IP) *vPool {
	for i := range w.cfg.Pools {
		_, n, _ := net.ParseCIDR(w.cfg.Pools[i].CIDR)
		if n.Contains(ip) {
			return &w.cfg.Pools[i]
		}
	}
	return nil
}

func effectiveUses(p *vPool) []v3.IPPoolAllowedUse {
	if len(p.Uses) == 0 {
		return []v3.IPPoolAllowedUse{v3.IPPoolAllowedUseWorkload, v3.IPPoolAllowedUseTunnel}
	}
	return p.Uses
}

func affinityOf(e c20Ev) string {
	if e.Use == v3.IPPoolAllowedUseLoadBalancer {
		return "virtual:" + e.Host
	}
	return "host:" + e.Host
}

// c20CheckGrant is the oracle for one successfully returned address.
func c20CheckGrant(s *c20State, e c20Ev, got cnet.IPNet, fail func(class, msg string)) {
	w := s.w
	ipStr := got.IP.String()
	p := poolContaining(w, got.IP)
	if p == nil {
		fail("address-outside-any-pool", ipStr)
		return
	}
	if p.Disabled {
		fail("address-from-disabled-pool", fmt.Sprintf("%s from disabled pool %s", ipStr, p.CIDR))
	}
	if e.Kind == "auto" {
		okUse := false
		for _, u := range effectiveUses(p) {
			if u == e.Use {
				okUse = true
			}
		}
		if !okUse {
			fail("address-from-pool-not-allowed-for-use", fmt.Sprintf("%s for use %s from pool %s allowing %v", ipStr, e.Use, p.CIDR, effectiveUses(p)))
		}
		if len(e.Pools) > 0 {
			in := false
			for _, rp := range e.Pools {
				_, n, _ := net.ParseCIDR(rp)
				if n.Contains(got.IP) {
					in = true
				}
			}
			if !in {
				fail("address-outside-requested-pools", fmt.Sprintf("%s not in requested pools %v", ipStr, e.Pools))
			}
		} else {
			// selectors and assignment mode apply to automatic pool selection (explicitly requested
			// pools are documented to bypass them)
			nodeLabels := c20NodeLabels[e.Host] // nil for the virtual load-balancer node
			if !selMatches(p.NodeSelector, nodeLabels) {
				fail("address-from-pool-not-selecting-node", fmt.Sprintf("%s for %s from pool %s with nodeSelector %q", ipStr, e.Host, p.CIDR, p.NodeSelector))
			}
			if !selMatches(p.NSSelector, c20NSLabels[e.NS]) {
				fail("address-from-pool-not-selecting-namespace", fmt.Sprintf("%s for namespace %q from pool %s with namespaceSelector %q", ipStr, e.NS, p.CIDR, p.NSSelector))
			}
			if p.Manual {
				fail("address-from-manual-pool", fmt.Sprintf("%s auto-assigned from pool %s with assignmentMode Manual", ipStr, p.CIDR))
			}
		}
		for _, r := range w.cfg.Reserved {
			_, n, _ := net.ParseCIDR(r)
			if n.Contains(got.IP) {
				fail("reserved-address-assigned", fmt.Sprintf("%s lies in reservation %s", ipStr, r))
			}
		}
		ones, _ := got.Mask.Size()
		if ones != p.BlockSize {
			fail("address-not-returned-with-block-cidr", fmt.Sprintf("%s returned with /%d, block size is /%d", ipStr, ones, p.BlockSize))
		}
	}
	// the block that records it
	var blk *model.AllocationBlock
	for _, vb := range w.blocks() {
		if vb.B.CIDR.Contains(got.IP) {
			blk = vb.B
		}
	}
	if blk == nil {
		fail("granted-address-not-recorded", ipStr+" is in no stored block")
		return
	}
	if e.Kind == "auto" {
		bo, _ := blk.CIDR.Mask.Size()
		go_, _ := got.Mask.Size()
		if bo != go_ || !blk.CIDR.IP.Equal(got.IP.Mask(got.Mask)) {
			fail("address-not-returned-with-block-cidr", fmt.Sprintf("%s/%d but its block is %s", ipStr, go_, blk.CIDR.String()))
		}
	}
	strict := w.cfg.Config != nil && w.cfg.Config.StrictAffinity
	if strict {
		want := affinityOf(e)
		if blk.Affinity == nil || *blk.Affinity != want {
			gotAff := "<none>"
			if blk.Affinity != nil {
				gotAff = *blk.Affinity
			}
			fail("strict-affinity-address-from-foreign-block", fmt.Sprintf("%s for %s from block %s affine to %s", ipStr, want, blk.CIDR.String(), gotAff))
		}
	}
}

func c20Apply(s *c20State, e c20Ev) {
	w := s.w
	w.bind()
	existed := map[string]bool{}
	for _, vb := range w.blocks() {
		existed[vb.CIDR] = true
	}
	defer func() {
		if s.viaAssignIP == nil {
			s.viaAssignIP = map[string]bool{}
		}
		now := map[string]bool{}
		for _, vb := range w.blocks() {
			now[vb.CIDR] = true
			if !existed[vb.CIDR] {
				if e.Kind == "assignip" {
					s.viaAssignIP[vb.CIDR] = true
				} else {
					delete(s.viaAssignIP, vb.CIDR)
				}
			}
		}
		for cidr := range s.viaAssignIP {
			if !now[cidr] {
				delete(s.viaAssignIP, cidr)
			}
		}
	}()
	fail := func(class, msg string) {
		s.fails = append(s.fails, hbfs.Fail{Key: "C20:" + class, Msg: fmt.Sprintf("[%s] %s: %s", s.cfgID, e.String(), msg)})
	}
	switch e.Kind {
	case "auto":
		h := "h-" + e.Host + "-" + string(e.Use)
		n := e.Num
		if n == 0 {
			n = 1
		}
		args := ipam.AutoAssignArgs{Num4: n, Hostname: e.Host, HandleID: &h, IntendedUse: e.Use, Attrs: map[string]string{"node": e.Host}}
		if e.NS != "" {
			args.Namespace = &corev1.Namespace{ObjectMeta: metav1.ObjectMeta{Name: e.NS, Labels: c20NSLabels[e.NS]}}
		}
		for _, p := range e.Pools {
			args.IPv4Pools = append(args.IPv4Pools, cnet.MustParseCIDR(p))
		}
		v4, _, err := w.ic.AutoAssign(w.ctx, args)
		cnt := 0
		if v4 != nil {
			cnt = len(v4.IPs)
			for _, ip := range v4.IPs {
				c20CheckGrant(s, e, ip, fail)
			}
		}
		s.last = fmt.Sprintf("auto:%s:%d", errClass(err), cnt)
	case "assignip":
		h := "h-" + e.Host + "-ip"
		err := w.ic.AssignIP(w.ctx, ipam.AssignIPArgs{IP: cnet.MustParseIP(e.IP), Hostname: e.Host, HandleID: &h, Attrs: map[string]string{"node": e.Host}})
		if err == nil {
			ip := cnet.MustParseIP(e.IP)
			c20CheckGrant(s, e, cnet.IPNet{IPNet: net.IPNet{IP: ip.IP, Mask: net.CIDRMask(32, 32)}}, fail)
		}
		s.last = "assignip:" + errClass(err)
	case "relmin":
		al := w.allocs()
		ips := make([]string, 0, len(al))
		for ip := range al {
			ips = append(ips, ip)
		}
		sort.Strings(ips)
		if len(ips) == 0 {
			s.last = "relmin:none"
			break
		}
		_, _, err := w.ic.ReleaseIPs(w.ctx, ipam.ReleaseOptions{Address: ips[0]})
		s.last = "relmin:" + errClass(err)
	case "relhost":
		err := w.ic.ReleaseHostAffinities(w.ctx, ipam.AffinityConfig{AffinityType: ipam.AffinityTypeHost, Host: e.Host}, false)
		s.last = "relhost:" + errClass(err)
	}
	// cap on affine blocks per host after every automatic assignment (blocks claimed through
	// AssignIP are outside the clause, see viaAssignIP)
	if e.Kind == "auto" && w.cfg.Config != nil && w.cfg.Config.MaxBlocksPerHost > 0 {
		per := map[string][]string{}
		for _, vb := range w.blocks() {
			if vb.B.Affinity != nil && !s.viaAssignIP[vb.CIDR] {
				per[*vb.B.Affinity] = append(per[*vb.B.Affinity], vb.CIDR)
			}
		}
		for aff, bl := range per {
			if len(bl) > w.cfg.Config.MaxBlocksPerHost {
				pools := map[string]bool{}
				for _, cidr := range bl {
					ip, _, _ := net.ParseCIDR(cidr)
					if p := poolContaining(w, ip); p != nil {
						pools[p.Name] = true
					}
				}
				class := "autoassign-within-one-pool"
				if len(pools) > 1 {
					class = "autoassign-does-not-count-blocks-outside-the-pools-eligible-for-the-request"
				}
				fail("more-affine-blocks-than-cap:"+class, fmt.Sprintf("%s holds %d affine blocks claimed by auto-assignment %v, MaxBlocksPerHost=%d", aff, len(bl), bl, w.cfg.Config.MaxBlocksPerHost))
			}
		}
	}
	vclock.Unbind()
}

// c20Key: canonical projection of the datastore that determines the future of these events
// (revisions, sequence numbers and time stamps do not: nothing here names a sequence number and
// the cooldown is 0 with ever-advancing time).
func c20Key(s *c20State) string {
	var b strings.Builder
	for _, vb := range s.w.blocks() {
		aff := "-"
		if vb.B.Affinity != nil {
			aff = *vb.B.Affinity
		}
		fmt.Fprintf(&b, "B %s %s free=%v [", vb.CIDR, aff, vb.B.Unallocated)
		for o, ai := range vb.B.Allocations {
			if ai == nil {
				continue
			}
			at := vb.B.Attributes[*ai]
			h := ""
			if at.HandleID != nil {
				h = *at.HandleID
			}
			fmt.Fprintf(&b, "%d=%s/%v ", o, h, at.ReleasedAt != nil)
		}
		b.WriteString("]\n")
	}
	for _, a := range s.w.affinities() {
		fmt.Fprintf(&b, "A %s %s %s %s\n", a.Type, a.Host, a.CIDR, a.State)
	}
	hs := s.w.handles()
	names := make([]string, 0, len(hs))
	for h := range hs {
		names = append(names, h)
	}
	sort.Strings(names)
	for _, h := range names {
		fmt.Fprintf(&b, "H %s %v\n", h, hs[h])
	}
	via := make([]string, 0, len(s.viaAssignIP))
	for c := range s.viaAssignIP {
		via = append(via, c)
	}
	sort.Strings(via)
	fmt.Fprintf(&b, "viaAssignIP %v\n", via)
	return b.String()
}

func TestVerif_C20(t *testing.T) {
	vk.Run(t, "C20", func(c *vk.Ctx) {
		c.Rule("configurations = {pool A variant} x {pool B variant} (default, disabled, tunnel-only, load-balancer-only, node selector matching only n1, namespace selector matching only ns x, assignmentMode Manual, absent; two /29 pools of /30 blocks) x 4 reservation sets (none, single addresses in three blocks, a whole block, a whole pool) x 5 IPAM configs (none, strict, strict+cap 1, strict without auto-allocation, the latter + cap 1); per configuration every history up to the depth bound over 11 requests (AutoAssign by n1/n2 for Workload/Tunnel/LoadBalancer use, with namespace x / y, with an explicitly requested pool, for 5 addresses at once; AssignIP of a fixed address; release of the lowest allocated address; release of n1's block affinities), de-duplicated on a canonical datastore projection; non-trivial = a state in which at least one address is allocated")
		c.Assume("datastore = casstore (sequential use); pool accessor with the real accessor's filtering (disabled pools are not 'enabled'); explicitly requested pools bypass selectors and assignment mode as documented, so those clauses are only checked for automatic pool selection")
		depth := c.Pick(3, 4)
		var confs []c20Conf
		for a := 0; a < 8; a++ {
			for b := 0; b < 8; b++ {
				if a == 7 && b == 7 {
					continue
				}
				for r := range c20Reservations {
					for k := range c20Configs {
						if c.Quick() {
							// quick tier: pool B restricted to {default, tunnel-only, ns-selector, absent},
							// reservations without the whole-pool one, configs without "strict, no
							// auto-allocation, no cap"; the thorough tier runs the full product
							if (b != 0 && b != 2 && b != 5 && b != 7) || r == 3 || k == 3 {
								continue
							}
						}
						confs = append(confs, c20Conf{a, b, r, k})
					}
				}
			}
		}
		spec := func(k c20Conf, d int) *hbfs.Spec[*c20State, c20Ev] {
			return &hbfs.Spec[*c20State, c20Ev]{
				Name:     "C20",
				New:      func() *c20State { return &c20State{w: k.world(), cfgID: k.String()} },
				Apply:    c20Apply,
				Enabled:  func(*c20State, int) []c20Ev { return c20Events },
				Key:      c20Key,
				Check:    func(s *c20State, _ []c20Ev) []hbfs.Fail { f := s.fails; s.fails = nil; return f },
				Close:    func(s *c20State) { s.w.close() },
				Show:     func(e c20Ev) string { return k.String() + " :: " + e.String() },
				Outcome:  func(s *c20State) string { return s.last },
				MaxDepth: d, Workers: 1, Quiet: true,
				Nontrivial: func(s *c20State) bool { return len(s.w.allocs()) > 0 },
			}
		}
		if rf := c.ReplayFile(); rf != "" {
			var d struct {
				History []string `json:"history"`
			}
			if err := vk.LoadReplay(rf, &d); err != nil || len(d.History) == 0 {
				c.ToolError(fmt.Sprintf("cannot load replay: %v", err))
				return
			}
			want := strings.SplitN(d.History[0], " :: ", 2)[0]
			for _, k := range confs {
				if k.String() == want {
					fails, err := hbfs.Replay(spec(k, 99), d.History)
					if err != nil {
						c.ToolError(err.Error())
						return
					}
					c.Add("states", 1)
					c.Add("transitions", int64(len(d.History)))
					c.Sample(map[string]any{"replayed": d.History})
					for _, f := range fails {
						c.Violation(f.Key, map[string]any{"history": d.History, "msg": f.Msg})
					}
					return
				}
			}
			c.ToolError("replay names unknown configuration " + want)
			return
		}
		fmt.Printf("INFO vclock fast goroutine-id path: %v\n", vclock.FastGoid())
		var next int64 = -1
		var wg sync.WaitGroup
		var done int64
		for wk := 0; wk < 8; wk++ {
			wg.Add(1)
			go func() {
				defer wg.Done()
				for {
					i := int(atomic.AddInt64(&next, 1))
					if i >= len(confs) || c.Expired() {
						return
					}
					st := hbfs.Explore(c, spec(confs[i], depth))
					if st.Complete {
						atomic.AddInt64(&done, 1)
					}
				}
			}()
		}
		wg.Wait()
		if int(done) < len(confs) {
			c.Capped(fmt.Sprintf("%d of %d configurations explored to depth %d before the deadline", done, len(confs), depth))
		}
		c.Add("configurations", done)
		fmt.Printf("enum C20 configurations=%d/%d depth=%d\n", done, len(confs), depth)
		// one written-out history
		k := c20Conf{0, 2, 1, 2}
		s := &c20State{w: k.world(), cfgID: k.String()}
		var hist []string
		for _, e := range []c20Ev{c20Events[0], c20Events[2], c20Events[7], c20Events[1]} {
			c20Apply(s, e)
			hist = append(hist, e.String()+" -> "+s.last)
		}
		c.Sample(map[string]any{"configuration": k.String(), "history": hist, "final_store": strings.Split(c20Key(s), "\n")})
		s.w.close()
		if n := vclock.UnboundReads(); n > 0 {
			c.ToolError(fmt.Sprintf("%d clock reads came from goroutines without a logical clock", n))
		}
	})
}

package rules_test

// C08 — rendered iptables/nftables rules match exactly what the proto.Rule says.
//
// Shape I + X: bounded-exhaustive enumeration of rule shapes, each rendered by the REAL renderer
// (rules.NewRenderer(...).ProtoRuleToIptablesRules -> real iptables/nftables text renderers) for both IP
// versions, both dataplanes, flow logs on/off; the rendered text is executed by engine/nfsim on every
// packet of the product of boundary values of the fields the rule constrains, and compared with
// engine/refpol.RuleMatches (written from the property statement).

import (
	"fmt"
	"net/netip"
	"os"
	"sort"
	"strings"
	"sync"
	"testing"

	v3 "github.com/projectcalico/api/pkg/apis/projectcalico/v3"
	googleproto "google.golang.org/protobuf/proto"

	"github.com/projectcalico/calico/felix/generictables"
	"github.com/projectcalico/calico/felix/proto"
	"github.com/projectcalico/calico/felix/rules"
	"github.com/projectcalico/calico/felix/types"
	"github.com/projectcalico/calico/zzverif/nfsim"
	"github.com/projectcalico/calico/zzverif/refpol"
	"github.com/projectcalico/calico/zzverif/vk"
)

// ---------------------------------------------------------------------------------------------
// rule shapes

type c08DV struct{ Dim, Val string }
type c08Shape struct {
	DV     []c08DV // non-default dimensions, in c08Dims order
	Family int     // IP family of the CIDRs / ICMP flavour used to build the rule (4 or 6)
}

func (s c08Shape) get(dim string) string {
	for _, x := range s.DV {
		if x.Dim == dim {
			return x.Val
		}
	}
	return ""
}

func (s c08Shape) sig() string {
	parts := make([]string, 0, len(s.DV)+1)
	for _, x := range s.DV {
		parts = append(parts, x.Dim+"="+x.Val)
	}
	return fmt.Sprintf("f%d{%s}", s.Family, strings.Join(parts, ","))
}

// dimsOnly is the family- and action-independent part of the signature (for violation keys).
func (s c08Shape) dimsOnly() string {
	var parts []string
	for _, x := range s.DV {
		if x.Dim == "action" {
			continue
		}
		parts = append(parts, x.Dim+"="+x.Val)
	}
	return strings.Join(parts, ",")
}

type c08Dim struct {
	Name string
	Vals []string
}

// Every dimension's default is "absent" (action default: allow).
var c08Dims = []c08Dim{
	// '#' = given by number; icmp = icmp (family 4) / icmpv6 (family 6). A NAMED icmp/icmpv6 protocol pins the rule's
	// IP version the way felix/calc does (ipVersionToProtoIPVersion); the numeric form does not.
	{"proto", []string{"tcp", "udp", "icmp", "icmp#", "sctp#"}},
	{"notProto", []string{"tcp", "udp#"}},
	{"srcNet", []string{"1", "2", "3", "mix"}},
	{"dstNet", []string{"1", "2", "3"}},
	{"notSrcNet", []string{"1", "2"}},
	{"notDstNet", []string{"1", "2"}},
	{"srcPorts", []string{"r1", "s16", "r8"}},
	{"dstPorts", []string{"r1", "s16", "r8"}},
	{"srcNamed", []string{"1", "2"}},
	{"dstNamed", []string{"1", "2"}},
	{"srcSets", []string{"1", "2"}},
	{"dstSets", []string{"1", "2"}},
	{"notSrcSets", []string{"1", "2"}},
	{"notDstSets", []string{"1", "2"}},
	{"dstIPPort", []string{"1"}},
	{"notSrcPorts", []string{"r1", "s16"}},
	{"notDstPorts", []string{"r1", "s16"}},
	{"notSrcNamed", []string{"1"}},
	{"notDstNamed", []string{"1"}},
	{"icmp", []string{"t", "tc"}},
	{"notIcmp", []string{"t", "tc", "t0"}}, // t0: negated type WITHOUT the ICMP protocol filled in (the API only requires it for "icmp")
	{"action", []string{"deny", "pass", "log"}},
	{"ipVersion", []string{"4", "6"}},
}

func c08DimIndex(name string) int {
	for i, d := range c08Dims {
		if d.Name == name {
			return i
		}
	}
	panic("no dim " + name)
}

var (
	c08Nets = map[int]struct{ pos, neg []string }{
		// neg[0] lies inside pos[0], neg[1] inside pos[1]
		4: {pos: []string{"10.0.0.0/24", "10.0.2.0/23", "10.0.8.0/30"}, neg: []string{"10.0.0.128/25", "10.0.3.0/24"}},
		6: {pos: []string{"fd00:0:0:1::/64", "fd00:0:0:2::/63", "fd00:0:0:8::/126"}, neg: []string{"fd00:0:0:1:8000::/65", "fd00:0:0:3::/64"}},
	}
	c08Outside = map[int]string{4: "10.9.9.9", 6: "fd00:0:0:99::9"}
)

func c08Ports(kind string, base int32) []*proto.PortRange {
	switch kind {
	case "r1":
		return []*proto.PortRange{{First: base + 100, Last: base + 200}}
	case "s16": // 16 single ports: one more than fits a multiport match
		var out []*proto.PortRange
		for i := int32(0); i < 16; i++ {
			out = append(out, &proto.PortRange{First: base + 1000 + 2*i, Last: base + 1000 + 2*i})
		}
		return out
	case "r8": // 8 ranges = 16 slots: the 8th range does not fit the first match
		var out []*proto.PortRange
		for i := int32(0); i < 8; i++ {
			out = append(out, &proto.PortRange{First: base + 2000 + 20*i, Last: base + 2010 + 20*i})
		}
		return out
	}
	if strings.HasPrefix(kind, "m") && len(kind) == 4 {
		// mixed single/range list with a given total of multiport slots (a range costs 2, a single 1) around the
		// 15-slot limit: "m<slots><order>", order S = singles first, R = ranges first, I = interleaved.
		total := int32(0)
		fmt.Sscan(kind[1:3], &total)
		nSingles := int32(2 - total%2) // 14 -> 2, 15 -> 1, 16 -> 2, 17 -> 1
		nRanges := (total - nSingles) / 2
		single := func(i int32) *proto.PortRange {
			return &proto.PortRange{First: base + 5000 + 10*i, Last: base + 5000 + 10*i}
		}
		rng := func(i int32) *proto.PortRange {
			return &proto.PortRange{First: base + 6000 + 20*i, Last: base + 6010 + 20*i}
		}
		var out []*proto.PortRange
		switch kind[3] {
		case 'S':
			for i := int32(0); i < nSingles; i++ {
				out = append(out, single(i))
			}
			for i := int32(0); i < nRanges; i++ {
				out = append(out, rng(i))
			}
		case 'R':
			for i := int32(0); i < nRanges; i++ {
				out = append(out, rng(i))
			}
			for i := int32(0); i < nSingles; i++ {
				out = append(out, single(i))
			}
		case 'I':
			si, ri := int32(0), int32(0)
			for si < nSingles || ri < nRanges {
				if ri < nRanges {
					out = append(out, rng(ri))
					ri++
				}
				if si < nSingles {
					out = append(out, single(si))
					si++
				}
			}
		}
		return out
	}
	return nil
}

// family (iii): mixed single/range port lists around the 15-slot multiport limit, in every order, for each of
// the four port-list fields alone, and for pairs (src+dst, positive+negated of one side).
func c08MixedPortShapes() []c08Shape {
	var variants []string
	for _, t := range []string{"14", "15", "16", "17"} {
		for _, o := range []string{"S", "R", "I"} {
			variants = append(variants, "m"+t+o)
		}
	}
	var out []c08Shape
	mk := func(dv ...c08DV) {
		sort.SliceStable(dv, func(x, y int) bool { return c08DimIndex(dv[x].Dim) < c08DimIndex(dv[y].Dim) })
		out = append(out, c08Shape{DV: dv})
	}
	for _, v := range variants {
		for _, d := range []string{"srcPorts", "dstPorts", "notSrcPorts", "notDstPorts"} {
			mk(c08DV{d, v})
			mk(c08DV{d, v}, c08DV{"action", "deny"})
		}
		mk(c08DV{"srcPorts", v}, c08DV{"dstPorts", v})
		mk(c08DV{"srcPorts", v}, c08DV{"notSrcPorts", v})
		mk(c08DV{"dstPorts", v}, c08DV{"notDstPorts", v})
		mk(c08DV{"proto", "udp"}, c08DV{"dstPorts", v}, c08DV{"dstNamed", "1"})
	}
	return out
}

func c08IDs(prefix string, n string) []string {
	switch n {
	case "1":
		return []string{prefix + "1"}
	case "2":
		return []string{prefix + "1", prefix + "2"}
	}
	return nil
}

func c08Proto(v string, family int) *proto.Protocol {
	switch v {
	case "tcp":
		return &proto.Protocol{NumberOrName: &proto.Protocol_Name{Name: "tcp"}}
	case "udp":
		return &proto.Protocol{NumberOrName: &proto.Protocol_Name{Name: "udp"}}
	case "udp#":
		return &proto.Protocol{NumberOrName: &proto.Protocol_Number{Number: 17}}
	case "sctp#":
		return &proto.Protocol{NumberOrName: &proto.Protocol_Number{Number: 132}}
	case "icmp":
		if family == 6 {
			return &proto.Protocol{NumberOrName: &proto.Protocol_Name{Name: "icmpv6"}}
		}
		return &proto.Protocol{NumberOrName: &proto.Protocol_Name{Name: "icmp"}}
	case "icmp#":
		if family == 6 {
			return &proto.Protocol{NumberOrName: &proto.Protocol_Number{Number: 58}}
		}
		return &proto.Protocol{NumberOrName: &proto.Protocol_Number{Number: 1}}
	}
	return nil
}

// c08Build turns a shape into a proto.Rule. ok=false: the combination is not a rule Felix can receive
// (numeric ports need a port protocol, ICMP matches need the ICMP protocol — API validation).
func c08Build(s c08Shape) (r *proto.Rule, ok bool) {
	r = &proto.Rule{Action: "allow"}
	n := c08Nets[s.Family]
	needPorts := s.get("srcPorts") != "" || s.get("dstPorts") != "" || s.get("notSrcPorts") != "" || s.get("notDstPorts") != ""
	needICMP := s.get("icmp") != "" || (s.get("notIcmp") != "" && s.get("notIcmp") != "t0")
	pv := s.get("proto")
	if needPorts && needICMP {
		return nil, false
	}
	if needPorts {
		if pv == "" {
			pv = "tcp" // dependency filled in, does not count as a chosen dimension
		} else if pv == "icmp" || pv == "icmp#" {
			return nil, false
		}
	}
	if needICMP {
		if pv == "" {
			pv = "icmp"
		} else if pv != "icmp" && pv != "icmp#" {
			return nil, false
		}
	}
	r.Protocol = c08Proto(pv, s.Family)
	r.NotProtocol = c08Proto(s.get("notProto"), s.Family)
	switch s.get("srcNet") {
	case "1":
		r.SrcNet = n.pos[:1]
	case "2":
		r.SrcNet = n.pos[:2]
	case "3":
		r.SrcNet = n.pos[:3]
	case "mix":
		r.SrcNet = []string{c08Nets[4].pos[0], c08Nets[6].pos[0]}
	}
	switch s.get("dstNet") {
	case "1":
		r.DstNet = n.pos[:1]
	case "2":
		r.DstNet = n.pos[:2]
	case "3":
		r.DstNet = n.pos[:3]
	}
	switch s.get("notSrcNet") {
	case "1":
		r.NotSrcNet = n.neg[:1]
	case "2":
		r.NotSrcNet = n.neg[:2]
	}
	switch s.get("notDstNet") {
	case "1":
		r.NotDstNet = n.neg[:1]
	case "2":
		r.NotDstNet = n.neg[:2]
	}
	r.SrcPorts = c08Ports(s.get("srcPorts"), 0)
	r.DstPorts = c08Ports(s.get("dstPorts"), 0)
	r.NotSrcPorts = c08Ports(s.get("notSrcPorts"), 10000)
	r.NotDstPorts = c08Ports(s.get("notDstPorts"), 10000)
	r.SrcNamedPortIpSetIds = c08IDs("nps", s.get("srcNamed"))
	r.DstNamedPortIpSetIds = c08IDs("npd", s.get("dstNamed"))
	r.NotSrcNamedPortIpSetIds = c08IDs("nnps", s.get("notSrcNamed"))
	r.NotDstNamedPortIpSetIds = c08IDs("nnpd", s.get("notDstNamed"))
	r.SrcIpSetIds = c08IDs("ss", s.get("srcSets"))
	r.DstIpSetIds = c08IDs("sd", s.get("dstSets"))
	r.NotSrcIpSetIds = c08IDs("nss", s.get("notSrcSets"))
	r.NotDstIpSetIds = c08IDs("nsd", s.get("notDstSets"))
	r.DstIpPortSetIds = c08IDs("svc", s.get("dstIPPort"))
	switch s.get("icmp") {
	case "t":
		r.Icmp = &proto.Rule_IcmpType{IcmpType: 8}
	case "tc":
		r.Icmp = &proto.Rule_IcmpTypeCode{IcmpTypeCode: &proto.IcmpTypeAndCode{Type: 8, Code: 1}}
	}
	switch s.get("notIcmp") {
	case "t", "t0":
		r.NotIcmp = &proto.Rule_NotIcmpType{NotIcmpType: 3}
	case "tc":
		r.NotIcmp = &proto.Rule_NotIcmpTypeCode{NotIcmpTypeCode: &proto.IcmpTypeAndCode{Type: 3, Code: 1}}
	}
	if a := s.get("action"); a != "" {
		r.Action = a
	}
	switch s.get("ipVersion") {
	case "4":
		r.IpVersion = proto.IPVersion_IPV4
	case "6":
		r.IpVersion = proto.IPVersion_IPV6
	}
	if pv == "icmp" {
		// what Felix's calculation graph hands to the dataplane: a named ICMP protocol fixes the IP version
		// (calc.ipVersionToProtoIPVersion); the API rejects a contradicting explicit ipVersion.
		want := proto.IPVersion_IPV4
		if s.Family == 6 {
			want = proto.IPVersion_IPV6
		}
		if r.IpVersion != proto.IPVersion_ANY && r.IpVersion != want {
			return nil, false
		}
		r.IpVersion = want
	}
	return r, true
}

// family (i): every combination of at most k non-default dimensions.
func c08CombShapes(k int) []c08Shape {
	var out []c08Shape
	var rec func(start int, cur []c08DV)
	rec = func(start int, cur []c08DV) {
		out = append(out, c08Shape{DV: append([]c08DV{}, cur...)})
		if len(cur) == k {
			return
		}
		for i := start; i < len(c08Dims); i++ {
			for _, v := range c08Dims[i].Vals {
				rec(i+1, append(cur, c08DV{c08Dims[i].Name, v}))
			}
		}
	}
	rec(0, nil)
	return out
}

// family (ii): the block family — every combination of the six block-forming dimensions (each absent or
// in one of its variants), because the match blocks interact through the two scratch mark bits.
func c08BlockShapes(actions []string, netVariants []string) []c08Shape {
	type opt []c08DV
	portOpts := func(ports, named string) []opt {
		return []opt{nil, {{ports, "s16"}}, {{ports, "r1"}, {named, "1"}}}
	}
	netOpts := func(d string) []opt {
		out := []opt{nil}
		for _, v := range netVariants {
			out = append(out, opt{{d, v}})
		}
		return out
	}
	dimsOpts := [][]opt{
		portOpts("srcPorts", "srcNamed"),
		portOpts("dstPorts", "dstNamed"),
		netOpts("srcNet"),
		netOpts("dstNet"),
		{nil, {{"notSrcNet", "1"}}, {{"notSrcNet", "2"}}},
		{nil, {{"notDstNet", "1"}}, {{"notDstNet", "2"}}},
	}
	var out []c08Shape
	var rec func(i int, cur []c08DV)
	rec = func(i int, cur []c08DV) {
		if i == len(dimsOpts) {
			for _, a := range actions {
				dv := append([]c08DV{}, cur...)
				if a != "allow" {
					dv = append(dv, c08DV{"action", a})
				}
				sort.SliceStable(dv, func(x, y int) bool { return c08DimIndex(dv[x].Dim) < c08DimIndex(dv[y].Dim) })
				out = append(out, c08Shape{DV: dv})
			}
			return
		}
		for _, o := range dimsOpts[i] {
			rec(i+1, append(append([]c08DV{}, cur...), o...))
		}
	}
	rec(0, nil)
	return out
}

// ---------------------------------------------------------------------------------------------
// packets

type c08Pkt struct {
	Src, Dst  string
	Proto     int
	SPort     int
	DPort     int
	IType     int
	ICode     int
	Tags      []string // set tags that are true: "<field>:<id>" with field in sip,dip,sipp,dipp
	Mark      uint32
	IPVersion int

	nf  nfsim.Packet
	ref *refpol.Packet
	tri refpol.Tri
}

type c08Tag struct{ field, id string }

func c08PortProbes(prs []*proto.PortRange, thorough bool) []int {
	var out []int
	add := func(v int32) {
		if v >= 0 && v <= 65535 {
			out = append(out, int(v))
		}
	}
	if len(prs) == 0 {
		return nil
	}
	if thorough || len(prs) <= 2 {
		for _, r := range prs {
			add(r.First - 1)
			add(r.First)
			add(r.Last)
			add(r.Last + 1)
		}
		return out
	}
	// long lists: first element, the last one that fits the first multiport match, the first one of the
	// second match, the last element, and the neighbours outside
	splits := rules.SplitPortList(prs)
	add(prs[0].First - 1)
	add(prs[0].First)
	add(prs[0].Last + 1)
	if len(splits) > 1 {
		l := splits[0][len(splits[0])-1]
		add(l.Last)
		add(l.Last + 1)
		f := splits[1][0]
		add(f.First)
	}
	last := prs[len(prs)-1]
	add(last.Last)
	add(last.Last + 1)
	return out
}

func c08AddrProbes(cidrs []string, ipv int, thorough bool) []string {
	var out []string
	for _, c := range cidrs {
		p, err := netip.ParsePrefix(c)
		if err != nil || p.Addr().Is4() != (ipv == 4) {
			continue
		}
		first := p.Masked().Addr()
		out = append(out, first.String())
		if thorough {
			// last address of the prefix, and the neighbours just outside
			b := first.AsSlice()
			bits := p.Bits()
			for i := bits; i < len(b)*8; i++ {
				b[i/8] |= 1 << (7 - uint(i%8))
			}
			last, _ := netip.AddrFromSlice(b)
			out = append(out, last.String())
			if n := last.Next(); n.IsValid() {
				out = append(out, n.String())
			}
			if pv := first.Prev(); pv.IsValid() {
				out = append(out, pv.String())
			}
		}
	}
	return out
}

func c08Uniq[T comparable](in []T) []T {
	seen := map[T]bool{}
	var out []T
	for _, x := range in {
		if !seen[x] {
			seen[x] = true
			out = append(out, x)
		}
	}
	return out
}

// c08Packets: the full product of the probe values of every field the rule constrains.
func c08Packets(r *proto.Rule, ipv int, marks []uint32, thorough bool) []c08Pkt {
	icmpP := refpol.ProtoICMP
	if ipv == 6 {
		icmpP = refpol.ProtoICMPv6
	}
	srcs := append(c08AddrProbes(r.SrcNet, ipv, thorough), c08AddrProbes(r.NotSrcNet, ipv, thorough)...)
	srcs = c08Uniq(append(srcs, c08Outside[ipv]))
	dsts := append(c08AddrProbes(r.DstNet, ipv, thorough), c08AddrProbes(r.NotDstNet, ipv, thorough)...)
	dsts = c08Uniq(append(dsts, c08Outside[ipv]))
	protoish := r.Protocol != nil || r.NotProtocol != nil || r.Icmp != nil || r.NotIcmp != nil
	protos := []int{refpol.ProtoTCP, icmpP}
	if protoish {
		protos = []int{refpol.ProtoTCP, refpol.ProtoUDP, icmpP}
		for _, rp := range []*proto.Protocol{r.Protocol, r.NotProtocol} {
			if rp != nil {
				if n, ok := refpol.ProtocolNumber(rp); ok {
					protos = append(protos, n)
				}
			}
		}
		if thorough {
			protos = append(protos, refpol.ProtoSCTP)
		}
		protos = c08Uniq(protos)
	}
	sports := c08Uniq(append(append(c08PortProbes(r.SrcPorts, thorough), c08PortProbes(r.NotSrcPorts, thorough)...), 5000))
	dports := c08Uniq(append(append(c08PortProbes(r.DstPorts, thorough), c08PortProbes(r.NotDstPorts, thorough)...), 5000))
	itypes, icodes := []int{8}, []int{0}
	if r.Icmp != nil || r.NotIcmp != nil {
		itypes, icodes = []int{3, 8, 11}, []int{0, 1}
		if thorough {
			icodes = []int{0, 1, 2}
		}
	}
	var tags []c08Tag
	for _, id := range append(append([]string{}, r.SrcIpSetIds...), r.NotSrcIpSetIds...) {
		tags = append(tags, c08Tag{"sip", id})
	}
	for _, id := range append(append([]string{}, r.DstIpSetIds...), r.NotDstIpSetIds...) {
		tags = append(tags, c08Tag{"dip", id})
	}
	for _, id := range append(append([]string{}, r.SrcNamedPortIpSetIds...), r.NotSrcNamedPortIpSetIds...) {
		tags = append(tags, c08Tag{"sipp", id})
	}
	for _, id := range append(append(append([]string{}, r.DstNamedPortIpSetIds...), r.NotDstNamedPortIpSetIds...), r.DstIpPortSetIds...) {
		tags = append(tags, c08Tag{"dipp", id})
	}
	var out []c08Pkt
	for _, s := range srcs {
		for _, d := range dsts {
			for _, pr := range protos {
				sp, dp, it, ic := []int{0}, []int{0}, []int{0}, []int{0}
				switch {
				case refpol.HasPorts(pr):
					sp, dp = sports, dports
				case pr == icmpP:
					it, ic = itypes, icodes
				}
				for _, a := range sp {
					for _, b := range dp {
						for _, t := range it {
							for _, cd := range ic {
								for m := 0; m < 1<<len(tags); m++ {
									var on []string
									for i, tg := range tags {
										if m&(1<<i) != 0 {
											on = append(on, tg.field+":"+tg.id)
										}
									}
									for _, mk := range marks {
										out = append(out, c08Pkt{Src: s, Dst: d, Proto: pr, SPort: a, DPort: b, IType: t, ICode: cd, Tags: on, Mark: mk, IPVersion: ipv})
									}
								}
							}
						}
					}
				}
			}
		}
	}
	return out
}

func (p c08Pkt) toNfsim() nfsim.Packet {
	q := nfsim.Packet{IPVersion: p.IPVersion, Src: netip.MustParseAddr(p.Src), Dst: netip.MustParseAddr(p.Dst), Proto: p.Proto,
		SPort: p.SPort, DPort: p.DPort, ICMPType: p.IType, ICMPCode: p.ICode, Mark: p.Mark, InIface: "cali1", OutIface: "eth0"}
	if len(p.Tags) > 0 {
		q.Sets = map[string]bool{}
		for _, t := range p.Tags {
			f, id, _ := strings.Cut(t, ":")
			dims := map[string]string{"sip": "src", "dip": "dst", "sipp": "src,src", "dipp": "dst,dst"}[f]
			q.Sets[nfsim.SetKey(vSetName(p.IPVersion, id), dims)] = true
		}
	}
	return q
}

func (p c08Pkt) toRef() *refpol.Packet {
	q := &refpol.Packet{IPVersion: p.IPVersion, Src: netip.MustParseAddr(p.Src), Dst: netip.MustParseAddr(p.Dst), Proto: p.Proto,
		SrcPort: p.SPort, DstPort: p.DPort, ICMPType: p.IType, ICMPCode: p.ICode,
		SrcIPSets: map[string]bool{}, DstIPSets: map[string]bool{}, SrcIPPortSets: map[string]bool{}, DstIPPortSets: map[string]bool{}}
	for _, t := range p.Tags {
		f, id, _ := strings.Cut(t, ":")
		switch f {
		case "sip":
			q.SrcIPSets[id] = true
		case "dip":
			q.DstIPSets[id] = true
		case "sipp":
			q.SrcIPPortSets[id] = true
		case "dipp":
			q.DstIPPortSets[id] = true
		}
	}
	return q
}

// ---------------------------------------------------------------------------------------------
// one case = (shape, renderer kind, flow logs, IP version)

type c08Case struct {
	Shape    c08Shape
	Kind     string // "ipt" | "nft"
	FlowLogs bool
	IPV      int
}

type c08Detail struct {
	Case     c08Case
	Rule     string
	Rendered []string
	Packet   *c08Pkt       `json:",omitempty"`
	Ref      string        `json:",omitempty"`
	Got      *nfsim.Result `json:",omitempty"`
	Why      string
}

const c08Chain = "cali-pi-c08"

var c08PolID = &types.PolicyID{Name: "c08", Kind: v3.KindGlobalNetworkPolicy}

type c08Renderers struct {
	m map[[2]bool]*rules.DefaultRuleRenderer
}

func c08NewRenderers() *c08Renderers {
	r := &c08Renderers{m: map[[2]bool]*rules.DefaultRuleRenderer{}}
	for _, nft := range []bool{false, true} {
		for _, fl := range []bool{false, true} {
			k := nfsim.Iptables
			if nft {
				k = nfsim.Nft
			}
			r.m[[2]bool{nft, fl}] = vRenderer(k, fl)
		}
	}
	return r
}

// c08Positive3: the rule with every positive match block after the second removed (what a renderer that
// forgets to reset the per-block scratch bit effectively evaluates), or nil when there are < 3 such blocks.
func c08Positive3(r *proto.Rule, ipv int) *proto.Rule {
	cp := googleproto.Clone(r).(*proto.Rule)
	n := 0
	countNets := func(l []string) int {
		k := 0
		for _, c := range l {
			if strings.Contains(c, ":") == (ipv == 6) {
				k++
			}
		}
		return k
	}
	if len(rules.SplitPortList(r.SrcPorts))+len(r.SrcNamedPortIpSetIds) > 1 {
		n++
	}
	if len(rules.SplitPortList(r.DstPorts))+len(r.DstNamedPortIpSetIds) > 1 {
		n++
		if n > 2 {
			cp.DstPorts, cp.DstNamedPortIpSetIds = nil, nil
		}
	}
	if countNets(r.SrcNet) > 1 {
		n++
		if n > 2 {
			cp.SrcNet = nil
		}
	}
	if countNets(r.DstNet) > 1 {
		n++
		if n > 2 {
			cp.DstNet = nil
		}
	}
	if n < 3 {
		return nil
	}
	return cp
}

var c08Out vOutcomes

type c08Stats struct {
	evals, yes, no, unspec int64
}

type c08Prepared struct {
	rule    *proto.Rule
	pos3    *proto.Rule
	packets []c08Pkt // without marks; marks are applied per rendering
}

func c08Prepare(shape c08Shape, ipv int, thorough bool) *c08Prepared {
	rule, ok := c08Build(shape)
	if !ok {
		return nil
	}
	p := &c08Prepared{rule: rule, pos3: c08Positive3(rule, ipv)}
	p.packets = c08Packets(rule, ipv, []uint32{0}, thorough)
	for i := range p.packets {
		pk := &p.packets[i]
		pk.nf = pk.toNfsim()
		pk.ref = pk.toRef()
		pk.tri = refpol.RuleMatches(rule, pk.ref)
	}
	return p
}

type c08OutcomeKey struct {
	kind, action string
	ref          refpol.Tri
	taken        bool
	nflogs       int
}

// c08Run renders and explores one case. It returns false when a tool error stopped it.
func c08Run(c *vk.Ctx, rr *c08Renderers, cs c08Case, prep *c08Prepared, st *c08Stats, outcomes map[c08OutcomeKey]bool, dump map[string]bool) bool {
	rule := prep.rule
	kind := nfsim.Iptables
	if cs.Kind == "nft" {
		kind = nfsim.Nft
	}
	drr := rr.m[[2]bool{kind == nfsim.Nft, cs.FlowLogs}]
	var rs []generictables.Rule
	if err := vk.Catch(func() error {
		rs = drr.ProtoRuleToIptablesRules(rule, uint8(cs.IPV), rules.RuleOwnerTypePolicy, rules.RuleDirIngress, 0, c08PolID, "default", false)
		return nil
	}); err != nil {
		c.Violation("C08:"+cs.Kind+":renderer-panic:"+cs.Shape.dimsOnly(), c08Detail{Case: cs, Rule: vk.JSON(rule), Why: err.Error()})
		return true
	}
	nRendered := len(rs)
	chain := &generictables.Chain{Name: c08Chain, Rules: append(append([]generictables.Rule{}, rs...),
		generictables.Rule{Match: drr.NewMatch(), Action: drr.SetMark(vMarkSentinel), Comment: []string{"sentinel"}})}
	b := nfsim.NewBuilder(kind, uint8(cs.IPV), "filter")
	b.Table().UpdateChain(chain)
	if dump != nil {
		for _, l := range b.Lines() {
			dump[cs.Kind+fmt.Sprint(cs.IPV)+"\t"+l] = true
		}
	}
	ruleset, err := b.Ruleset()
	if err != nil {
		le, tool := vClassify(err)
		if tool != nil {
			c.ToolError(fmt.Sprintf("case %s: %v", vk.JSON(cs), tool))
			return false
		}
		// The rendered text would be refused by the real loader: the rule can never take its action
		// (and in practice the whole table update fails).
		key := "C08:" + cs.Kind + "-unloadable-" + le.Class
		switch le.Class {
		case "multiple-p-flags":
			key = "C08:ipt-protocol-and-notprotocol-unloadable"
		case "nft-bare-header-field":
			key = "C08:nft-icmp-type-code-unloadable"
		case "icmp-match-needs-icmp-proto":
			// two shapes, keyed apart so that the repaired one is re-reported if it ever returns:
			// the rule's protocol match excludes ICMP (repaired in /repo: the ICMP match is dropped /
			// the rule is not rendered) vs. the rule has no protocol match that pins or excludes ICMP.
			key = "C08:ipt-icmp-match-without-icmp-protocol-unloadable:no-protocol-match-pins-icmp"
			if rule.Protocol != nil || c08IsICMPProto(rule.NotProtocol) {
				key = "C08:ipt-icmp-match-without-icmp-protocol-unloadable:protocol-excludes-icmp"
			}
		case "nft-conflicting-protocols":
			key = "C08:nft-icmp-match-conflicting-protocol-unloadable"
		}
		c.Violation(key, c08Detail{Case: cs, Rule: vk.JSON(rule), Rendered: b.Lines(), Why: le.Error()})
		c08Out.add(c, "unloadable/"+cs.Kind+"/"+le.Class)
		if le.Class != "nft-bare-header-field" {
			return true
		}
		// keep exploring the semantics of the text as its author meant it
		b.Lenient = true
		if ruleset, err = b.Ruleset(); err != nil {
			le2, tool := vClassify(err)
			if tool != nil {
				c.ToolError(fmt.Sprintf("case %s (lenient): %v", vk.JSON(cs), tool))
				return false
			}
			// a second, independent reason the same text would not load
			if le2.Class == "nft-conflicting-protocols" {
				c.Violation("C08:nft-icmp-match-conflicting-protocol-unloadable", c08Detail{Case: cs, Rule: vk.JSON(rule), Rendered: b.Lines(), Why: le2.Error()})
				c08Out.add(c, "unloadable/"+cs.Kind+"/"+le2.Class)
			}
			return true
		}
	}
	entry := b.ChainName(c08Chain)
	marks := []uint32{vMarkForeign, vMarkForeign | vMarkScratch0 | vMarkScratch1}
	if nRendered > 3 {
		marks = []uint32{vMarkForeign, vMarkForeign | vMarkScratch0, vMarkForeign | vMarkScratch1, vMarkForeign | vMarkScratch0 | vMarkScratch1}
	}
	action, _ := refpol.ParseAction(rule.Action)
	verdictBits := uint32(vMarkAccept | vMarkPass | vMarkDrop)
	for i := range prep.packets {
		for _, mk := range marks {
			pk := &prep.packets[i]
			ref := pk.tri
			q := pk.nf
			q.Mark = mk
			res, err := ruleset.Eval(entry, q, false)
			st.evals++
			if err != nil {
				c.ToolError(fmt.Sprintf("case %s packet %s: %v", vk.JSON(cs), vk.JSON(pk), err))
				return false
			}
			sentinel := res.Mark&vMarkSentinel != 0
			vb := res.Mark & verdictBits
			logged := false
			nflogs := 0
			for _, l := range res.Logs {
				if strings.HasPrefix(l, "LOG:") || strings.HasPrefix(l, "log::") {
					logged = true
				} else {
					nflogs++
				}
			}
			fell := res.Verdict == "RETURN" && sentinel && vb == 0 && !logged
			taken := false
			switch action {
			case refpol.Allow:
				taken = res.Verdict == "RETURN" && !sentinel && vb == vMarkAccept && !logged
			case refpol.Pass:
				taken = res.Verdict == "RETURN" && !sentinel && vb == vMarkPass && !logged
			case refpol.Deny:
				taken = res.Verdict == "DROP" && !sentinel && vb == vMarkDrop && !logged
			case refpol.Log:
				// a log rule's action is to log and carry on with the next rule
				taken = res.Verdict == "RETURN" && sentinel && vb == 0 && logged
			}
			bad := ""
			switch {
			case !taken && !fell:
				bad = "malformed"
			case ref == refpol.Yes && !taken:
				bad = "not-taken"
			case ref == refpol.No && !fell:
				bad = "taken-without-match"
			}
			switch ref {
			case refpol.Yes:
				st.yes++
			case refpol.No:
				st.no++
			default:
				st.unspec++
			}
			outcomes[c08OutcomeKey{cs.Kind, rule.Action, ref, taken, nflogs}] = true
			if bad == "" {
				continue
			}
			key := "C08:" + cs.Kind + ":" + bad + ":" + cs.Shape.dimsOnly()
			why := bad
			if bad == "taken-without-match" && prep.pos3 != nil && refpol.RuleMatches(prep.pos3, pk.ref) == refpol.Yes {
				key = "C08:third-positive-block-ignored"
				why = "the rule's action is taken although a positive match block after the second one does not match (packet matches the rule with those blocks removed)"
			}
			if ic, isTC := rule.NotIcmp.(*proto.Rule_NotIcmpTypeCode); isTC && cs.Kind == "nft" && bad == "not-taken" {
				tEq := pk.IType == int(ic.NotIcmpTypeCode.Type)
				cEq := pk.ICode == int(ic.NotIcmpTypeCode.Code)
				if tEq != cEq {
					key = "C08:nft-not-icmp-type-code"
					why = "negated ICMP type+code is rendered as 'type != T' AND 'code != C' instead of NOT(type == T AND code == C)"
				}
			}
			resT, _ := ruleset.Eval(entry, q, true)
			pcopy := *pk
			pcopy.Mark = mk
			c.Violation(key, c08Detail{Case: cs, Rule: vk.JSON(rule), Rendered: b.Lines(), Packet: &pcopy, Ref: ref.String(), Got: &resT, Why: why})
		}
	}
	return true
}

func c08Families(s c08Shape) []int {
	fams := []int{4}
	for _, d := range []string{"srcNet", "dstNet", "notSrcNet", "notDstNet", "icmp", "notIcmp"} {
		if s.get(d) != "" {
			return []int{4, 6}
		}
	}
	if s.get("proto") == "icmp" || s.get("proto") == "icmp#" {
		return []int{4, 6}
	}
	return fams
}

func TestVerif_C08(t *testing.T) {
	vk.Run(t, "C08", func(c *vk.Ctx) {
		vQuiet()
		if !vSelfTest(c) {
			return
		}
		rr := c08NewRenderers()
		c.Rule("states = distinct (proto.Rule, IP version) pairs rendered by the real renderer; renderings = states x {iptables,nftables} x {flow logs off,on}; " +
			"rule shapes = <=3-dimension combinations + block family + mixed single/range port lists around the 15-slot multiport limit; transitions = packets executed by nfsim through the rendered rule + sentinel; packets = full product of boundary values of every field the rule constrains " +
			"x scratch-bit garbage in the initial mark; non-trivial = rule/IP-version pairs for which both a matching and a non-matching packet were executed")
		c.Assume("policy chains are entered with the accept, pass and drop mark bits clear (the endpoint/group chains guarantee it); scratch bits and foreign bits are arbitrary")
		c.Assume("IP-set membership is an abstract boolean tag per (set, src|dst[,port]) — set contents are not materialised")
		c.Assume("nfsim reading of netfilter semantics (self-tested at start-up; syntax acceptance probed against iptables v1.8.9 / nft v1.0.6 on the build host)")

		if rf := c.ReplayFile(); rf != "" {
			var d c08Detail
			if err := vk.LoadReplay(rf, &d); err != nil {
				c.ToolError("replay: " + err.Error())
				return
			}
			var st c08Stats
			prep := c08Prepare(d.Case.Shape, d.Case.IPV, true)
			if prep == nil {
				c.ToolError("replay: shape is not buildable")
				return
			}
			c08Run(c, rr, d.Case, prep, &st, map[c08OutcomeKey]bool{}, nil)
			c.Add("states", 1)
			c.Add("transitions", st.evals)
			c.Sample(d.Case)
			return
		}

		thorough := c.Thorough()
		k := c.Pick(3, 3)
		if v := os.Getenv("VERIF_C08_K"); v != "" {
			fmt.Sscan(v, &k)
		}
		var shapes []c08Shape
		shapes = append(shapes, c08CombShapes(k)...)
		nComb := len(shapes)
		blockActions, blockNets := []string{"allow", "deny"}, []string{"1", "2"}
		if thorough {
			blockActions, blockNets = []string{"allow", "deny", "pass", "log"}, []string{"1", "2", "3"}
		}
		shapes = append(shapes, c08BlockShapes(blockActions, blockNets)...)
		nBlockEnd := len(shapes)
		shapes = append(shapes, c08MixedPortShapes()...)
		c.Extra("shapes_comb", nComb)
		c.Extra("shapes_block_family", nBlockEnd-nComb)
		c.Extra("shapes_mixed_port_family", len(shapes)-nBlockEnd)
		c.Extra("max_nondefault_dims", k)

		// one job = one proto.Rule (shape + family); it is rendered for IPv4 and IPv6, both dataplanes,
		// flow logs off and on. Quick tier trims renderings that cannot differ: rules without any
		// IP-family-sensitive field are rendered for IPv4 only, and flow logs "on" (which only adds an
		// NFLOG rule next to the final action) is exercised for every rule with <= 2 non-default dimensions.
		type job struct {
			shape      c08Shape
			ipvs       []int
			flows      []bool
			fullProbes bool // every CIDR edge / port-range end (thorough tier, combination family)
		}
		var jobs []job
		seen := map[string]bool{}
		for i, s := range shapes {
			block := i >= nComb
			mixed := i >= nBlockEnd
			fams := c08Families(s)
			if block && !thorough {
				fams = []int{4}
			}
			for _, f := range fams {
				s2 := c08Shape{DV: s.DV, Family: f}
				if _, ok := c08Build(s2); !ok {
					continue
				}
				if seen[s2.sig()] {
					continue
				}
				seen[s2.sig()] = true
				j := job{shape: s2, ipvs: []int{4, 6}, flows: []bool{false, true}, fullProbes: (thorough && !block) || mixed}
				if !thorough {
					if (len(fams) == 1 && s.get("ipVersion") == "") || block {
						j.ipvs = []int{4}
					}
					if block || len(s.DV) > 2 {
						j.flows = []bool{false}
					}
				}
				jobs = append(jobs, j)
			}
		}

		var dump map[string]bool
		dumpPath := os.Getenv("VERIF_C08_DUMP")
		if dumpPath != "" {
			dump = map[string]bool{}
		}

		workers := 6
		ch := make(chan job, 64)
		var wg sync.WaitGroup
		var mu sync.Mutex
		var total c08Stats
		var states, renderings int64
		stop := false
		sampled := 0
		for w := 0; w < workers; w++ {
			wg.Add(1)
			go func() {
				defer wg.Done()
				for j := range ch {
					mu.Lock()
					s := stop
					mu.Unlock()
					if s {
						continue
					}
					if c.Expired() {
						c.Capped("deadline reached before all rule shapes were explored")
						mu.Lock()
						stop = true
						mu.Unlock()
						continue
					}
					var st c08Stats
					outcomes := map[c08OutcomeKey]bool{}
					var localDump map[string]bool
					if dump != nil {
						localDump = map[string]bool{}
					}
					ok := true
					nr := 0
				ipvs:
					for _, ipv := range j.ipvs {
						prep := c08Prepare(j.shape, ipv, j.fullProbes)
						before := st
						for _, kd := range []string{"ipt", "nft"} {
							for _, fl := range j.flows {
								nr++
								if !c08Run(c, rr, c08Case{Shape: j.shape, Kind: kd, FlowLogs: fl, IPV: ipv}, prep, &st, outcomes, localDump) {
									ok = false
									break ipvs
								}
							}
						}
						if st.yes > before.yes && st.no > before.no {
							c.Nontrivial(j.shape.sig() + fmt.Sprint(ipv))
						}
					}
					for o := range outcomes {
						c08Out.add(c, fmt.Sprintf("%s/%s/ref=%s/taken=%v/nflog=%d", o.kind, o.action, o.ref, o.taken, o.nflogs))
					}
					mu.Lock()
					if !ok {
						stop = true
					}
					states += int64(len(j.ipvs))
					renderings += int64(nr)
					total.evals += st.evals
					total.yes += st.yes
					total.no += st.no
					total.unspec += st.unspec
					if sampled < 4 && len(j.shape.DV) >= 2 && st.yes > 0 {
						sampled++
						r, _ := c08Build(j.shape)
						c.Sample(map[string]any{"shape": j.shape.sig(), "rule": vk.JSON(r), "renderings": nr, "packets_executed": st.evals, "ref_yes": st.yes, "ref_no": st.no})
					}
					for l := range localDump {
						dump[l] = true
					}
					mu.Unlock()
				}
			}()
		}
		for _, j := range jobs {
			ch <- j
		}
		close(ch)
		wg.Wait()
		c.Add("states", states)
		c.Add("transitions", total.evals)
		c.Add("renderings", renderings)
		c.Add("rules", int64(len(jobs)))
		c.Add("ref_yes", total.yes)
		c.Add("ref_no", total.no)
		c.Add("ref_unspecified", total.unspec)
		c08Out.publish(c)
		fmt.Printf("INFO C08 rules=%d (rule,ipVersion) pairs=%d renderings=%d packets=%d ref yes/no/unspecified=%d/%d/%d\n", len(jobs), states, renderings, total.evals, total.yes, total.no, total.unspec)
		if dump != nil {
			var lines []string
			for l := range dump {
				lines = append(lines, l)
			}
			sort.Strings(lines)
			_ = os.WriteFile(dumpPath, []byte(strings.Join(lines, "\n")+"\n"), 0o644)
		}
	})
}

func c08IsICMPProto(p *proto.Protocol) bool {
	if p == nil {
		return false
	}
	switch v := p.NumberOrName.(type) {
	case *proto.Protocol_Number:
		return v.Number == 1 || v.Number == 58
	case *proto.Protocol_Name:
		n := strings.ToLower(v.Name)
		return n == "icmp" || n == "icmpv6"
	}
	return false
}

package utils

// Overlaid (check time only, never in /repo) next to cni-plugin/internal/pkg/utils/utils.go by the
// C38 harness. The harness' target.json inserts, textually, a call to this variable as the first
// statement of CreateClient, so that the REAL cmdAdd/cmdDel of the IPAM plugin obtain a
// clientv3.Interface over the in-memory datastore of the world named in the network config.

import (
	"github.com/projectcalico/calico/cni-plugin/pkg/types"
	client "github.com/projectcalico/calico/libcalico-go/lib/clientv3"
)

// VerifCreateClient, when set, is consulted first by CreateClient; ok=false falls through to the
// original body.
var VerifCreateClient func(conf types.NetConf) (c client.Interface, err error, ok bool)

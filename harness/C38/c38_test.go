package ipamplugin

// C38 — CNI delete is idempotent and leaves no address behind.
//
// Explicit-state search over the REAL cmdAdd / cmdDel of the Calico IPAM CNI plugin. The plugin's
// datastore client is a real clientv3 client (clientv3.NewFromBackend) over the in-memory
// compare-and-swap datastore `casstore`; it is handed to the plugin through a check-time textual
// insertion at the top of utils.CreateClient (target.json "rewrites"; /repo is not touched).
//
// A state is the complete datastore content (plus two bits of oracle memory). A transition is one
// CNI command (ADD / DEL for container c1 or c2) executed under one *decision list*: every backend
// call the command performs is a decision point (proceed | error before the call | lost reply =
// the write is applied and an error is returned | a genuine compare-and-swap conflict) and every
// `for … range handle.Block` loop in ReleaseByHandle is a decision point too (its map order, made
// controllable by a second textual rewrite, see engine/maporder). All decision lists with at most
// F faults per command are enumerated by depth-first re-execution from a copy of the state
// (stateless-model-checking style: run, look at the points that occurred, branch on each).
// States are merged on a canonical rendering of the store; the search is breadth-first to the depth
// bound.

import (
	"encoding/json"
	"fmt"
	"net"
	"os"
	"path/filepath"
	"regexp"
	"runtime"
	"runtime/debug"
	"sort"
	"strconv"
	"strings"
	"sync"
	"sync/atomic"
	"testing"

	"github.com/containernetworking/cni/pkg/skel"
	v3 "github.com/projectcalico/api/pkg/apis/projectcalico/v3"
	"github.com/sirupsen/logrus"
	"context"

	"github.com/projectcalico/calico/cni-plugin/internal/pkg/utils"
	"github.com/projectcalico/calico/cni-plugin/pkg/types"
	"github.com/projectcalico/calico/libcalico-go/lib/apiconfig"
	"github.com/projectcalico/calico/libcalico-go/lib/apis/internalapi"
	"github.com/projectcalico/calico/libcalico-go/lib/backend/model"
	client "github.com/projectcalico/calico/libcalico-go/lib/clientv3"
	"github.com/projectcalico/calico/libcalico-go/lib/ipam"
	cnet "github.com/projectcalico/calico/libcalico-go/lib/net"
	"github.com/projectcalico/calico/zzverif/casstore"
	"github.com/projectcalico/calico/zzverif/maporder"
	"github.com/projectcalico/calico/zzverif/vk"
)

const (
	c38Net  = "net1"
	c38Node = "n1"
	c38NS   = "ns1"
	c38Pod  = "p1"
)

// ---- scenarios ------------------------------------------------------------------------------------

type c38Scenario struct {
	Name   string
	K8s    bool // CNI_ARGS carry K8S_POD_NAMESPACE / K8S_POD_NAME (no API lookups are configured)
	V4, V6 bool // requested families (assign_ipv4 / assign_ipv6)
	Legacy bool // an address is pre-allocated under the workload-id handle (a v2.x-upgrade leftover)
	Full4  bool // the IPv4 pool is completely used by other containers
	Full6  bool // the IPv6 pool is completely used by other containers
	Left4  int  // with Full4: that many IPv4 addresses are left free after all
	Left6  int  // with Full6: that many IPv6 addresses are left free after all
	Pool4  string
	BS4    int
	Pool6  string
	BS6    int
	Quick, Thorough []c38Pass
}

// c38Pass is one bounded search of a scenario: histories of at most Depth commands, of which at
// most Faulty run with injected faults (0: no limit), each with at most PerCmd faults.
type c38Pass struct {
	Depth, Faulty, PerCmd int
}

func c38Scenarios() []c38Scenario {
	// Tiny pools on purpose: blocks of two addresses, so that "the block fills up", "the host needs
	// a second block" and "the pool is exhausted" all happen within a handful of commands.
	P := func(d, f, n int) c38Pass { return c38Pass{Depth: d, Faulty: f, PerCmd: n} }
	return []c38Scenario{
		{Name: "cni-v4", V4: true, Pool4: "10.0.0.0/30", BS4: 31,
			Quick: []c38Pass{P(5, 1, 1), P(4, 2, 1)}, Thorough: []c38Pass{P(5, 2, 1), P(4, 0, 1), P(3, 1, 2), P(6, 2, 1)}},
		{Name: "k8s-v4-legacy", K8s: true, V4: true, Legacy: true, Pool4: "10.0.0.0/30", BS4: 31,
			Quick: []c38Pass{P(4, 1, 1), P(3, 2, 1)}, Thorough: []c38Pass{P(5, 1, 1), P(4, 2, 1), P(3, 1, 2)}},
		{Name: "k8s-dual", K8s: true, V4: true, V6: true, Pool4: "10.0.0.0/30", BS4: 31, Pool6: "fd00::/126", BS6: 127,
			Quick: []c38Pass{P(4, 1, 1), P(2, 0, 1)}, Thorough: []c38Pass{P(5, 1, 1), P(3, 0, 1), P(4, 2, 1), P(2, 1, 2)}},
		{Name: "cni-dual-v6full", V4: true, V6: true, Full6: true, Pool4: "10.0.0.0/30", BS4: 31, Pool6: "fd00::/127", BS6: 127,
			Quick: []c38Pass{P(4, 2, 1)}, Thorough: []c38Pass{P(5, 2, 1), P(4, 0, 1), P(3, 1, 2)}},
		{Name: "k8s-dual-v4full", K8s: true, V4: true, V6: true, Full4: true, Legacy: true, Pool4: "10.0.0.0/31", BS4: 31, Pool6: "fd00::/126", BS6: 127,
			Quick: []c38Pass{P(4, 1, 1), P(3, 2, 1)}, Thorough: []c38Pass{P(5, 1, 1), P(4, 2, 1), P(3, 1, 2)}},
		// exactly one address of a family left: the first dual-stack ADD of a container succeeds, a second ADD for
		// the same container (same handle) or for another one gets a half success and must roll back only its own address
		{Name: "k8s-dual-v6-one-left", K8s: true, V4: true, V6: true, Full6: true, Left6: 1, Pool4: "10.0.0.0/30", BS4: 31, Pool6: "fd00::/127", BS6: 127,
			Quick: []c38Pass{P(4, 1, 1), P(3, 2, 1), P(5, 0, 0)}, Thorough: []c38Pass{P(5, 1, 1), P(4, 2, 1), P(3, 1, 2)}},
		{Name: "cni-dual-v4-one-left", V4: true, V6: true, Full4: true, Left4: 1, Pool4: "10.0.0.0/31", BS4: 31, Pool6: "fd00::/126", BS6: 127,
			Quick: []c38Pass{P(4, 1, 1), P(3, 2, 1), P(5, 0, 0)}, Thorough: []c38Pass{P(5, 1, 1), P(4, 2, 1), P(3, 1, 2)}},
		{Name: "cni-v4-legacy", V4: true, Legacy: true, Pool4: "10.0.0.0/30", BS4: 31, Thorough: []c38Pass{P(5, 1, 1), P(4, 2, 1)}},
		{Name: "cni-v6", V6: true, Pool6: "fd00::/126", BS6: 127, Thorough: []c38Pass{P(5, 1, 1), P(4, 2, 1)}},
		{Name: "cni-v4-blocks-of-4", V4: true, Pool4: "10.0.0.0/29", BS4: 30, Thorough: []c38Pass{P(5, 1, 1), P(4, 2, 1)}},
		// the most expensive passes last: a deadline then only costs these
		{Name: "cni-v4-deep", V4: true, Pool4: "10.0.0.0/30", BS4: 31, Thorough: []c38Pass{P(4, 1, 2), P(5, 0, 1)}},
	}
}

func (sc *c38Scenario) args() string {
	if sc.K8s {
		return "IgnoreUnknown=1;K8S_POD_NAMESPACE=" + c38NS + ";K8S_POD_NAME=" + c38Pod + ";K8S_POD_INFRA_CONTAINER_ID=x"
	}
	return ""
}

// cidHandle / widHandle are the two handles cmdDel releases (statement: "that container's handles").
func (sc *c38Scenario) cidHandle(c string) string { return c38Net + "." + c }
func (sc *c38Scenario) widHandle(c string) string {
	if sc.K8s {
		return c38NS + "." + c38Pod
	}
	return c
}

func c38Conf(world, lock string, v4, v6 bool) []byte {
	m := map[string]any{
		"cniVersion":     "0.3.1",
		"name":           c38Net,
		"type":           "calico",
		"nodename":       c38Node,
		"log_level":      "error",
		"ipam_lock_file": lock,
		"etcd_endpoints": "verif://" + world,
		"ipam":           map[string]any{"type": "calico-ipam", "assign_ipv4": strconv.FormatBool(v4), "assign_ipv6": strconv.FormatBool(v6)},
	}
	b, _ := json.Marshal(m)
	return b
}

// ---- world: one datastore + decision control ---------------------------------------------------

type c38Point struct {
	Kind  string `json:"kind"`  // "call" | "order"
	Class string `json:"class"` // e.g. "Update:block4", "Get:handle", "order:2"
	Op    string `json:"op"`
	Write bool   `json:"-"`
	CanX  bool   `json:"-"`
	Arity int    `json:"-"`
	Took  string `json:"took,omitempty"`
}

type c38Dec struct {
	At  int
	Alt string // "E" error before | "C" lost reply (applied, then error) | "X" CAS conflict | "p<n>" n-th permutation
}

type c38World struct {
	id     string
	store  *casstore.Store
	mu     sync.Mutex
	dec    map[int]string
	points []c38Point
	bad    string
}

var (
	c38Worlds        sync.Map // id -> *c38World
	c38Seq           atomic.Int64
	c38OverrideCalls atomic.Int64
)

func init() {
	gcp := 400
	if v, err := strconv.Atoi(os.Getenv("C38_GC")); err == nil {
		gcp = v
	}
	debug.SetGCPercent(gcp)
	if gcp < 0 {
		debug.SetMemoryLimit(2 << 30)
	}
	logrus.SetLevel(logrus.PanicLevel)
	logrus.StandardLogger().ExitFunc = func(int) { panic("logrus.Fatal") }
	utils.VerifCreateClient = c38CreateClient
}

// c38CreateClient stands in for the connection set-up of utils.CreateClient (everything after it
// is the real plugin and the real clientv3 / lib/ipam code).
func c38CreateClient(conf types.NetConf) (client.Interface, error, bool) {
	c38OverrideCalls.Add(1)
	if !strings.HasPrefix(conf.EtcdEndpoints, "verif://") {
		return nil, nil, false
	}
	v, ok := c38Worlds.Load(strings.TrimPrefix(conf.EtcdEndpoints, "verif://"))
	if !ok {
		return nil, fmt.Errorf("c38: unknown world %q", conf.EtcdEndpoints), true
	}
	if err := utils.ValidateNetworkName(conf.Name); err != nil {
		return nil, err, true
	}
	cfg := apiconfig.NewCalicoAPIConfig()
	cfg.Spec.DatastoreType = apiconfig.EtcdV3
	return client.NewFromBackend(*cfg, v.(*c38World).store), nil, true
}

func c38NewWorld(items []casstore.Item) *c38World {
	w := &c38World{id: "w" + strconv.FormatInt(c38Seq.Add(1), 10), store: casstore.New()}
	for _, it := range items {
		w.store.Put(&model.KVPair{Key: it.Key, Value: it.Value})
	}
	c38Worlds.Store(w.id, w)
	return w
}

func (w *c38World) close() { c38Worlds.Delete(w.id) }

func c38PathClass(p string) string {
	switch {
	case strings.HasPrefix(p, "/calico/ipam/v2/assignment/ipv4/"):
		return "block4"
	case strings.HasPrefix(p, "/calico/ipam/v2/assignment/ipv6/"):
		return "block6"
	case strings.HasPrefix(p, "/calico/ipam/v2/assignment"):
		return "blocks"
	case strings.HasPrefix(p, "/calico/ipam/v2/handle"):
		return "handle"
	case strings.HasPrefix(p, "/calico/ipam/v2/host"):
		return "affinity"
	case strings.HasPrefix(p, "/calico/ipam/v2/config"):
		return "ipamconfig"
	case strings.Contains(p, "/ippools"):
		return "ippool"
	case strings.Contains(p, "/nodes"):
		return "node"
	case strings.Contains(p, "/ipreservations"):
		return "ipreservation"
	}
	return "other"
}

func (w *c38World) hook(op *casstore.Op) casstore.Decision {
	canX := w.store.CanConflict(op)
	w.mu.Lock()
	defer w.mu.Unlock()
	i := len(w.points)
	pt := c38Point{Kind: "call", Class: op.Kind.String() + ":" + c38PathClass(op.Path), Op: op.Kind.String() + " " + op.Path, Write: op.Write, CanX: canX}
	alt := w.dec[i]
	pt.Took = alt
	w.points = append(w.points, pt)
	switch alt {
	case "":
		return casstore.Decision{}
	case "E":
		return casstore.Decision{Action: casstore.FailBefore, Err: casstore.ErrInjected}
	case "C":
		if op.Write {
			return casstore.Decision{Action: casstore.FailAfter, Err: casstore.ErrInjected}
		}
	case "X":
		if canX {
			return casstore.Decision{Action: casstore.Conflict}
		}
	}
	w.bad = fmt.Sprintf("decision %q does not fit point %d (%s)", alt, i, pt.Op)
	return casstore.Decision{}
}

func (w *c38World) order(sorted []string) []string {
	w.mu.Lock()
	defer w.mu.Unlock()
	i := len(w.points)
	pt := c38Point{Kind: "order", Class: "order:" + strconv.Itoa(len(sorted)), Op: "range over " + strings.Join(sorted, ","), Arity: len(sorted)}
	alt := w.dec[i]
	pt.Took = alt
	w.points = append(w.points, pt)
	idx := 0
	if alt != "" {
		n, err := strconv.Atoi(strings.TrimPrefix(alt, "p"))
		if err != nil || !strings.HasPrefix(alt, "p") || n >= maporder.NumPerms(len(sorted)) {
			w.bad = fmt.Sprintf("decision %q does not fit point %d (%s)", alt, i, pt.Op)
		} else {
			idx = n
		}
	}
	return maporder.Perm(sorted, idx)
}

type c38Cmd struct {
	Op string // ADD | DEL
	C  string // container id
}

func (c c38Cmd) String() string { return c.Op + "(" + c.C + ")" }

type c38Run struct {
	Cmd    c38Cmd
	Decs   []c38Dec
	Err    error
	Panic  string
	Points []c38Point
	Items  []casstore.Item
}

func (r *c38Run) label() string {
	s := r.Cmd.String()
	for _, d := range r.Decs {
		if strings.HasPrefix(d.Alt, "p") {
			s += "~" + strconv.Itoa(d.At) + d.Alt
		} else {
			s += "!" + strconv.Itoa(d.At) + d.Alt
		}
	}
	return s
}

// faultClass names the faults of a run by what they hit (stable across runs): "none" or e.g.
// "C@Update:block4" / "C@Delete:handle+E@Get:handle" (lost replies first, then in order of occurrence).
func (r *c38Run) faultClass() string {
	var lost, other []string
	for _, d := range r.Decs {
		if !strings.HasPrefix(d.Alt, "p") && d.At < len(r.Points) {
			f := d.Alt + "@" + r.Points[d.At].Class
			if d.Alt == "C" {
				lost = append(lost, f) // lost replies first: they are what leaves state the client does not know about
			} else {
				other = append(other, f)
			}
		}
	}
	fs := append(lost, other...)
	if len(fs) == 0 {
		return "none"
	}
	return strings.Join(fs, "+")
}

func (r *c38Run) nFaults() int {
	n := 0
	for _, d := range r.Decs {
		if !strings.HasPrefix(d.Alt, "p") {
			n++
		}
	}
	return n
}

var c38LabelRe = regexp.MustCompile(`^(ADD|DEL)\((\w+)\)((?:[!~]\d+(?:E|C|X|p\d+))*)$`)
var c38DecRe = regexp.MustCompile(`[!~](\d+)(E|C|X|p\d+)`)

func c38ParseLabel(s string) (c38Cmd, []c38Dec, error) {
	m := c38LabelRe.FindStringSubmatch(s)
	if m == nil {
		return c38Cmd{}, nil, fmt.Errorf("bad event label %q", s)
	}
	var decs []c38Dec
	for _, d := range c38DecRe.FindAllStringSubmatch(m[3], -1) {
		at, _ := strconv.Atoi(d[1])
		decs = append(decs, c38Dec{At: at, Alt: d[2]})
	}
	return c38Cmd{Op: m[1], C: m[2]}, decs, nil
}

// c38Exec runs one CNI command of the real plugin against a fresh copy of items under the given
// decisions. v4/v6 override the scenario's families when forced (set-up only).
func c38Exec(sc *c38Scenario, items []casstore.Item, cmd c38Cmd, decs []c38Dec, lock string, v4, v6 bool) *c38Run {
	w := c38NewWorld(items)
	defer w.close()
	w.dec = map[int]string{}
	for _, d := range decs {
		w.dec[d.At] = d.Alt
	}
	w.store.SetHooks(w.hook, nil)
	maporder.Bind(w.order)
	defer maporder.Unbind()
	args := &skel.CmdArgs{ContainerID: cmd.C, Netns: "/var/run/netns/" + cmd.C, IfName: "eth0", Args: sc.args(), StdinData: c38Conf(w.id, lock, v4, v6)}
	r := &c38Run{Cmd: cmd, Decs: decs}
	err := vk.Catch(func() error {
		if cmd.Op == "ADD" {
			return cmdAdd(args)
		}
		return cmdDel(args)
	})
	if pe, ok := err.(*vk.PanicError); ok {
		r.Panic = pe.Val + "\n" + pe.Stack
	}
	r.Err = err
	w.store.SetHooks(nil, nil)
	w.mu.Lock()
	r.Points = w.points
	if w.bad != "" && r.Panic == "" {
		r.Panic = "TOOL:" + w.bad
	}
	for _, d := range decs {
		if d.At >= len(w.points) && r.Panic == "" {
			r.Panic = fmt.Sprintf("TOOL:decision at point %d but the run had only %d points", d.At, len(w.points))
		}
	}
	w.mu.Unlock()
	r.Items = w.store.Snapshot("")
	return r
}

// c38Enumerate performs every execution of cmd from items with at most maxFaults injected faults
// (and every map order), by depth-first re-execution.
func c38Enumerate(sc *c38Scenario, items []casstore.Item, cmd c38Cmd, maxFaults int, lock string, withX bool) []*c38Run {
	var out []*c38Run
	var rec func(prefix []c38Dec, from, used int)
	rec = func(prefix []c38Dec, from, used int) {
		r := c38Exec(sc, items, cmd, prefix, lock, sc.V4, sc.V6)
		out = append(out, r)
		if r.Panic != "" {
			return
		}
		for p := from; p < len(r.Points); p++ {
			pt := r.Points[p]
			var alts []string
			if pt.Kind == "order" {
				for i := 1; i < maporder.NumPerms(pt.Arity); i++ {
					alts = append(alts, "p"+strconv.Itoa(i))
				}
			} else if used < maxFaults {
				alts = append(alts, "E")
				if pt.Write {
					alts = append(alts, "C")
				}
				if pt.CanX && withX {
					alts = append(alts, "X")
				}
			}
			for _, a := range alts {
				np := append(append(make([]c38Dec, 0, len(prefix)+1), prefix...), c38Dec{At: p, Alt: a})
				u := used
				if pt.Kind == "call" {
					u++
				}
				rec(np, p+1, u)
			}
		}
	}
	rec(nil, 0, 0)
	return out
}

// ---- reading the store -----------------------------------------------------------------------------

type c38Alloc struct {
	IP     string
	Fam    int
	Handle string
	Block  string
}

// c38Allocs lists every live allocation recorded in any block (addresses in their release cooldown
// are not allocations).
func c38Allocs(items []casstore.Item) []c38Alloc {
	var out []c38Alloc
	for _, it := range items {
		b, ok := it.Value.(*model.AllocationBlock)
		if !ok {
			continue
		}
		for o, ai := range b.Allocations {
			if ai == nil {
				continue
			}
			a := c38Alloc{IP: b.OrdinalToIP(o).String(), Fam: b.CIDR.Version(), Block: b.CIDR.String(), Handle: "<none>"}
			if *ai >= 0 && *ai < len(b.Attributes) {
				at := b.Attributes[*ai]
				if at.ReleasedAt != nil {
					continue
				}
				if at.HandleID != nil {
					a.Handle = *at.HandleID
				}
			} else {
				a.Handle = "<bad-attr-index>"
			}
			out = append(out, a)
		}
	}
	sort.Slice(out, func(i, j int) bool { return out[i].IP < out[j].IP })
	return out
}

func c38HandleObjs(items []casstore.Item) map[string]map[string]int {
	out := map[string]map[string]int{}
	for _, it := range items {
		if h, ok := it.Value.(*model.IPAMHandle); ok {
			id := h.HandleID
			if k, ok := it.Key.(model.IPAMHandleKey); ok {
				id = k.HandleID
			}
			out[id] = h.Block
		}
	}
	return out
}

// c38Canon renders the IPAM part of the store without the values that come from the wall clock
// and never influence the plugin's behaviour in this alphabet (block sequence numbers, allocation
// time stamps, claim time).
func c38Canon(items []casstore.Item) string {
	var sb strings.Builder
	for _, it := range items {
		if !strings.HasPrefix(it.Path, "/calico/ipam/") {
			continue
		}
		sb.WriteString(it.Path)
		sb.WriteByte('=')
		if _, ok := it.Value.(*model.AllocationBlock); ok {
			v, err := model.ParseValue(it.Key, []byte(it.Data))
			if err != nil {
				sb.WriteString("unparsable:" + it.Data)
			} else {
				b := v.(*model.AllocationBlock)
				b.SequenceNumber = 0
				b.SequenceNumberForAllocation = nil
				b.AffinityClaimTime = nil
				for i := range b.Attributes {
					if _, ok := b.Attributes[i].ActiveOwnerAttrs[ipam.AttributeTimestamp]; ok {
						b.Attributes[i].ActiveOwnerAttrs[ipam.AttributeTimestamp] = "T"
					}
					if b.Attributes[i].ReleasedAt != nil {
						b.Attributes[i].ReleasedAt = nil
						if b.Attributes[i].ActiveOwnerAttrs == nil {
							b.Attributes[i].ActiveOwnerAttrs = map[string]string{}
						}
						b.Attributes[i].ActiveOwnerAttrs["<cooling>"] = "1"
					}
				}
				d, _ := json.Marshal(b)
				sb.Write(d)
			}
		} else {
			sb.WriteString(it.Data)
		}
		sb.WriteByte('\n')
	}
	return sb.String()
}

// ---- templates (initial states) --------------------------------------------------------------------

func c38Template(sc *c38Scenario, lock string) ([]casstore.Item, error) {
	st := casstore.New()
	node := internalapi.NewNode()
	node.Name = c38Node
	st.Put(&model.KVPair{Key: model.ResourceKey{Kind: internalapi.KindNode, Name: c38Node}, Value: node})
	addPool := func(name, cidr string, bs int) {
		p := v3.NewIPPool()
		p.Name = name
		mode := v3.Automatic
		p.Spec = v3.IPPoolSpec{CIDR: cidr, BlockSize: bs, IPIPMode: v3.IPIPModeNever, VXLANMode: v3.VXLANModeNever, NodeSelector: "all()",
			AllowedUses: []v3.IPPoolAllowedUse{v3.IPPoolAllowedUseWorkload, v3.IPPoolAllowedUseTunnel}, AssignmentMode: &mode}
		st.Put(&model.KVPair{Key: model.ResourceKey{Kind: v3.KindIPPool, Name: name}, Value: p})
	}
	if sc.Pool4 != "" {
		addPool("pool4", sc.Pool4, sc.BS4)
	}
	if sc.Pool6 != "" {
		addPool("pool6", sc.Pool6, sc.BS6)
	}
	items := st.Snapshot("")
	// Set-up goes straight through the IPAM client, so that it does not depend on the plugin code
	// under test. Claim the host's first block of each family: one container comes and goes.
	{
		w := c38NewWorld(items)
		cfg := apiconfig.NewCalicoAPIConfig()
		cfg.Spec.DatastoreType = apiconfig.EtcdV3
		ic := client.NewFromBackend(*cfg, w.store).IPAM()
		h := c38Net + ".seed"
		a := ipam.AutoAssignArgs{HandleID: &h, Hostname: c38Node, IntendedUse: v3.IPPoolAllowedUseWorkload}
		if sc.Pool4 != "" {
			a.Num4 = 1
		}
		if sc.Pool6 != "" {
			a.Num6 = 1
		}
		r4, r6, err := ic.AutoAssign(context.Background(), a)
		if err == nil {
			if (a.Num4 == 1 && (r4 == nil || len(r4.IPs) != 1)) || (a.Num6 == 1 && (r6 == nil || len(r6.IPs) != 1)) {
				err = fmt.Errorf("no address")
			}
		}
		if err == nil {
			err = ic.ReleaseByHandle(context.Background(), h)
		}
		w.close()
		if err != nil {
			return nil, fmt.Errorf("set-up (claiming the first blocks) failed: %v", err)
		}
		items = w.store.Snapshot("")
	}
	if sc.Legacy {
		// an allocation made the way calico v2.x did: directly under the workload id
		w := c38NewWorld(items)
		cfg := apiconfig.NewCalicoAPIConfig()
		cfg.Spec.DatastoreType = apiconfig.EtcdV3
		h := sc.widHandle("c1")
		v4, _, err := client.NewFromBackend(*cfg, w.store).IPAM().AutoAssign(context.Background(), ipam.AutoAssignArgs{Num4: 1, HandleID: &h, Hostname: c38Node, IntendedUse: v3.IPPoolAllowedUseWorkload})
		w.close()
		if err != nil || v4 == nil || len(v4.IPs) != 1 {
			return nil, fmt.Errorf("set-up legacy allocation failed: %v", err)
		}
		items = w.store.Snapshot("")
	}
	// exhaust a family's pool on behalf of other containers, directly through the IPAM client (so
	// that set-up does not depend on how the plugin under test reports exhaustion)
	fill := func(v4 bool, leave int) error {
		w := c38NewWorld(items)
		defer w.close()
		cfg := apiconfig.NewCalicoAPIConfig()
		cfg.Spec.DatastoreType = apiconfig.EtcdV3
		ic := client.NewFromBackend(*cfg, w.store).IPAM()
		var used []string
		for i := 0; i < 20; i++ {
			h := c38Net + ".other" + strconv.Itoa(i)
			if !v4 {
				h += "v6"
			}
			a := ipam.AutoAssignArgs{HandleID: &h, Hostname: c38Node, IntendedUse: v3.IPPoolAllowedUseWorkload}
			if v4 {
				a.Num4 = 1
			} else {
				a.Num6 = 1
			}
			r4, r6, err := ic.AutoAssign(context.Background(), a)
			if err != nil {
				return fmt.Errorf("set-up: filling the pool failed: %v", err)
			}
			got := 0
			if r4 != nil {
				got += len(r4.IPs)
			}
			if r6 != nil {
				got += len(r6.IPs)
			}
			if got == 0 { // pool exhausted
				for j := 0; j < leave && j < len(used); j++ {
					if err := ic.ReleaseByHandle(context.Background(), used[len(used)-1-j]); err != nil {
						return fmt.Errorf("set-up: freeing an address again failed: %v", err)
					}
				}
				items = w.store.Snapshot("")
				return nil
			}
			used = append(used, h)
		}
		return fmt.Errorf("set-up: pool never filled up")
	}
	if sc.Full4 {
		if err := fill(true, sc.Left4); err != nil {
			return nil, err
		}
	}
	if sc.Full6 {
		if err := fill(false, sc.Left6); err != nil {
			return nil, err
		}
	}
	return items, nil
}

// ---- search ------------------------------------------------------------------------------------------

type c38State struct {
	items  []casstore.Item
	delOK  map[string]bool   // container -> its last command was a DEL that returned nil
	held   map[string]bool   // container -> an ADD returned nil and no DEL has been attempted since
	prov   map[string]string // "handle|ip" -> which command execution allocated it
	faulty int               // commands of the history that ran with an injected fault
	parent *c38State
	ev     string
	depth  int
}

func (s *c38State) hist() []string {
	h := make([]string, s.depth)
	for x := s; x != nil && x.depth > 0; x = x.parent {
		h[x.depth-1] = x.ev
	}
	return h
}

func (s *c38State) key() string {
	var ks []string
	for k, v := range s.delOK {
		if v {
			ks = append(ks, k)
		}
	}
	sort.Strings(ks)
	var hs []string
	for k, v := range s.held {
		if v {
			hs = append(hs, k)
		}
	}
	sort.Strings(hs)
	return c38Canon(s.items) + "delOK=" + strings.Join(ks, ",") + " held=" + strings.Join(hs, ",") + " faulty=" + strconv.Itoa(s.faulty)
}

type c38Fail struct {
	Key, Msg string
}

func c38Outcome(err error) string {
	if err == nil {
		return "ok"
	}
	return "err"
}

// c38Step applies the oracle to one executed command and builds the successor state.
// base is the execution of the same command from the same state with no fault and the default
// order (nil when r is that execution): a leftover that base leaves too is not caused by r's own
// faults, which keeps violation keys down to the root cause.
func c38Step(sc *c38Scenario, s *c38State, r, base *c38Run, limitFaulty bool) (*c38State, []c38Fail, string) {
	var fails []c38Fail
	c := r.Cmd.C
	allocs := c38Allocs(r.Items)
	cid, wid := sc.cidHandle(c), sc.widHandle(c)
	fc := r.faultClass()
	n := &c38State{items: r.Items, delOK: map[string]bool{}, held: map[string]bool{}, prov: map[string]string{}, parent: s, ev: r.label(), depth: s.depth + 1, faulty: s.faulty}
	if r.nFaults() > 0 && limitFaulty {
		n.faulty++
	}
	for k, v := range s.delOK {
		n.delOK[k] = v
	}
	for k, v := range s.held {
		n.held[k] = v
	}
	for _, a := range allocs {
		k := a.Handle + "|" + a.IP
		if p, ok := s.prov[k]; ok {
			n.prov[k] = p
		} else {
			n.prov[k] = r.Cmd.Op + "[" + fc + "]"
		}
	}
	var mine []c38Alloc
	for _, a := range allocs {
		if a.Handle == cid || a.Handle == wid {
			mine = append(mine, a)
		}
	}
	out := r.Cmd.Op + ":" + c38Outcome(r.Err)
	switch r.Cmd.Op {
	case "ADD":
		n.delOK[c] = false
		if r.Err == nil {
			n.held[c] = true
			for _, f := range []struct {
				want bool
				fam  int
			}{{sc.V4, 4}, {sc.V6, 6}} {
				if !f.want {
					continue
				}
				held := 0
				for _, a := range allocs {
					if a.Handle == cid && a.Fam == f.fam {
						held++
					}
				}
				if held == 0 {
					ac := fc
					if len(r.Decs) == 0 {
						ac = "any"
					} else if base != nil && base.Err == nil && base.Panic == "" {
						inBase := 0
						for _, a := range c38Allocs(base.Items) {
							if a.Handle == cid && a.Fam == f.fam {
								inBase++
							}
						}
						if inBase == 0 {
							ac = "any" // the fault-free ADD from the same state succeeds without it as well
						}
					}
					fails = append(fails, c38Fail{
						Key: fmt.Sprintf("C38:add-ok-without-address:ipv%d:add=%s", f.fam, ac),
						Msg: fmt.Sprintf("%s returned success but handle %q holds no IPv%d address; allocations now: %v", r.label(), cid, f.fam, allocs),
					})
				}
				out += fmt.Sprintf(":v%d=%d", f.fam, held)
			}
		} else if len(mine) > 0 {
			out += ":leftover" // allowed by the statement until the next successful DEL
		}
	case "DEL":
		if r.Err == nil {
			alsoInBase := map[string]bool{}
			if base != nil && base.Err == nil && base.Panic == "" {
				for _, a := range c38Allocs(base.Items) {
					alsoInBase[a.Handle+"|"+a.IP] = true
				}
			}
			for _, a := range mine {
				hk := "cid-handle"
				if a.Handle == wid {
					hk = "wid-handle"
				}
				p := n.prov[a.Handle+"|"+a.IP]
				dc := fc
				if len(r.Decs) == 0 || alsoInBase[a.Handle+"|"+a.IP] {
					dc = "any" // a fault-free DEL leaves it behind as well
				}
				fails = append(fails, c38Fail{
					Key: fmt.Sprintf("C38:del-ok-leaves-address:%s:alloc=%s:del=%s", hk, p, dc),
					Msg: fmt.Sprintf("%s returned success but %s (block %s) is still allocated to handle %q (allocated by %s); handle objects now: %v",
						r.label(), a.IP, a.Block, a.Handle, p, c38HandleObjs(r.Items)),
				})
			}
			if len(mine) == 0 {
				if _, stale := c38HandleObjs(r.Items)[cid]; stale {
					out += ":stale-handle-object"
				}
			}
		} else if s.delOK[c] && r.nFaults() == 0 {
			fails = append(fails, c38Fail{
				Key: "C38:repeated-del-fails",
				Msg: fmt.Sprintf("%s (no fault injected) failed with %q although the previous DEL of %s had succeeded", r.label(), r.Err.Error(), c),
			})
		}
		n.delOK[c] = r.Err == nil
		n.held[c] = false // a DEL was attempted: whatever it freed, it was entitled to
	}
	// State invariant: a container that got a successful ADD and has not been the subject of a DEL
	// since keeps holding an address of every requested family, whatever other commands (a further ADD
	// for the same container included) do and however they fail.
	var hc []string
	for k, v := range n.held {
		if v && !(k == c && r.Cmd.Op == "ADD" && r.Err == nil) { // that case is the clause checked above
			hc = append(hc, k)
		}
	}
	sort.Strings(hc)
	for _, k := range hc {
		for _, f := range []struct {
			want bool
			fam  int
		}{{sc.V4, 4}, {sc.V6, 6}} {
			if !f.want {
				continue
			}
			count := func(items []c38Alloc) int {
				x := 0
				for _, a := range items {
					if a.Handle == sc.cidHandle(k) && a.Fam == f.fam {
						x++
					}
				}
				return x
			}
			if count(allocs) > 0 || count(c38Allocs(s.items)) == 0 {
				continue // still held, or already reported when it was lost
			}
			who := "other"
			if k == c {
				who = "same"
			}
			bc := fc
			if len(r.Decs) == 0 {
				bc = "any"
			} else if base != nil && base.Panic == "" && count(c38Allocs(base.Items)) == 0 {
				bc = "any" // the fault-free execution of the command loses it as well
			}
			fails = append(fails, c38Fail{
				Key: fmt.Sprintf("C38:held-address-lost:ipv%d:by=%s(%s-container):%s:%s", f.fam, r.Cmd.Op, who, c38Outcome(r.Err), bc),
				Msg: fmt.Sprintf("container %s had a successful ADD and no DEL since, but after %s (result %s) its handle %q holds no IPv%d address any more; allocations now: %v",
					k, r.label(), c38Outcome(r.Err), sc.cidHandle(k), f.fam, allocs),
			})
		}
	}
	return n, fails, out
}

type c38Params struct {
	Depth     int
	MaxFaults int // per command
	MaxFaulty int // commands with faults per history (0: no limit)
	WithX     bool
	Cmds      []c38Cmd
	Workers   int
}

func c38Explore(c *vk.Ctx, sc *c38Scenario, init []casstore.Item, p c38Params, locks []string, reps int, sampled *atomic.Bool) (states, trans int64, complete bool) {
	root := &c38State{items: init, delOK: map[string]bool{}, held: map[string]bool{}, prov: map[string]string{}}
	for _, a := range c38Allocs(init) {
		root.prov[a.Handle+"|"+a.IP] = "set-up"
	}
	seen := map[string]struct{}{root.key(): {}}
	frontier := []*c38State{root}
	states = 1
	complete = true
	for depth := 0; depth < p.Depth && len(frontier) > 0; depth++ {
		type succ struct {
			st  *c38State
			key string
		}
		results := make([][]succ, len(frontier))
		var next int64 = -1
		var stopped atomic.Bool
		var wg sync.WaitGroup
		for wk := 0; wk < p.Workers; wk++ {
			wg.Add(1)
			go func(lock string) {
				defer wg.Done()
				for {
					i := int(atomic.AddInt64(&next, 1))
					if i >= len(frontier) {
						return
					}
					if c.Expired() {
						stopped.Store(true)
						return
					}
					s := frontier[i]
					var res []succ
					for _, cmd := range p.Cmds {
						var runs []*c38Run
						mf := p.MaxFaults
						if p.MaxFaulty > 0 && s.faulty >= p.MaxFaulty {
							mf = 0
						}
						for rep := 0; rep < reps; rep++ {
							runs = append(runs, c38Enumerate(sc, s.items, cmd, mf, lock, p.WithX)...)
						}
						atomic.AddInt64(&trans, int64(len(runs)))
						for _, r := range runs {
							hist := append(s.hist(), r.label())
							if strings.HasPrefix(r.Panic, "TOOL:") {
								if reps > 1 {
									// block order not under control: the points of a re-execution may differ
									// from those of the execution the decisions were derived from; drop it
									atomic.AddInt64(&trans, -1)
									continue
								}
								c.ToolError(fmt.Sprintf("%s %v: %s", sc.Name, hist, r.Panic))
								continue
							}
							if r.Panic != "" {
								c.Violation("C38:panic:"+r.Cmd.Op+":"+r.faultClass(), map[string]any{"scenario": sc.Name, "history": hist, "panic": r.Panic})
								continue
							}
							var base *c38Run
							if len(r.Decs) > 0 {
								base = runs[0]
							}
							n, fails, out := c38Step(sc, s, r, base, p.MaxFaulty > 0)
							for _, f := range fails {
								c.Violation(f.Key, map[string]any{"scenario": sc.Name, "history": hist, "msg": f.Msg, "last_command_trace": r.Points})
							}
							c.Outcome(out + ":" + fmt.Sprint(len(fails) > 0))
							if r.nFaults() > 0 || len(r.Decs) > 0 {
								c.Nontrivial(sc.Name + "|" + r.Cmd.Op + "|" + r.faultClass() + "|" + out)
							}
							if len(hist) >= 3 && r.nFaults() > 0 && sampled.CompareAndSwap(false, true) {
								c.Sample(map[string]any{"scenario": sc.Name, "history": hist, "last_command_trace": r.Points,
									"last_result": c38Outcome(r.Err), "allocations_after": c38Allocs(r.Items), "handle_objects_after": c38HandleObjs(r.Items)})
							}
							res = append(res, succ{st: n, key: n.key()})
						}
					}
					results[i] = res
				}
			}(locks[wk])
		}
		wg.Wait()
		if stopped.Load() {
			c.Capped(fmt.Sprintf("%s (histories<=%d, faulty commands<=%d, faults/command<=%d): deadline during depth %d (depth %d complete)", sc.Name, p.Depth, p.MaxFaulty, p.MaxFaults, depth+1, depth))
			complete = false
			break
		}
		var nf []*c38State
		for _, res := range results {
			for _, su := range res {
				if _, dup := seen[su.key]; dup {
					continue
				}
				seen[su.key] = struct{}{}
				states++
				nf = append(nf, su.st)
			}
		}
		frontier = nf
		c.Max("max_depth", int64(depth+1))
	}
	return
}

// ---- entry point -------------------------------------------------------------------------------------

func TestVerif_C38(t *testing.T) {
	vk.Run(t, "C38", func(c *vk.Ctx) {
		// The plugin prints CNI results on stdout and logs on stderr: silence both while exploring.
		realOut, realErr := os.Stdout, os.Stderr
		if null, err := os.OpenFile(os.DevNull, os.O_WRONLY, 0); err == nil {
			os.Stdout, os.Stderr = null, null
			defer null.Close()
		}
		restore := func() { os.Stdout, os.Stderr = realOut, realErr }
		defer restore()
		info := func(f string, a ...any) { fmt.Fprintf(realOut, f+"\n", a...) }

		dir, err := os.MkdirTemp("", "c38-")
		if err != nil {
			c.ToolError(err.Error())
			return
		}
		defer os.RemoveAll(dir)
		workers := runtime.NumCPU()
		if workers > 8 {
			workers = 8
		}
		var locks []string
		for i := 0; i < workers; i++ {
			locks = append(locks, filepath.Join(dir, fmt.Sprintf("ipam-%d.lock", i)))
		}

		// the client override must really be in CreateClient (else the check would talk to nothing)
		before := c38OverrideCalls.Load()
		_, _ = utils.CreateClient(types.NetConf{Name: "!not a valid network name!"})
		if c38OverrideCalls.Load() == before {
			c.ToolError("the check-time insertion at the top of utils.CreateClient did not apply (pattern `func CreateClient(conf types.NetConf) (client.Interface, error) {` not found in cni-plugin/internal/pkg/utils/utils.go)")
			return
		}

		scs := c38Scenarios()
		if rf := c.ReplayFile(); rf != "" {
			var d struct {
				Scenario string   `json:"scenario"`
				History  []string `json:"history"`
			}
			if err := vk.LoadReplay(rf, &d); err != nil {
				c.ToolError("cannot load replay: " + err.Error())
				return
			}
			for i := range scs {
				if scs[i].Name != d.Scenario {
					continue
				}
				sc := &scs[i]
				items, err := c38Template(sc, locks[0])
				if err != nil {
					c.ToolError(err.Error())
					return
				}
				s := &c38State{items: items, delOK: map[string]bool{}, held: map[string]bool{}, prov: map[string]string{}}
				for _, a := range c38Allocs(items) {
					s.prov[a.Handle+"|"+a.IP] = "set-up"
				}
				var steps []any
				for _, l := range d.History {
					cmd, decs, err := c38ParseLabel(l)
					if err != nil {
						c.ToolError(err.Error())
						return
					}
					r := c38Exec(sc, s.items, cmd, decs, locks[0], sc.V4, sc.V6)
					if r.Panic != "" {
						c.Violation("C38:panic:"+r.Cmd.Op+":"+r.faultClass(), map[string]any{"scenario": sc.Name, "history": d.History, "panic": r.Panic})
						return
					}
					var base *c38Run
					if len(decs) > 0 {
						base = c38Exec(sc, s.items, cmd, nil, locks[0], sc.V4, sc.V6)
					}
					n, fails, out := c38Step(sc, s, r, base, false)
					for _, f := range fails {
						c.Violation(f.Key, map[string]any{"scenario": sc.Name, "history": d.History, "msg": f.Msg})
					}
					steps = append(steps, map[string]any{"event": l, "outcome": out, "trace": r.Points, "allocations_after": c38Allocs(r.Items)})
					info("INFO replay %-14s -> %s err=%v", l, out, r.Err)
					for pi, pt := range r.Points {
						info("INFO          point %2d %-5s %s %s", pi, pt.Took, pt.Kind, pt.Op)
					}
					info("INFO          allocations=%v handles=%v", c38Allocs(r.Items), c38HandleObjs(r.Items))
					s = n
				}
				c.Add("states", 1)
				c.Add("transitions", int64(len(d.History)))
				c.Sample(map[string]any{"replayed": d.History, "steps": steps})
				return
			}
			c.ToolError("replay names unknown scenario " + d.Scenario)
			return
		}

		p := c38Params{WithX: true, Workers: workers, Cmds: []c38Cmd{{"ADD", "c1"}, {"DEL", "c1"}, {"ADD", "c2"}}}
		if c.Thorough() {
			p.Cmds = append(p.Cmds, c38Cmd{"DEL", "c2"})
		}
		c.Rule("per scenario (single/dual stack, k8s / plain CNI args, legacy workload-id allocation, one family's pool full; pools of 2 blocks x 2 addresses): breadth-first search over datastore states; " +
			"from every state every command of {ADD(c1), DEL(c1), ADD(c2)" + map[bool]string{true: ", DEL(c2)", false: ""}[c.Thorough()] + "} is executed under every decision list " +
			"(each backend call: proceed | error before | lost reply after a write | genuine CAS conflict; every order of ReleaseByHandle's loop over the handle's blocks); each scenario is searched in several passes " +
			"(histories<=D, at most F commands of a history run with faults (0: any number), at most N faults per command), e.g. quick cni-v4: (5,1,1) and (4,2,1); the `enum` lines of the run list them; " +
			"states merged on the canonical IPAM store content. Non-trivial = an execution with a fault or a non-default order, counted by (scenario, command, what the fault hit, outcome).")
		c.Assume("casstore behaves like the etcd/Kubernetes backends (per-key compare-and-swap, JSON value boundary); connection set-up in utils.CreateClient is replaced by a client over it")
		c.Assume("one CNI command at a time on the node (the plugin's host-wide IPAM lock); IPCooldownSeconds=0 (default); no KubeVirt pods, no ipAddrs/IP= CNI argument, no namespace lookups")
		callsBefore := maporder.Calls()
		reps := 1
		var totalS, totalT int64
		var sampled atomic.Bool
		var passes []map[string]any
	scenarios:
		for i := range scs {
			sc := &scs[i]
			if v := os.Getenv("C38_ONLY"); v != "" && v != sc.Name {
				continue
			}
			plan := sc.Quick
			if c.Thorough() {
				plan = append(append([]c38Pass(nil), sc.Quick...), sc.Thorough...)
			}
			if len(plan) == 0 {
				continue
			}
			items, err := c38Template(sc, locks[0])
			if err != nil {
				c.ToolError(sc.Name + ": " + err.Error())
				return
			}
			if maporder.Calls() == callsBefore && reps == 1 {
				// the loop in ReleaseByHandle is not under control: fall back to repeated runs under the runtime's own order
				reps = 4
				c.NotExhaustive("the map-order rewrite of ReleaseByHandle's `for blockStr := range handle.Block` did not apply: block orders are sampled by 4 repetitions instead of enumerated")
			}
			for _, ps := range plan {
				p.Depth, p.MaxFaulty, p.MaxFaults = ps.Depth, ps.Faulty, ps.PerCmd
				st, tr, complete := c38Explore(c, sc, items, p, locks, reps, &sampled)
				totalS += st
				totalT += tr
				info("enum %-18s histories<=%d faulty-commands<=%d faults/command<=%d states=%d executions=%d complete=%v", sc.Name, p.Depth, p.MaxFaulty, p.MaxFaults, st, tr, complete)
				passes = append(passes, map[string]any{"scenario": sc.Name, "max_history": p.Depth, "max_faulty_commands": p.MaxFaulty, "max_faults_per_command": p.MaxFaults, "states": st, "executions": tr, "complete": complete})
				if !complete {
					break scenarios
				}
			}
		}
		c.Extra("passes", passes)
		c.Add("states", totalS)
		c.Add("transitions", totalT)
		if !sampled.Load() {
			c.Sample(map[string]any{"note": "no faulted history of length >= 3 was executed", "passes": passes})
		}
		restore()
	})
}

var _ = net.IP{}
var _ = cnet.IP{}

package intdataplane

// C40, supplementary chain-level part: content of cali-failsafe-in / cali-failsafe-out for BOTH IP versions.
//
// The whole-path exploration renders the IPv4 tables only. The failsafe chains are the one place where the
// static chains branch on the IP family of a configured value (a failsafe entry with a CIDR is emitted only into
// the tables of the CIDR's family), so for every ordered pair of failsafe list variants - including the lists
// that mix IPv4-CIDR, IPv6-CIDR and CIDR-less entries in every order - the real renderer's raw, mangle and filter
// failsafe chains are rendered for IPv4 and IPv6 and executed: every entry that applies to the table's family
// (and, in raw, its reply-side twin) must ACCEPT its packet.

import (
	"errors"
	"fmt"
	"net/netip"

	"github.com/projectcalico/calico/felix/generictables"
	"github.com/projectcalico/calico/felix/rules"
	"github.com/projectcalico/calico/zzverif/nfsim"
	"github.com/projectcalico/calico/zzverif/vk"
)

var c40FailsafeVariants = []string{"none", "one", "two", "mixF", "mixM", "mixL"}

type c40FSDetail struct {
	Kind     string
	IPV      int
	FailIn   string
	FailOut  string
	Table    string
	Chain    string
	Entry    string
	Side     string
	Packet   string
	Got      string
	Rendered []string
}

type c40FSEntry struct {
	name  string
	proto int
	port  int
	// family the entry applies to (0 = both: no CIDR)
	family int
}

var c40FSEntries = []c40FSEntry{
	{"ssh", nfsim.ProtoTCP, 22, 0},
	{"dns4", nfsim.ProtoUDP, 53, 4},
	{"api6", nfsim.ProtoTCP, 6443, 6},
}

// c40FailsafeChains returns (states, evaluations); false = tool error.
func c40FailsafeChains(c *vk.Ctx) (int64, int64, bool) {
	var states, evals int64
	peerIn := map[int]netip.Addr{4: netip.MustParseAddr("10.9.0.5"), 6: netip.MustParseAddr("fd00:10:96::5")}
	peerOff := map[int]netip.Addr{4: netip.MustParseAddr("10.8.0.5"), 6: netip.MustParseAddr("fd00:10:97::5")}
	host := map[int]netip.Addr{4: netip.MustParseAddr("10.0.240.10"), 6: netip.MustParseAddr("fd00:240::10")}
	for _, kind := range []string{"ipt", "nft"} {
		k := nfsim.Iptables
		if kind == "nft" {
			k = nfsim.Nft
		}
		for _, fin := range c40FailsafeVariants {
			for _, fout := range c40FailsafeVariants {
				cfg := c40Cfg{Kind: kind, FailIn: fin, FailOut: fout, E2H: "RETURN", FilterAllow: "ACCEPT", MangleAllow: "ACCEPT", Encap: "none"}
				renderer := rules.NewRenderer(cfg.rulesConfig(), cfg.nft())
				for _, ipv := range []int{4, 6} {
					states++
					for _, table := range []string{"raw", "mangle", "filter"} {
						var all []*generictables.Chain
						switch table {
						case "raw":
							all = renderer.StaticRawTableChains(uint8(ipv))
						case "mangle":
							all = renderer.StaticMangleTableChains(uint8(ipv))
						case "filter":
							all = renderer.StaticFilterTableChains(uint8(ipv))
						}
						b := nfsim.NewBuilder(k, uint8(ipv), table)
						n := 0
						for _, ch := range all {
							if ch.Name == rules.ChainFailsafeIn || ch.Name == rules.ChainFailsafeOut {
								b.Table().UpdateChain(ch)
								n++
							}
						}
						if n != 2 {
							c.Violation(fmt.Sprintf("C40:failsafe-chain:missing:%s:v%d:%s", table, ipv, kind), map[string]any{"cfg": cfg, "found": n})
							continue
						}
						rs, err := b.Ruleset()
						if err != nil {
							var le *nfsim.LoadError
							if errors.As(err, &le) {
								c.Violation(fmt.Sprintf("C40:failsafe-chain:unloadable-%s:%s:v%d:%s", le.Class, table, ipv, kind),
									c40FSDetail{Kind: kind, IPV: ipv, FailIn: fin, FailOut: fout, Table: table, Got: le.Error(), Rendered: b.Lines()})
								continue
							}
							c.ToolError(fmt.Sprintf("failsafe chains %s v%d %s in=%s out=%s: %v", kind, ipv, table, fin, fout, err))
							return states, evals, false
						}
						for _, dir := range []string{"in", "out"} {
							chain := rules.ChainFailsafeIn
							dportList, sportList := fin, fout // failsafe-in: dport rules from the inbound list, (raw) sport rules from the outbound list
							if dir == "out" {
								chain = rules.ChainFailsafeOut
								dportList, sportList = fout, fin
							}
							for _, e := range c40FSEntries {
								if e.family != 0 && e.family != ipv {
									continue // other family's CIDR entry: nothing is demanded of this table
								}
								for _, side := range []string{"dport", "reply"} {
									list := dportList
									if side == "reply" {
										if table != "raw" {
											continue
										}
										list = sportList
									}
									if !c40FailsafeHas(list, e.name) {
										continue
									}
									p := nfsim.Packet{IPVersion: ipv, Proto: e.proto, SPort: 40000, DPort: e.port, CTState: "NEW", Sets: map[string]bool{}}
									if side == "reply" {
										p.SPort, p.DPort = e.port, 40000
									}
									peer := peerOff[ipv]
									if e.family != 0 {
										peer = peerIn[ipv]
									}
									// failsafe-in rules are restricted by source net, failsafe-out rules by destination net
									if dir == "in" {
										p.Src, p.Dst = peer, host[ipv]
									} else {
										p.Src, p.Dst = host[ipv], peer
									}
									res, err := rs.Eval(b.ChainName(chain), p, false)
									evals++
									if err != nil {
										c.ToolError(fmt.Sprintf("failsafe chains %s v%d %s: %v", kind, ipv, table, err))
										return states, evals, false
									}
									c.Outcome(fmt.Sprintf("failsafe-chain/%s/%s/v%d/%s/%s/%s", dir, table, ipv, e.name, side, res.Verdict))
									if res.Verdict != "ACCEPT" {
										c.Violation(fmt.Sprintf("C40:failsafe-chain:%s:%s:v%d:%s:%s:not-accepted:%s", dir, table, ipv, e.name, side, kind),
											c40FSDetail{Kind: kind, IPV: ipv, FailIn: fin, FailOut: fout, Table: table, Chain: chain, Entry: e.name, Side: side,
												Packet: fmt.Sprintf("%s -> %s proto %d sport %d dport %d", p.Src, p.Dst, p.Proto, p.SPort, p.DPort), Got: res.Verdict, Rendered: b.Lines()})
									}
								}
							}
						}
					}
				}
			}
		}
	}
	return states, evals, true
}

package intdataplane

// C40 world builder: one (configuration) -> three parsed rule sets (raw, mangle, filter) holding everything
// Felix would program for that configuration, produced by the REAL code:
//
//   - static chains + kernel-hook jumps (insert vs append, chain names): InternalDataplane.setUpIptablesNormal()
//     run on an InternalDataplane whose tables are nfsim recording tables;
//   - policy chains: the real policyManager;
//   - workload / host endpoint chains and all dispatch chains (and nft verdict maps): the real endpointManager;
//   - text: the real iptables / nftables renderers (inside nfsim.Builder).

import (
	"fmt"
	"sort"
	"strings"
	"sync"
	"time"

	"github.com/onsi/gomega"
	v3 "github.com/projectcalico/api/pkg/apis/projectcalico/v3"
	"github.com/sirupsen/logrus"

	"github.com/projectcalico/calico/felix/config"
	"github.com/projectcalico/calico/felix/dataplane/common"
	"github.com/projectcalico/calico/felix/environment"
	"github.com/projectcalico/calico/felix/generictables"
	"github.com/projectcalico/calico/felix/ipsets"
	"github.com/projectcalico/calico/felix/iptables"
	"github.com/projectcalico/calico/felix/linkaddrs"
	"github.com/projectcalico/calico/felix/netlinkshim/mocknetlink"
	"github.com/projectcalico/calico/felix/nftables"
	"github.com/projectcalico/calico/felix/proto"
	"github.com/projectcalico/calico/felix/routetable"
	"github.com/projectcalico/calico/felix/rules"
	"github.com/projectcalico/calico/libcalico-go/lib/set"
	"github.com/projectcalico/calico/zzverif/nfsim"
)

const (
	c40MarkAccept   = 0x8
	c40MarkPass     = 0x10
	c40MarkScratch0 = 0x20
	c40MarkScratch1 = 0x40
	c40MarkDrop     = 0x80
	c40MarkEndpoint = 0xff00
	c40MarkNonCali  = 0x0100
	c40MarkForeign  = 0x4 // a bit Felix does not own
	c40VXLANPort    = 4789
	c40WGPort       = 51820

	c40WlKnown   = "cali1" // workload interface Felix knows
	c40WlUnknown = "cali9" // matches the workload prefix, Felix has no endpoint for it
	c40WlUnkTap  = "tapzz" // second workload prefix, unknown
	c40HostIf0   = "eth0"  // host interface (named host endpoint when HEP=eth0)
	c40HostIf1   = "eth1"  // host interface without a named host endpoint
	c40WildHEP   = "*"     // all-interfaces host endpoint
	c40TunlIf    = "tunl0" // IPIP device
	c40VXLANIf   = "vxlan.calico"
)

var (
	c40IPSetCfg4 = ipsets.NewIPVersionConfig(ipsets.IPFamilyV4, "cali", nil, nil)
	c40IPSetCfg6 = ipsets.NewIPVersionConfig(ipsets.IPFamilyV6, "cali", nil, nil)
)

// c40Cfg is one point of the configuration space.
type c40Cfg struct {
	Kind        string // ipt | nft
	FailIn      string // inbound failsafe list variant: none | one | two
	FailOut     string // outbound failsafe list variant: none | one | two
	E2H         string // DefaultEndpointToHostAction: DROP | RETURN | ACCEPT
	FilterAllow string // ACCEPT | RETURN
	MangleAllow string // ACCEPT | RETURN
	Encap       string // none | ipip | vxlan | both
	WG          bool   // Wireguard enabled (extension dimension)
	HEP         string // none | eth0 | wild
	Untracked   string // host endpoint untracked policy: none | deny | allow
	PreDNAT     string // pre-DNAT policy
	Normal      string // normal policy
	Forward     string // apply-on-forward policy
	Wl          string // workload policy (both directions): deny | allow
}

func (c c40Cfg) sig() string {
	return fmt.Sprintf("%s fi=%s fo=%s e2h=%s fa=%s ma=%s encap=%s wg=%v hep=%s u=%s p=%s n=%s f=%s wl=%s",
		c.Kind, c.FailIn, c.FailOut, c.E2H, c.FilterAllow, c.MangleAllow, c.Encap, c.WG, c.HEP, c.Untracked, c.PreDNAT, c.Normal, c.Forward, c.Wl)
}

func (c c40Cfg) nft() bool { return c.Kind == "nft" }

// failsafe list variants.
//
//	none  empty list
//	one   tcp:22
//	two   tcp:22, udp:53 restricted to the IPv4 CIDR 10.9.0.0/16 (the Net branch)
//	mixF / mixM / mixL   the three entries tcp:22, udp:10.9.0.0/16:53 and tcp:[fd00:10:96::/112]:6443 ordered so
//	      that, seen from the IPv4 tables, the other-family (IPv6) CIDR entry is First / in the Middle / Last -
//	      and, seen from the IPv6 tables, the other-family (IPv4) CIDR entry is in the Middle / Last / First.
//
// For one IP family the effective content of every mix variant is the same: tcp:22 plus that family's CIDR entry.
const (
	c40FailsafeNet4 = "10.9.0.0/16"
	c40FailsafeNet6 = "fd00:10:96::/112"
)

func c40Failsafe(variant string) []config.ProtoPort {
	ssh := config.ProtoPort{Protocol: "tcp", Port: 22}
	dns4 := config.ProtoPort{Protocol: "udp", Port: 53, Net: c40FailsafeNet4}
	api6 := config.ProtoPort{Protocol: "tcp", Port: 6443, Net: c40FailsafeNet6}
	switch variant {
	case "one":
		return []config.ProtoPort{ssh}
	case "two":
		return []config.ProtoPort{ssh, dns4}
	case "mixF":
		return []config.ProtoPort{api6, dns4, ssh}
	case "mixM":
		return []config.ProtoPort{ssh, api6, dns4}
	case "mixL":
		return []config.ProtoPort{dns4, ssh, api6}
	}
	return nil
}

// c40FailsafeHas: does the variant's list contain the entry (by its class name)?
func c40FailsafeHas(variant, entry string) bool {
	switch entry {
	case "ssh":
		return variant != "none" && variant != ""
	case "dns4":
		return variant == "two" || strings.HasPrefix(variant, "mix")
	case "api6":
		return strings.HasPrefix(variant, "mix")
	}
	return false
}

func (c c40Cfg) rulesConfig() rules.Config {
	rc := rules.Config{
		IPSetConfigV4:             c40IPSetCfg4,
		IPSetConfigV6:             c40IPSetCfg6,
		WorkloadIfacePrefixes:     []string{"cali", "tap"},
		MarkAccept:                c40MarkAccept,
		MarkPass:                  c40MarkPass,
		MarkScratch0:              c40MarkScratch0,
		MarkScratch1:              c40MarkScratch1,
		MarkDrop:                  c40MarkDrop,
		MarkEndpoint:              c40MarkEndpoint,
		MarkNonCaliEndpoint:       c40MarkNonCali,
		VXLANPort:                 c40VXLANPort,
		VXLANVNI:                  4096,
		EndpointToHostAction:      c.E2H,
		FilterAllowAction:         c.FilterAllow,
		MangleAllowAction:         c.MangleAllow,
		FailsafeInboundHostPorts:  c40Failsafe(c.FailIn),
		FailsafeOutboundHostPorts: c40Failsafe(c.FailOut),
		IPIPEnabled:               c.Encap == "ipip" || c.Encap == "both",
		VXLANEnabled:              c.Encap == "vxlan" || c.Encap == "both",
		NFTablesEnabled:           c.nft(),
		// Felix's defaults: the names are always configured, also with Wireguard disabled
		WireguardInterfaceName:   "wireguard.cali",
		WireguardInterfaceNameV6: "wg-v6.cali",
		WireguardListeningPort:   c40WGPort,
		WireguardListeningPortV6: c40WGPort + 1,
		WireguardMark:            0x100000,
		WireguardEnabled:         c.WG,
	}
	return rc
}

const c40Foreign = "c40-foreign"

type c40Hook struct{ table, chain string }

// the kernel hooks Felix attaches to in iptables/nftables mode (nat excluded)
var c40Hooks = []c40Hook{
	{"raw", "PREROUTING"}, {"raw", "OUTPUT"},
	{"mangle", "PREROUTING"}, {"mangle", "POSTROUTING"},
	{"filter", "INPUT"}, {"filter", "FORWARD"}, {"filter", "OUTPUT"},
}

// c40World is everything rendered for one configuration.
type c40World struct {
	Cfg   c40Cfg
	kind  nfsim.Kind
	b     map[string]*nfsim.Builder // raw, mangle, filter
	rs    map[string]*nfsim.Ruleset
	entry map[c40Hook]string // kernel hook -> name of its base chain in the rule set
	stubs []string           // chains owned by managers that are not instantiated, declared empty
}

var c40QuietOnce sync.Once

func c40Quiet() {
	c40QuietOnce.Do(func() {
		logrus.SetLevel(logrus.PanicLevel)
		logrus.StandardLogger().ExitFunc = func(int) { panic("logrus.Fatal") }
		// the repo's mocks (mocknetlink) assert with gomega
		gomega.RegisterFailHandler(func(m string, _ ...int) { panic("gomega: " + m) })
	})
}

func c40PolicyID(name string) *proto.PolicyID {
	return &proto.PolicyID{Name: name, Kind: v3.KindGlobalNetworkPolicy}
}

// c40Tier: a "default" tier holding one abstract policy (matches every packet, action allow|deny), or nil.
func c40Tier(verdict, what string, in, out bool) []*proto.TierInfo {
	if verdict == "none" || verdict == "" {
		return nil
	}
	ti := &proto.TierInfo{Name: "default", DefaultAction: string(v3.Deny)}
	id := c40PolicyID("default." + what + "-" + verdict)
	if in {
		ti.IngressPolicies = []*proto.PolicyID{id}
	}
	if out {
		ti.EgressPolicies = []*proto.PolicyID{id}
	}
	return []*proto.TierInfo{ti}
}

func c40Policy(verdict string, untracked, preDNAT bool) *proto.Policy {
	r := func() []*proto.Rule { return []*proto.Rule{{Action: verdict}} }
	p := &proto.Policy{Tier: "default", Untracked: untracked, PreDnat: preDNAT, InboundRules: r(), OriginalSelector: "all()"}
	if !preDNAT {
		p.OutboundRules = r()
	}
	return p
}

// c40Build renders the configuration. A returned error is a tool error unless it is an *nfsim.LoadError.
func c40Build(cfg c40Cfg) (w *c40World, err error) {
	c40Quiet()
	kind := nfsim.Iptables
	if cfg.nft() {
		kind = nfsim.Nft
	}
	w = &c40World{Cfg: cfg, kind: kind, b: map[string]*nfsim.Builder{}, rs: map[string]*nfsim.Ruleset{}, entry: map[c40Hook]string{}}
	for _, t := range []string{"raw", "mangle", "filter"} {
		w.b[t] = nfsim.NewBuilder(kind, 4, t)
	}
	rc := cfg.rulesConfig()
	renderer := rules.NewRenderer(rc, cfg.nft())

	// 1. static chains and kernel hook jumps: the real InternalDataplane.setUpIptablesNormal
	newMatch := func() generictables.MatchCriteria { return iptables.Match() }
	actions := iptables.Actions()
	if cfg.nft() {
		newMatch = func() generictables.MatchCriteria { return nftables.Match() }
		actions = nftables.Actions()
	}
	d := &InternalDataplane{
		rawTables:    []generictables.Table{w.b["raw"].Table()},
		mangleTables: []generictables.Table{w.b["mangle"].Table()},
		filterTables: []generictables.Table{w.b["filter"].Table()},
		// natTables / arpTables left empty: NAT effects are packet attributes here
		ruleRenderer: renderer,
		newMatch:     newMatch,
		actions:      actions,
	}
	// Rules of "somebody else" that are already in the kernel hook chains when Felix starts: a jump to a chain
	// that is a leaf for nfsim (verdict CHAIN:c40-foreign = "the packet was handed to the other rules").
	// Felix's own jumps must end up in front of them where the code says InsertOrAppend (default
	// ChainInsertMode=insert) and behind them where it says Append.
	for _, h := range c40Hooks {
		w.b[h.table].Table().AppendRules(h.chain, []generictables.Rule{{Match: newMatch(), Action: actions.Jump(c40Foreign)}})
	}
	d.setUpIptablesNormal()

	// 2. policies through the real policy manager
	polMgr := newPolicyManager(w.b["raw"].Table(), w.b["mangle"].Table(), w.b["filter"].Table(), renderer, 4, cfg.nft())

	// 3. endpoints and dispatch through the real endpoint manager
	nl := mocknetlink.New()
	linkAddrsMgr := linkaddrs.New(4, []string{"cali", "tap"}, &environment.FakeFeatureDetector{Features: environment.Features{}}, 10*time.Second,
		linkaddrs.WithNetlinkHandleShim(nl.NewMockNetlink))
	procSys := &testProcSys{state: map[string]string{}, pathsThatExist: map[string]bool{}}
	var filterMaps nftables.MapsDataplane
	if cfg.nft() {
		filterMaps = w.b["filter"].Maps()
	}
	epMgr := newEndpointManagerWithShims(
		&endpointManagerConfig{
			wlInterfacePrefixes: []string{"cali", "tap"},
			bpfAttachType:       v3.BPFAttachOptionTCX,
			nft:                 cfg.nft(),
		},
		w.b["raw"].Table(), w.b["mangle"].Table(), w.b["filter"].Table(),
		renderer,
		&mockRouteTable{index: 0, currentRoutes: map[string][]routetable.Target{}},
		4,
		rules.NewEndpointMarkMapper(c40MarkEndpoint, c40MarkNonCali),
		(&statusReportRecorder{currentState: map[any]string{}, extraInfo: map[any]any{}}).endpointStatusUpdateCallback,
		procSys.write, procSys.stat,
		"1",
		filterMaps,
		nil, // flowtableHandler
		&testHEPListener{},
		common.NewCallbacks(),
		linkAddrsMgr,
		nil, nil, // arp
	)

	send := func(msg any) {
		polMgr.OnUpdate(msg)
		epMgr.OnUpdate(msg)
	}
	apply := func() error {
		if e := epMgr.ResolveUpdateBatch(); e != nil {
			return e
		}
		return epMgr.CompleteDeferredWork()
	}
	for _, ifc := range []string{c40HostIf0, c40HostIf1, c40WlKnown} {
		send(&ifaceStateUpdate{Name: ifc, State: "up", Index: 10})
	}
	send(&ifaceAddrsUpdate{Name: c40HostIf0, Addrs: set.From("10.0.240.10")})
	send(&ifaceAddrsUpdate{Name: c40HostIf1, Addrs: set.From("10.0.241.10")})
	if err = apply(); err != nil {
		return nil, fmt.Errorf("endpoint manager (interfaces): %w", err)
	}

	// policies
	addPol := func(what, verdict string, untracked, preDNAT bool) {
		if verdict == "none" || verdict == "" {
			return
		}
		send(&proto.ActivePolicyUpdate{Id: c40PolicyID("default." + what + "-" + verdict), Policy: c40Policy(verdict, untracked, preDNAT)})
	}
	if cfg.HEP != "none" {
		addPol("untracked", cfg.Untracked, true, false)
		addPol("prednat", cfg.PreDNAT, false, true)
		addPol("normal", cfg.Normal, false, false)
		addPol("forward", cfg.Forward, false, false)
	}
	addPol("wl", cfg.Wl, false, false)

	if cfg.HEP != "none" {
		name := c40HostIf0
		if cfg.HEP == "wild" {
			name = c40WildHEP
		}
		send(&proto.HostEndpointUpdate{
			Id: &proto.HostEndpointID{EndpointId: "hep-" + cfg.HEP},
			Endpoint: &proto.HostEndpoint{
				Name:           name,
				ProfileIds:     []string{},
				Tiers:          c40Tier(cfg.Normal, "normal", true, true),
				UntrackedTiers: c40Tier(cfg.Untracked, "untracked", true, true),
				PreDnatTiers:   c40Tier(cfg.PreDNAT, "prednat", true, false),
				ForwardTiers:   c40Tier(cfg.Forward, "forward", true, true),
			},
		})
	}
	send(&proto.WorkloadEndpointUpdate{
		Id: &proto.WorkloadEndpointID{OrchestratorId: "k8s", WorkloadId: "pod-1", EndpointId: "eth0"},
		Endpoint: &proto.WorkloadEndpoint{
			State:      "active",
			Mac:        "01:02:03:04:05:06",
			Name:       c40WlKnown,
			ProfileIds: []string{},
			Tiers:      c40Tier(cfg.Wl, "wl", true, true),
			Ipv4Nets:   []string{"10.65.0.2/32"},
		},
	})
	if err = apply(); err != nil {
		return nil, fmt.Errorf("endpoint manager (endpoints): %w", err)
	}

	// 4. chains owned by managers that are not instantiated here: declared empty (= feature has no entries)
	stub := func(table, chain string) {
		w.b[table].Table().UpdateChain(&generictables.Chain{Name: chain})
		w.stubs = append(w.stubs, table+":"+chain)
	}
	stub("filter", rules.ChainCIDRBlock)  // service loop prevention (serviceLoopManager)
	stub("mangle", rules.ChainEgressDSCP) // QoS DSCP (dscpManager)

	for _, t := range []string{"raw", "mangle", "filter"} {
		rs, e := w.b[t].Ruleset()
		if e != nil {
			return w, fmt.Errorf("table %s: %w", t, e)
		}
		rs.Leaves[w.b[t].ChainName(c40Foreign)] = true
		w.rs[t] = rs
	}
	for _, h := range c40Hooks {
		w.entry[h] = w.b[h.table].ChainName(h.chain)
	}
	return w, nil
}

// Lines returns the rendered text of all three tables.
func (w *c40World) Lines() []string {
	var out []string
	for _, t := range []string{"raw", "mangle", "filter"} {
		for _, l := range w.b[t].Lines() {
			out = append(out, t+"| "+l)
		}
	}
	return out
}

func c40SortedKeys(m map[string]int64) []string {
	ks := make([]string, 0, len(m))
	for k := range m {
		ks = append(ks, k)
	}
	sort.Strings(ks)
	return ks
}

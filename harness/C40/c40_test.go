package intdataplane

// C40 — host protection and workload isolation hold on every packet path.
//
// Shape I + X (bounded-exhaustive enumeration of real code, executed by the nfsim rule interpreter):
//
//   configuration  ->  REAL Felix code renders everything it would program into the raw, mangle and filter
//                      tables (c40_world_test.go: setUpIptablesNormal + policyManager + endpointManager +
//                      rules.NewRenderer + the iptables/nftables text renderers)
//   packet class   ->  walked through the kernel hooks of its path in hook order (raw -> mangle -> filter ->
//                      mangle POSTROUTING), carrying the packet mark and the NOTRACK effect from hook to hook
//   oracle         ->  the four clauses of the property statement (see c40Judge)

import (
	"errors"
	"fmt"
	"net/netip"
	"os"
	"runtime/debug"
	"sort"
	"strings"
	"sync"
	"testing"

	"github.com/projectcalico/calico/felix/rules"
	"github.com/projectcalico/calico/zzverif/nfsim"
	"github.com/projectcalico/calico/zzverif/vk"
)

// ---------------------------------------------------------------------------------------------
// packets

type c40Pkt struct {
	Path  string // input | forward | output
	In    string
	Out   string
	Class string // tcp80 tcp22 resp22 udp53 resp53 ipip vxlan wg
	// PeerInNet: the remote address is inside the failsafe CIDR 10.9.0.0/16 (source on input, destination on output)
	PeerInNet bool
	// PeerInSet: the remote address is a member of the all-hosts-net and all-vxlan-net IP sets ("cluster source")
	PeerInSet bool
	CT        string // NEW ESTABLISHED RELATED INVALID
	DNAT      bool   // output path: the connection was DNATed (nat OUTPUT)
	RPFFail   bool
	Mark      uint32
}

func (p c40Pkt) String() string {
	return fmt.Sprintf("%s in=%s out=%s %s peerInNet=%v peerInSet=%v ct=%s dnat=%v rpfFail=%v mark=%#x", p.Path, p.In, p.Out, p.Class, p.PeerInNet, p.PeerInSet, p.CT, p.DNAT, p.RPFFail, p.Mark)
}

func c40IsWlIface(n string) bool { return strings.HasPrefix(n, "cali") || strings.HasPrefix(n, "tap") }

var (
	c40HostAddr    = netip.MustParseAddr("10.0.240.10")
	c40PeerInNet   = netip.MustParseAddr("10.9.0.5")
	c40PeerOffNet  = netip.MustParseAddr("10.8.0.5")
	c40RemotePod   = netip.MustParseAddr("10.66.0.2")
	c40SetHostsSrc = nfsim.SetKey(c40IPSetCfg4.NameForMainIPSet(rules.IPSetIDAllHostNets), "src")
	c40SetHostsDst = nfsim.SetKey(c40IPSetCfg4.NameForMainIPSet(rules.IPSetIDAllHostNets), "dst")
	c40SetVXLANSrc = nfsim.SetKey(c40IPSetCfg4.NameForMainIPSet(rules.IPSetIDAllVXLANSourceNets), "src")
	c40SetVXLANDst = nfsim.SetKey(c40IPSetCfg4.NameForMainIPSet(rules.IPSetIDAllVXLANSourceNets), "dst")
)

const c40AllCalicoBits = c40MarkAccept | c40MarkPass | c40MarkScratch0 | c40MarkScratch1

// base builds the nfsim packet (interfaces, mark and conntrack view are filled per hook).
func (p c40Pkt) base() nfsim.Packet {
	peer := c40PeerOffNet
	if p.PeerInNet {
		peer = c40PeerInNet
	}
	np := nfsim.Packet{IPVersion: 4, Sets: map[string]bool{}}
	switch p.Path {
	case "input":
		np.Src, np.Dst, np.DstType = peer, c40HostAddr, "LOCAL"
		if p.PeerInSet {
			np.Sets[c40SetHostsSrc], np.Sets[c40SetVXLANSrc] = true, true
		}
	case "forward":
		np.Src, np.Dst = peer, c40RemotePod
		if p.PeerInSet {
			np.Sets[c40SetHostsSrc], np.Sets[c40SetVXLANSrc] = true, true
		}
	case "output":
		np.Src, np.Dst, np.SrcType = c40HostAddr, peer, "LOCAL"
		if p.PeerInSet {
			np.Sets[c40SetHostsDst], np.Sets[c40SetVXLANDst] = true, true
		}
	}
	switch p.Class {
	case "tcp80":
		np.Proto, np.SPort, np.DPort = nfsim.ProtoTCP, 40000, 80
	case "tcp22":
		np.Proto, np.SPort, np.DPort = nfsim.ProtoTCP, 40000, 22
	case "resp22":
		np.Proto, np.SPort, np.DPort = nfsim.ProtoTCP, 22, 40000
	case "udp53":
		np.Proto, np.SPort, np.DPort = nfsim.ProtoUDP, 40000, 53
	case "resp53":
		np.Proto, np.SPort, np.DPort = nfsim.ProtoUDP, 53, 40000
	case "ipip":
		np.Proto = nfsim.ProtoIPIP
	case "vxlan":
		np.Proto, np.SPort, np.DPort = nfsim.ProtoUDP, 40000, c40VXLANPort
	case "wg":
		np.Proto, np.SPort, np.DPort = nfsim.ProtoUDP, 40000, c40WGPort
	default:
		panic("bad class " + p.Class)
	}
	np.RPFFail = p.RPFFail
	return np
}

// hooks of a path, in kernel order
var c40PathHookTable = map[string][]c40Hook{
	"input":   {{"raw", "PREROUTING"}, {"mangle", "PREROUTING"}, {"filter", "INPUT"}},
	"forward": {{"raw", "PREROUTING"}, {"mangle", "PREROUTING"}, {"filter", "FORWARD"}, {"mangle", "POSTROUTING"}},
	"output":  {{"raw", "OUTPUT"}, {"filter", "OUTPUT"}, {"mangle", "POSTROUTING"}},
}

func c40PathHooks(path string) []c40Hook {
	h := c40PathHookTable[path]
	if h == nil {
		panic("bad path " + path)
	}
	return h
}

var c40HookNames = func() map[c40Hook]string {
	m := map[c40Hook]string{}
	for _, h := range c40Hooks {
		m[h] = h.table + "/" + h.chain
	}
	return m
}()

type c40HookRes struct {
	Hook    string
	Verdict string
	Mark    uint32
	CT      string
	Trace   []string `json:",omitempty"`
}

type c40PathRes struct {
	Dropped bool
	At      string // hook where it was dropped
	Hooks   []c40HookRes
}

func (r c40PathRes) verdictAt(hook string) string {
	for _, h := range r.Hooks {
		if h.Hook == hook {
			return h.Verdict
		}
	}
	return ""
}

// c40Walk sends the packet through the hooks of its path. nftNeqWhole: read nft's "ct status != dnat" the way
// nft v1.0.6 really compiles it (whole-value compare: true for every real conntrack entry) instead of nfsim's
// "DNAT bit clear".
func (w *c40World) c40Walk(p c40Pkt, nftNeqWhole, trace bool) (c40PathRes, error) {
	var out c40PathRes
	out.Hooks = make([]c40HookRes, 0, 4)
	np := p.base()
	mark := p.Mark
	untracked := false
	for _, h := range c40PathHooks(p.Path) {
		q := np
		q.Mark = mark
		switch h.chain {
		case "PREROUTING", "INPUT":
			q.InIface = p.In
		case "FORWARD":
			q.InIface, q.OutIface = p.In, p.Out
		case "OUTPUT":
			q.OutIface = p.Out
		case "POSTROUTING":
			q.OutIface = p.Out
			if w.kind == nfsim.Nft {
				q.InIface = p.In // nft can see iifname of forwarded packets in postrouting, iptables cannot
			}
		}
		q.CTState = p.CT
		if p.DNAT {
			q.CTStatus = "DNAT"
		}
		if untracked {
			q.CTState, q.CTStatus = "UNTRACKED", ""
		}
		if nftNeqWhole && h.table == "filter" && h.chain == "OUTPUT" {
			q.CTStatus = ""
		}
		if q.CTState == "INVALID" {
			q.CTStatus = ""
		}
		name := c40HookNames[h]
		res, err := w.rs[h.table].Eval(w.entry[h], q, trace)
		if err != nil {
			return out, fmt.Errorf("%s: %w", name, err)
		}
		hr := c40HookRes{Hook: name, Verdict: res.Verdict, Mark: res.Mark, CT: q.CTState, Trace: res.Trace}
		out.Hooks = append(out.Hooks, hr)
		if res.Verdict == "DROP" || res.Verdict == "REJECT" {
			out.Dropped, out.At = true, name
			return out, nil
		}
		mark = res.Mark
		if h.table == "raw" && res.NoTrack {
			untracked = true
		}
	}
	return out, nil
}

// ---------------------------------------------------------------------------------------------
// enumeration of packet classes

type c40Bound struct {
	hostIfaces []string
	cts        []string
}

func c40Packets(cfg c40Cfg, b c40Bound, emit func(c40Pkt)) {
	marks := []uint32{c40MarkForeign, c40MarkForeign | c40AllCalicoBits}
	wlIn := []string{c40WlKnown, c40WlUnknown, c40WlUnkTap}
	type cls struct {
		name         string
		inNet, inSet []bool
	}
	f, tf := []bool{false}, []bool{false, true}
	classes := []cls{{"tcp80", f, f}, {"tcp22", f, f}, {"resp22", f, f}, {"udp53", tf, f}, {"resp53", tf, f}, {"ipip", f, tf}, {"vxlan", f, tf}}
	if cfg.WG {
		classes = append(classes, cls{"wg", f, f})
	}
	// input path
	for _, in := range append(append([]string{}, b.hostIfaces...), wlIn...) {
		rpfs := f
		if c40IsWlIface(in) {
			rpfs = tf
		}
		for _, c := range classes {
			for _, inNet := range c.inNet {
				for _, inSet := range c.inSet {
					for _, ct := range b.cts {
						for _, rpf := range rpfs {
							for _, mk := range marks {
								emit(c40Pkt{Path: "input", In: in, Class: c.name, PeerInNet: inNet, PeerInSet: inSet, CT: ct, RPFFail: rpf, Mark: mk})
							}
						}
					}
				}
			}
		}
	}
	// forward path
	fwdIn := append(append([]string{}, b.hostIfaces...), wlIn...)
	fwdOut := append(append([]string{}, b.hostIfaces...), c40WlKnown, c40WlUnknown)
	for _, in := range fwdIn {
		rpfs := f
		if c40IsWlIface(in) {
			rpfs = tf
		}
		for _, out := range fwdOut {
			if in == out {
				continue
			}
			for _, c := range []string{"tcp80", "tcp22"} {
				for _, ct := range b.cts {
					for _, rpf := range rpfs {
						for _, mk := range marks {
							emit(c40Pkt{Path: "forward", In: in, Out: out, Class: c, CT: ct, RPFFail: rpf, Mark: mk})
						}
					}
				}
			}
		}
	}
	// output path
	for _, out := range append(append([]string{}, b.hostIfaces...), c40WlKnown) {
		for _, c := range classes {
			for _, inNet := range c.inNet {
				for _, inSet := range c.inSet {
					for _, ct := range b.cts {
						for _, dnat := range tf {
							for _, mk := range marks {
								emit(c40Pkt{Path: "output", Out: out, Class: c.name, PeerInNet: inNet, PeerInSet: inSet, CT: ct, DNAT: dnat, Mark: mk})
							}
						}
					}
				}
			}
		}
	}
}

// ---------------------------------------------------------------------------------------------
// oracle

// does the packet match an entry of the failsafe list (dport side)?
func c40FailsafeDPort(variant string, p c40Pkt) bool {
	switch p.Class {
	case "tcp22":
		return c40FailsafeHas(variant, "ssh")
	case "udp53":
		return c40FailsafeHas(variant, "dns4") && p.PeerInNet
	}
	return false
}

// ... or the reply side (sport = failsafe port) of a connection on a failsafe port?
func c40FailsafeSPort(variant string, p c40Pkt) bool {
	switch p.Class {
	case "resp22":
		return c40FailsafeHas(variant, "ssh")
	case "resp53":
		return c40FailsafeHas(variant, "dns4") && p.PeerInNet
	}
	return false
}

type c40Finding struct {
	// key = "C40:" + Head + ":by=" + <class of the chain whose rule decided in hook Hook> + Tail
	Head, Tail string
	Hook       string
	Msg        string
}

// c40Judge applies the statement's clauses to one walked packet. It returns violations and the outcome
// signature (for the vacuity statistics).
func c40Judge(cfg c40Cfg, p c40Pkt, r c40PathRes, variant string) (viol []c40Finding, outcome string) {
	// keys: "C40:<clause>:<failing shape>:by=<deciding chain>:ct=<state>:<dataplane>" - most specific parts last
	// so that one prefix entry can cover both renderers / all conntrack states
	ctc := p.CT
	if ctc == "RELATED" {
		ctc = "ESTABLISHED" // same class in every rendered rule; keeps keys stable between tiers
	}
	tail := ":ct=" + ctc + ":" + cfg.Kind
	if variant != "" {
		tail += ":" + variant
	}
	filterHook := map[string]string{"input": "filter/INPUT", "forward": "filter/FORWARD", "output": "filter/OUTPUT"}[p.Path]
	bad := func(head, msg string) {
		hook := filterHook
		if r.Dropped {
			hook = r.At
		}
		viol = append(viol, c40Finding{Head: head, Tail: tail, Hook: hook, Msg: msg})
	}
	where := "passed"
	if r.Dropped {
		where = "dropped@" + r.At
	}
	hostIn := p.Path == "input" && !c40IsWlIface(p.In)
	hostOut := p.Path == "output" && !c40IsWlIface(p.Out)
	tunnelOn := (p.Class == "ipip" && (cfg.Encap == "ipip" || cfg.Encap == "both")) || (p.Class == "vxlan" && (cfg.Encap == "vxlan" || cfg.Encap == "both"))

	// Clause 4: tunnelled packets from non-cluster sources are dropped (packets addressed to this host: that is
	// where they would be decapsulated).
	if p.Path == "input" && tunnelOn && !p.PeerInSet {
		if !r.Dropped {
			bad("tunnel:"+p.Class+":non-cluster-source-not-dropped:in="+c40IfClass(p.In), "tunnelled packet from a source outside the cluster IP set reached the host")
		}
		return viol, "tunnel/" + p.Class + "/off-set/" + where
	}

	// Clause 2: unknown workload-prefixed interface => dropped on input and forward paths.
	if (p.Path == "input" || p.Path == "forward") && (p.In == c40WlUnknown || p.In == c40WlUnkTap) {
		cls := "plain"
		if p.Class == "wg" || p.Class == "ipip" || p.Class == "vxlan" {
			cls = p.Class
		}
		if !r.Dropped {
			bad("unknown-iface:"+p.Path+":"+cls+":not-dropped", "packet from an interface with a workload prefix that Felix has no endpoint for was not dropped")
		}
		return viol, "unknown-iface/" + p.Path + "/" + cls + "/ct=" + ctc + "/" + where
	}

	// Clause 1: failsafe ports, host side, every path host endpoint policy could block.
	if hostIn || hostOut {
		list := cfg.FailIn
		other := cfg.FailOut
		dir := "in"
		if hostOut {
			list, other, dir = cfg.FailOut, cfg.FailIn, "out"
		}
		switch {
		case c40FailsafeDPort(list, p) && p.CT != "INVALID":
			if r.Dropped {
				bad("failsafe:"+dir+":"+p.Class+":dropped@"+r.At+":hep="+cfg.HEP, "packet to a configured failsafe port was dropped")
			}
			return viol, "failsafe/" + dir + "/" + p.Class + "/ct=" + ctc + "/" + where
		case c40FailsafeDPort(list, p):
			return nil, "failsafe-ct-invalid(unconstrained)/" + dir + "/" + where
		case c40FailsafeSPort(other, p) && (p.CT == "ESTABLISHED" || p.CT == "RELATED"):
			// reply packets of a connection on a failsafe port (sport = failsafe port, conntrack knows the flow)
			if r.Dropped {
				bad("failsafe-reply:"+dir+":"+p.Class+":dropped@"+r.At+":hep="+cfg.HEP, "reply packet of a connection on a configured failsafe port was dropped")
			}
			return viol, "failsafe-reply/" + dir + "/" + p.Class + "/" + where
		}
	}

	// Clause 3: known workload -> host: egress policy first, then the endpoint-to-host action.
	if p.Path == "input" && p.In == c40WlKnown {
		plain := p.Class == "tcp80" || p.Class == "tcp22" || p.Class == "udp53" || p.Class == "wg" || p.Class == "resp22" || p.Class == "resp53"
		cls := "plain"
		if p.Class == "wg" {
			cls = "wg"
		}
		if plain && p.CT == "NEW" {
			fv := r.verdictAt("filter/INPUT")
			switch {
			case cfg.Wl == "deny":
				if !r.Dropped {
					bad("wl-to-host:"+cls+":egress-policy-denies-but-not-dropped:e2h="+cfg.E2H+":got="+c40VerdictClass(fv), "workload egress policy denies the packet but it was not dropped")
				}
				return viol, "wl-to-host/deny/" + where
			case r.Dropped && r.At != "filter/INPUT":
				// stopped earlier by something else (RPF, wildcard host endpoint pre-DNAT policy): consistent
				return nil, "wl-to-host/allow/" + where
			default:
				want := map[string]string{"DROP": "DROP", "ACCEPT": "ACCEPT", "RETURN": "FOREIGN"}[cfg.E2H]
				got := c40VerdictClass(fv)
				if got != want {
					viol = append(viol, c40Finding{Head: "wl-to-host:" + cls + ":egress-policy-allows:e2h=" + cfg.E2H + ":got=" + got, Tail: tail, Hook: "filter/INPUT",
						Msg: "workload egress policy allows the packet but the filter INPUT verdict is not the configured endpoint-to-host action"})
				}
				return viol, "wl-to-host/allow/e2h=" + cfg.E2H + "/got=" + got
			}
		}
		return nil, "wl-to-host(unconstrained)/" + p.Class + "/ct=" + ctc + "/" + where
	}

	// everything else: the statement is silent. Keep the outcome for the vacuity statistics.
	return nil, "other/" + p.Path + "/" + p.Class + "/ct=" + ctc + "/" + where
}

// c40DecidingChain: class of the chain that holds the last rule that fired in the given hook of a traced walk.
func c40DecidingChain(r c40PathRes, hook string) string {
	for _, h := range r.Hooks {
		if h.Hook != hook || len(h.Trace) == 0 {
			continue
		}
		last := h.Trace[len(h.Trace)-1]
		name := last
		if i := strings.IndexByte(last, '['); i >= 0 {
			name = last[:i]
		}
		for _, layer := range []string{"filter-", "mangle-", "raw-"} {
			name = strings.TrimPrefix(name, layer)
		}
		for _, m := range [][2]string{
			{rules.HostFromEndpointForwardPfx, "hep-from-forward-chain"}, {rules.HostToEndpointForwardPfx, "hep-to-forward-chain"},
			{rules.HostFromEndpointPfx, "hep-from-chain"}, {rules.HostToEndpointPfx, "hep-to-chain"},
			{rules.WorkloadFromEndpointPfx, "wl-from-chain"}, {rules.WorkloadToEndpointPfx, "wl-to-chain"},
			{string(rules.PolicyInboundPfx), "policy-chain"}, {string(rules.PolicyOutboundPfx), "policy-chain"},
		} {
			if strings.HasPrefix(name, m[0]) {
				return m[1]
			}
		}
		return name
	}
	return "none"
}

func c40VerdictClass(v string) string {
	switch {
	case v == "DROP" || v == "REJECT":
		return "DROP"
	case v == "ACCEPT":
		return "ACCEPT"
	case strings.HasPrefix(v, "CHAIN:") && strings.HasSuffix(v, c40Foreign):
		return "FOREIGN" // left Felix's chains, continues with the other rules of the kernel chain
	case v == "":
		return "NOT-REACHED"
	}
	return v
}

func c40IfClass(n string) string {
	switch {
	case n == c40WlKnown:
		return "known-wl"
	case c40IsWlIface(n):
		return "unknown-wl"
	}
	return "host"
}

// ---------------------------------------------------------------------------------------------
// configuration space

// c40Configs enumerates the configuration space as the union of three full products:
//
//	H (host protection): dataplane x failsafe lists x filter/mangle allow action x encapsulation x every host
//	   endpoint layout (none | named eth0 | all-interfaces, each with untracked x pre-DNAT x normal x
//	   apply-on-forward policy) - with a few (endpoint-to-host action, workload policy) pairs;
//	W (workload isolation): dataplane x endpoint-to-host action x filter/mangle allow action x workload policy x
//	   encapsulation x host endpoint layouts - with one failsafe pair;
//	G (Wireguard, OBSERVATION ONLY): dataplane x endpoint-to-host action x workload policy x {no HEP,
//	   all-interfaces HEP}. Wireguard is outside the property's configuration space (its encapsulations are
//	   IPIP/VXLAN) and the position of the Wireguard allow rule in front of the workload diversion is
//	   documented design: whatever the clauses would say about these configurations is only counted
//	   (evidence key "wireguard_observations"), never reported as a violation.
func c40Configs(c *vk.Ctx, emit func(c40Cfg)) {
	kinds := []string{"ipt", "nft"}
	type fs struct{ in, out string }
	pol := []string{"none", "deny", "allow"}
	type hp struct{ hep, u, p, n, f string }
	hepLayouts := func(fwd []string) []hp {
		heps := []hp{{"none", "none", "none", "none", "none"}}
		for _, p := range pol {
			for _, n := range pol {
				for _, f := range fwd {
					for _, u := range pol {
						heps = append(heps, hp{"eth0", u, p, n, f})
					}
					// untracked policy is not supported on the all-interfaces host endpoint (Felix ignores it)
					heps = append(heps, hp{"wild", "none", p, n, f})
				}
			}
		}
		return heps
	}
	allow2 := []string{"ACCEPT", "RETURN"}
	e2hs := []string{"DROP", "RETURN", "ACCEPT"}
	type ew struct{ e2h, wl string }

	var failsafes []fs
	var encaps []string
	var hepsH, hepsW []hp
	var ewH []ew
	var maW []string
	if c.Quick() {
		// every variant appears on the inbound and on the outbound side ("two" is the IPv4-effective content of
		// the mix variants; family W uses it)
		failsafes = []fs{{"none", "none"}, {"one", "mixF"}, {"mixF", "one"}, {"mixM", "mixL"}, {"mixL", "mixM"}}
		encaps = []string{"none", "both"}
		hepsH = hepLayouts([]string{"none", "deny"})
		ewH = []ew{{"RETURN", "allow"}}
		hepsW = []hp{{"none", "none", "none", "none", "none"}, {"wild", "none", "deny", "deny", "none"}, {"wild", "none", "allow", "allow", "deny"}, {"eth0", "allow", "allow", "allow", "none"}}
		maW = []string{"ACCEPT"}
	} else {
		for _, set := range [][]string{{"none", "one", "two"}, {"mixF", "mixM", "mixL"}} {
			for _, a := range set {
				for _, b := range set {
					failsafes = append(failsafes, fs{a, b})
				}
			}
		}
		encaps = []string{"none", "ipip", "vxlan", "both"}
		hepsH = hepLayouts(pol)
		ewH = []ew{{"RETURN", "allow"}}
		hepsW = hepsH
		maW = allow2
	}
	// family H
	for _, kind := range kinds {
		for _, f := range failsafes {
			for _, fa := range allow2 {
				for _, ma := range allow2 {
					for _, enc := range encaps {
						for _, h := range hepsH {
							for _, x := range ewH {
								emit(c40Cfg{Kind: kind, FailIn: f.in, FailOut: f.out, E2H: x.e2h, FilterAllow: fa, MangleAllow: ma, Encap: enc,
									HEP: h.hep, Untracked: h.u, PreDNAT: h.p, Normal: h.n, Forward: h.f, Wl: x.wl})
							}
						}
					}
				}
			}
		}
	}
	// family W
	encapsW := []string{"none", "both"}
	for _, kind := range kinds {
		for _, e2h := range e2hs {
			for _, fa := range allow2 {
				for _, ma := range maW {
					for _, wl := range []string{"deny", "allow"} {
						for _, enc := range encapsW {
							for _, h := range hepsW {
								emit(c40Cfg{Kind: kind, FailIn: "one", FailOut: "two", E2H: e2h, FilterAllow: fa, MangleAllow: ma, Encap: enc,
									HEP: h.hep, Untracked: h.u, PreDNAT: h.p, Normal: h.n, Forward: h.f, Wl: wl})
							}
						}
					}
				}
			}
		}
	}
	// family G: Wireguard enabled - observation only, see above
	for _, kind := range kinds {
		for _, e2h := range e2hs {
			for _, wl := range []string{"deny", "allow"} {
				for _, hep := range []string{"none", "wild"} {
					n := "none"
					if hep == "wild" {
						n = "deny"
					}
					emit(c40Cfg{Kind: kind, FailIn: "one", FailOut: "one", E2H: e2h, FilterAllow: "ACCEPT", MangleAllow: "ACCEPT", Encap: "none", WG: true,
						HEP: hep, Untracked: "none", PreDNAT: "none", Normal: n, Forward: "none", Wl: wl})
				}
			}
		}
	}
}

// ---------------------------------------------------------------------------------------------
// run one configuration

type c40Detail struct {
	Cfg      c40Cfg
	Pkt      c40Pkt
	Variant  string `json:",omitempty"`
	Msg      string
	Result   c40PathRes
	Stubs    []string
	Rendered []string
}

type c40Stats struct {
	worlds, walks, evals int64
	outcomes             map[string]int64
	violCount            map[string]int64
	observed             map[string]int64 // clause outcomes in observation-only configurations (Wireguard)
}

func c40NewStats() c40Stats {
	return c40Stats{outcomes: map[string]int64{}, violCount: map[string]int64{}, observed: map[string]int64{}}
}

type c40Run struct {
	c     *vk.Ctx
	mu    sync.Mutex
	seen  map[string]bool
	total c40Stats
}

func (r *c40Run) firstTime(key string) bool {
	r.mu.Lock()
	defer r.mu.Unlock()
	if r.seen[key] {
		return false
	}
	r.seen[key] = true
	return true
}

// c40RunCfg returns false on a tool error (stop everything).
func (r *c40Run) runCfg(cfg c40Cfg, b c40Bound, st *c40Stats) bool {
	c := r.c
	var w *c40World
	err := vk.Catch(func() (e error) { w, e = c40Build(cfg); return e })
	if err != nil {
		var le *nfsim.LoadError
		var pe *vk.PanicError
		switch {
		case errors.As(err, &le):
			d := map[string]any{"cfg": cfg, "error": le.Error()}
			if w != nil {
				d["rendered"] = w.Lines()
			}
			c.Violation("C40:"+cfg.Kind+":unloadable-"+le.Class, d)
			return true
		case errors.As(err, &pe):
			c.ToolError(fmt.Sprintf("cfg %s: %v\n%s", cfg.sig(), err, pe.Stack))
			return false
		default:
			c.ToolError(fmt.Sprintf("cfg %s: %v", cfg.sig(), err))
			return false
		}
	}
	st.worlds++
	ok := true
	c40Packets(cfg, b, func(p c40Pkt) {
		if !ok {
			return
		}
		// Environment assumption: an address inside the cluster-host IP sets is never routed through a workload
		// interface, so such a packet arriving from a workload-prefixed interface fails the reverse-path check.
		if p.PeerInSet && p.Path != "output" && c40IsWlIface(p.In) && !p.RPFFail {
			return
		}
		variants := []string{""}
		if cfg.nft() && p.Path == "output" && p.DNAT {
			variants = []string{"", "nft-neq-whole-value"}
		}
		for _, v := range variants {
			res, err := w.c40Walk(p, v != "", false)
			st.walks++
			st.evals += int64(len(res.Hooks))
			if err != nil {
				c.ToolError(fmt.Sprintf("cfg %s pkt %s: %v", cfg.sig(), p, err))
				ok = false
				return
			}
			viol, outcome := c40Judge(cfg, p, res, v)
			st.outcomes[outcome]++
			if len(viol) > 0 {
				rt, _ := w.c40Walk(p, v != "", true)
				for _, f := range viol {
					key := "C40:" + f.Head + ":by=" + c40DecidingChain(rt, f.Hook) + f.Tail
					if cfg.WG {
						// outside the property's configuration space: counted, never a violation
						st.observed[key]++
						continue
					}
					st.violCount[key]++
					if r.firstTime(key) {
						c.Violation(key, c40Detail{Cfg: cfg, Pkt: p, Variant: v, Msg: f.Msg, Result: rt, Stubs: w.stubs, Rendered: w.Lines()})
					}
				}
			}
		}
	})
	return ok
}

func c40BoundFor(c *vk.Ctx) c40Bound {
	if c.Quick() {
		return c40Bound{hostIfaces: []string{c40HostIf0, c40HostIf1}, cts: []string{"NEW", "ESTABLISHED", "INVALID"}}
	}
	return c40Bound{hostIfaces: []string{c40HostIf0, c40HostIf1, c40TunlIf}, cts: []string{"NEW", "ESTABLISHED", "RELATED", "INVALID"}}
}

func TestVerif_C40(t *testing.T) {
	vk.Run(t, "C40", func(c *vk.Ctx) {
		c40Quiet()
		debug.SetGCPercent(400) // worlds are short-lived garbage; memory stays small
		if bad := append(nfsim.SelfTest(), nfsim.SelfTestNATState()...); len(bad) > 0 {
			for _, b := range bad {
				c.ToolError("nfsim self-test: " + b)
			}
			return
		}
		if os.Getenv("C40_DUMP") != "" {
			for _, kind := range []string{"ipt", "nft"} {
				cfg := c40Cfg{Kind: kind, FailIn: "two", FailOut: "two", E2H: "RETURN", FilterAllow: "ACCEPT", MangleAllow: "ACCEPT", Encap: "both", WG: true,
					HEP: "wild", Untracked: "none", PreDNAT: "allow", Normal: "deny", Forward: "deny", Wl: "allow"}
				w, err := c40Build(cfg)
				if w != nil {
					for _, l := range w.Lines() {
						fmt.Println(l)
					}
				}
				if err != nil {
					fmt.Println("BUILD ERROR:", err)
				}
			}
		}
		c.Rule("states = configurations (dataplane ipt|nft x inbound/outbound failsafe lists x DefaultEndpointToHostAction x filter/mangle allow action x encapsulation x " +
			"host endpoint {none, named eth0, all-interfaces} x untracked/pre-DNAT/normal/apply-on-forward policy {none, deny-all, allow-all} x workload policy {deny, allow}) " +
			"rendered into raw+mangle+filter by the real setUpIptablesNormal, policyManager, endpointManager and renderers; " +
			"transitions = kernel-hook traversals of packet classes (path input/forward/output x in/out interface incl. known and unknown workload interfaces x " +
			"protocol/port class on/off failsafe, reply side, IPIP/VXLAN from in-set/out-of-set peers x conntrack state x DNAT x RPF result x initial mark garbage) executed by nfsim over the rendered text, " +
			"mark and NOTRACK carried from hook to hook; plus, chain level: cali-failsafe-in/-out of raw, mangle and filter rendered for IPv4 and IPv6 for every ordered pair of the six failsafe list variants " +
			"(incl. lists mixing IPv4-CIDR, IPv6-CIDR and CIDR-less entries in every order), each applicable entry and its raw reply-side twin probed; non-trivial = configurations with a host endpoint carrying at least one deny-all policy")
		c.Assume("netfilter hook order raw -> mangle -> filter (-> mangle POSTROUTING) and per-table ACCEPT semantics are the kernel's; NAT table effects are packet attributes (DNAT status bit); " +
			"conntrack state is a packet attribute, except that NOTRACK in raw makes later hooks see UNTRACKED")
		c.Assume("pre-existing rules of other software sit in every kernel hook chain (modelled as a jump to an opaque chain); ChainInsertMode is the default 'insert'")
		c.Assume("an address in the cluster-host IP sets (all-hosts-net / all-vxlan-net) is never routed via a workload interface: such a source on a workload-prefixed interface fails the RPF check")
		c.Assume("Wireguard is outside the property's configuration space: the configurations with WireguardEnabled are rendered and walked, their clause outcomes are only counted (wireguard_observations)")
		c.Assume("chains owned by managers not instantiated here (cali-cidr-block, cali-egress-dscp) are empty; KubeIPVS support, OpenStack special cases, BPF mode, IPv6 and flow-offload are off; " +
			"failsafe ports differ from the VXLAN and Wireguard ports; packets with conntrack state INVALID on a failsafe port are not constrained (the endpoint chains drop INVALID before the failsafe jump)")

		run := &c40Run{c: c, seen: map[string]bool{}}
		run.total = c40NewStats()
		bound := c40BoundFor(c)

		if rf := c.ReplayFile(); rf != "" {
			var d c40Detail
			if err := vk.LoadReplay(rf, &d); err != nil {
				c.ToolError("replay: " + err.Error())
				return
			}
			st := c40NewStats()
			run.runCfg(d.Cfg, c40BoundFor(c), &st)
			c.Add("states", st.worlds)
			c.Add("transitions", st.evals)
			c.Sample(map[string]any{"cfg": d.Cfg, "pkt": d.Pkt})
			return
		}

		// chain-level part: failsafe chain content for IPv4 and IPv6, every ordered pair of list variants
		fsStates, fsEvals, fsOK := c40FailsafeChains(c)
		c.Add("states", fsStates)
		c.Add("transitions", fsEvals)
		c.Extra("failsafe_chain_renderings", fsStates)
		c.Extra("failsafe_chain_evaluations", fsEvals)
		if !fsOK {
			return
		}

		seenCfg := map[c40Cfg]bool{}
		cfgs := make([]c40Cfg, 0, 1<<17)
		c40Configs(c, func(cfg c40Cfg) {
			if !seenCfg[cfg] {
				seenCfg[cfg] = true
				cfgs = append(cfgs, cfg)
			}
		})
		if v := os.Getenv("C40_LIMIT"); v != "" {
			n := 0
			fmt.Sscan(v, &n)
			if n > 0 && n < len(cfgs) {
				step := len(cfgs) / n
				var sub []c40Cfg
				for i := 0; i < len(cfgs); i += step {
					sub = append(sub, cfgs[i])
				}
				cfgs = sub
				c.NotExhaustive("C40_LIMIT debugging subset")
			}
		}
		for _, cfg := range cfgs {
			if !cfg.WG && cfg.HEP != "none" && (cfg.Untracked == "deny" || cfg.PreDNAT == "deny" || cfg.Normal == "deny" || cfg.Forward == "deny") {
				c.Nontrivial(cfg.sig())
			}
		}

		workers := c.Pick(6, 8)
		ch := make(chan c40Cfg, 64)
		var wg sync.WaitGroup
		var mu sync.Mutex
		stop := false
		for i := 0; i < workers; i++ {
			wg.Add(1)
			go func() {
				defer wg.Done()
				st := c40NewStats()
				for cfg := range ch {
					mu.Lock()
					s := stop
					mu.Unlock()
					if s {
						continue
					}
					if c.Expired() {
						c.Capped("deadline reached before all configurations were explored")
						mu.Lock()
						stop = true
						mu.Unlock()
						continue
					}
					if !run.runCfg(cfg, bound, &st) {
						mu.Lock()
						stop = true
						mu.Unlock()
					}
				}
				mu.Lock()
				run.total.worlds += st.worlds
				run.total.walks += st.walks
				run.total.evals += st.evals
				for k, v := range st.outcomes {
					run.total.outcomes[k] += v
				}
				for k, v := range st.violCount {
					run.total.violCount[k] += v
				}
				for k, v := range st.observed {
					run.total.observed[k] += v
				}
				mu.Unlock()
			}()
		}
		for _, cfg := range cfgs {
			ch <- cfg
		}
		close(ch)
		wg.Wait()

		c.Add("states", run.total.worlds)
		c.Add("transitions", run.total.evals)
		c.Add("path_walks", run.total.walks)
		for k := range run.total.outcomes {
			c.Outcome(k)
		}
		c.Extra("outcome_classes", run.total.outcomes)
		if len(run.total.violCount) > 0 {
			c.Extra("violation_counts", run.total.violCount)
		}
		if len(run.total.observed) > 0 {
			c.Extra("wireguard_observations", run.total.observed)
			fmt.Printf("INFO C40 Wireguard family (outside the property's configuration space, not judged): %d observation classes recorded in the evidence\n", len(run.total.observed))
		}
		c.Extra("configurations", len(cfgs))

		// vacuity guards: the deny-all policies must really drop ordinary traffic at every hook where a host
		// endpoint chain lives, otherwise "failsafe traffic is not dropped" would be an empty statement.
		if !c.Expired() && len(run.total.outcomes) > 0 {
			need := []string{
				"other/input/tcp80/ct=NEW/dropped@raw/PREROUTING",
				"other/input/tcp80/ct=NEW/dropped@mangle/PREROUTING",
				"other/input/tcp80/ct=NEW/dropped@filter/INPUT",
				"other/output/tcp80/ct=NEW/dropped@raw/OUTPUT",
				"other/output/tcp80/ct=NEW/dropped@filter/OUTPUT",
				"other/output/tcp80/ct=NEW/dropped@mangle/POSTROUTING",
				"other/input/tcp80/ct=NEW/passed",
			}
			for _, n := range need {
				if run.total.outcomes[n] == 0 {
					c.ToolError("vacuity guard: outcome class never observed: " + n)
				}
			}
		}
		c.Sample(map[string]any{
			"cfg":    c40Cfg{Kind: "ipt", FailIn: "two", FailOut: "one", E2H: "ACCEPT", FilterAllow: "ACCEPT", MangleAllow: "RETURN", Encap: "both", HEP: "eth0", Untracked: "deny", PreDNAT: "deny", Normal: "deny", Forward: "none", Wl: "deny"},
			"packet": c40Pkt{Path: "input", In: "eth0", Class: "udp53", PeerInNet: true, CT: "NEW", Mark: c40MarkForeign | c40AllCalicoBits}.String(),
			"hooks":  "raw/PREROUTING -> mangle/PREROUTING -> filter/INPUT",
			"oracle": "failsafe clause: must not be dropped at any hook although all three host endpoint policies deny everything",
		})
		c.Sample(map[string]any{
			"cfg":    c40Cfg{Kind: "nft", FailIn: "none", FailOut: "none", E2H: "ACCEPT", FilterAllow: "RETURN", MangleAllow: "ACCEPT", Encap: "none", HEP: "wild", Untracked: "none", PreDNAT: "allow", Normal: "allow", Forward: "deny", Wl: "allow"},
			"packet": c40Pkt{Path: "forward", In: "cali9", Out: "eth0", Class: "tcp80", CT: "ESTABLISHED", Mark: c40MarkForeign}.String(),
			"hooks":  "raw/PREROUTING -> mangle/PREROUTING -> filter/FORWARD -> mangle/POSTROUTING",
			"oracle": "unknown-interface clause: must be dropped",
		})
		keys := make([]string, 0, len(run.total.outcomes))
		for k := range run.total.outcomes {
			keys = append(keys, k)
		}
		sort.Strings(keys)
		fmt.Printf("INFO C40 configurations=%d worlds=%d path-walks=%d hook-evaluations=%d outcome-classes=%d\n", len(cfgs), run.total.worlds, run.total.walks, run.total.evals, len(keys))
		if os.Getenv("C40_OUTCOMES") != "" {
			for _, k := range keys {
				fmt.Printf("INFO   %8d %s\n", run.total.outcomes[k], k)
			}
		}
	})
}

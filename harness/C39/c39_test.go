package ippool

// C39 — overlapping IP pools resolve to one allocatable pool per address.
//
// Shape H: explicit-state BFS (hbfs) over the REAL IPPoolController.reconcile(), in-package, with the
// run loop / workqueue bypassed. The environment is a small API-server model ("truth": IPPool
// objects with resourceVersion conflict checking, status-subresource semantics as in the IPPool CRD,
// finalizer/deletionTimestamp semantics) reached through reactors of the generated fake clientset,
// plus hand-fed informer indexers: synchronising the pool cache and the block cache are explicit
// events, so reconciles on stale caches are part of the explored histories.

import (
	"context"
	"fmt"
	"net"
	"reflect"
	"sort"
	"strconv"
	"strings"
	"testing"
	"time"

	v3 "github.com/projectcalico/api/pkg/apis/projectcalico/v3"
	"github.com/projectcalico/api/pkg/client/clientset_generated/clientset/fake"
	"github.com/sirupsen/logrus"
	apierrors "k8s.io/apimachinery/pkg/api/errors"
	metav1 "k8s.io/apimachinery/pkg/apis/meta/v1"
	"k8s.io/apimachinery/pkg/runtime"
	"k8s.io/apimachinery/pkg/runtime/schema"
	k8stesting "k8s.io/client-go/testing"
	"k8s.io/client-go/tools/cache"
	"k8s.io/client-go/util/workqueue"

	"github.com/projectcalico/calico/libcalico-go/lib/ipam"
	cnet "github.com/projectcalico/calico/libcalico-go/lib/net"
	"github.com/projectcalico/calico/zzverif/hbfs"
	"github.com/projectcalico/calico/zzverif/vk"
)

// ---------------------------------------------------------------------------------------------
// universe

type c39PoolDef struct {
	Name    string
	CIDR    string
	Foreign bool // created with somebody else's finalizer (so it can be terminating without ours)
}

const c39ForeignFinalizer = "example.com/other-finalizer"

var c39GR = schema.GroupResource{Group: "projectcalico.org", Resource: "ippools"}

type c39Ev struct {
	Op   string // create disable enable delete unforeign blockadd blockdel syncpools syncblocks reconcile syncreconcile syncreconcile-failstatus syncreconcile-failfinalizer reconcile-ipamfail
	Name string
}

func (e c39Ev) String() string {
	if e.Name == "" {
		return e.Op
	}
	return e.Op + ":" + e.Name
}

type c39Universe struct {
	Pools  []c39PoolDef
	Blocks []string
	// IPAMFail adds a reconcile variant whose ReleasePoolAffinities fails
	IPAMFail bool
	// FaultBudget: how many reconciles of one history may have an API write refused (only refusals that
	// actually hit a write count)
	FaultBudget int
	// SameTime lists pool names whose creation does not advance the clock (equal creationTimestamps)
	SameTime map[string]bool
}

// ---------------------------------------------------------------------------------------------
// state = API-server model + caches + real controller

type c39Informer struct {
	cache.SharedIndexInformer
	idx cache.Indexer
}

func (f *c39Informer) GetIndexer() cache.Indexer { return f.idx }
func (f *c39Informer) GetStore() cache.Store     { return f.idx }

type c39IPAM struct {
	ipam.Interface
	fail     bool
	released []string
}

func (f *c39IPAM) ReleasePoolAffinities(ctx context.Context, pool cnet.IPNet) error {
	if f.fail {
		return fmt.Errorf("injected: ReleasePoolAffinities failed")
	}
	f.released = append(f.released, pool.String())
	return nil
}

type c39Queue struct {
	workqueue.TypedRateLimitingInterface[string]
}

type c39State struct {
	u      *c39Universe
	ctl    *IPPoolController
	ipam   *c39IPAM
	truth  map[string]*v3.IPPool
	blocks map[string]bool
	rv     int
	clock  int

	poolIdx, blockIdx cache.Indexer

	// ghost: pools deleted by the user while they were allocatable (condition True, not disabled)
	wasActive map[string]bool

	bad    []hbfs.Fail
	lastStale bool
	lastStaleOverlap bool
	// one-shot fault: the next write of this pool on this subresource ("status" or "" = main resource) is refused
	failName, failSub string
	failArmed, failFired bool
	faultsUsed           int
	lastFaultOverlap     bool
	staleD int // (d)-shaped anomalies seen on reconciles with a stale block cache (informational)
	writes int
}

func c39New(u *c39Universe) *c39State {
	s := &c39State{u: u, truth: map[string]*v3.IPPool{}, blocks: map[string]bool{}, wasActive: map[string]bool{}, ipam: &c39IPAM{}}
	s.poolIdx = cache.NewIndexer(cache.MetaNamespaceKeyFunc, cache.Indexers{})
	s.blockIdx = cache.NewIndexer(cache.MetaNamespaceKeyFunc, cache.Indexers{})
	cli := fake.NewClientset()
	cli.PrependReactor("*", "ippools", func(a k8stesting.Action) (bool, runtime.Object, error) {
		ua, ok := a.(k8stesting.UpdateAction)
		if !ok || a.GetVerb() != "update" {
			panic(fmt.Sprintf("c39: controller issued an unmodelled API call %s %s/%s", a.GetVerb(), a.GetResource().Resource, a.GetSubresource()))
		}
		obj := ua.GetObject().(*v3.IPPool)
		if s.failArmed && obj.Name == s.failName && a.GetSubresource() == s.failSub {
			s.failArmed, s.failFired = false, true
			return true, nil, apierrors.NewConflict(c39GR, obj.Name, fmt.Errorf("injected: the object has been modified"))
		}
		out, err := s.apiUpdate(obj, a.GetSubresource())
		if err != nil {
			return true, nil, err
		}
		return true, out, nil
	})
	s.ctl = &IPPoolController{
		ctx:           context.Background(),
		cli:           cli,
		poolInformer:  &c39Informer{idx: s.poolIdx},
		blockInformer: &c39Informer{idx: s.blockIdx},
		ipam:          s.ipam,
		queue:         &c39Queue{},
	}
	return s
}

// apiUpdate models the API server for PUT ippools/<name>[/status].
func (s *c39State) apiUpdate(obj *v3.IPPool, sub string) (*v3.IPPool, error) {
	cur, ok := s.truth[obj.Name]
	if !ok {
		return nil, apierrors.NewNotFound(c39GR, obj.Name)
	}
	if obj.ResourceVersion != cur.ResourceVersion {
		return nil, apierrors.NewConflict(c39GR, obj.Name, fmt.Errorf("the object has been modified; please apply your changes to the latest version and try again"))
	}
	next := cur.DeepCopy()
	switch sub {
	case "status":
		// only the status stanza is taken
		if obj.Status != nil {
			next.Status = obj.Status.DeepCopy()
		} else {
			next.Status = nil
		}
	case "":
		// status is ignored; system-owned metadata is kept
		next.Spec = *obj.Spec.DeepCopy()
		next.Labels = obj.Labels
		next.Annotations = obj.Annotations
		next.Finalizers = append([]string(nil), obj.Finalizers...)
		if cur.DeletionTimestamp != nil {
			// no finalizer may be added to an object that is being deleted
			for _, f := range next.Finalizers {
				found := false
				for _, g := range cur.Finalizers {
					if f == g {
						found = true
					}
				}
				if !found {
					return nil, apierrors.NewForbidden(c39GR, obj.Name, fmt.Errorf("no new finalizers can be added if the object is being deleted"))
				}
			}
		}
	default:
		panic("c39: unmodelled subresource " + sub)
	}
	if !reflect.DeepEqual(next, cur) {
		s.rv++
		next.ResourceVersion = strconv.Itoa(s.rv)
		s.writes++
	}
	if next.DeletionTimestamp != nil && len(next.Finalizers) == 0 {
		delete(s.truth, next.Name)
		delete(s.wasActive, next.Name)
	} else {
		s.truth[next.Name] = next
	}
	return next.DeepCopy(), nil
}

func c39CondTrue(p *v3.IPPool) bool {
	return hasCondition(p, v3.IPPoolConditionAllocatable, metav1.ConditionTrue)
}
func c39CondFalse(p *v3.IPPool) bool {
	return hasCondition(p, v3.IPPoolConditionAllocatable, metav1.ConditionFalse)
}

// established: the controller has declared it allocatable and nothing the user did since takes that away
func c39Established(p *v3.IPPool) bool {
	return p != nil && c39CondTrue(p) && !p.Spec.Disabled && p.DeletionTimestamp == nil
}

// c39IPAMAllocatable mirrors libcalico-go/lib/clientv3 filterIPPool: what IPAM will allocate from.
func c39IPAMAllocatable(p *v3.IPPool) bool {
	return p.DeletionTimestamp == nil && !p.Spec.Disabled && !c39CondFalse(p)
}

func c39Overlap(a, b string) bool {
	_, na, _ := net.ParseCIDR(a)
	_, nb, _ := net.ParseCIDR(b)
	return na.Contains(nb.IP) || nb.Contains(na.IP)
}

func c39Inside(block, pool string) bool {
	_, nb, _ := net.ParseCIDR(block)
	_, np, _ := net.ParseCIDR(pool)
	po, _ := np.Mask.Size()
	bo, _ := nb.Mask.Size()
	return np.Contains(nb.IP) && bo >= po
}

func (s *c39State) def(name string) c39PoolDef {
	for _, d := range s.u.Pools {
		if d.Name == name {
			return d
		}
	}
	panic("no pool " + name)
}

func (s *c39State) bump(p *v3.IPPool) {
	s.rv++
	p.ResourceVersion = strconv.Itoa(s.rv)
}

func (s *c39State) poolsFresh() bool {
	objs := s.poolIdx.List()
	if len(objs) != len(s.truth) {
		return false
	}
	for _, o := range objs {
		p := o.(*v3.IPPool)
		t, ok := s.truth[p.Name]
		if !ok || t.ResourceVersion != p.ResourceVersion {
			return false
		}
	}
	return true
}

func (s *c39State) blocksFresh() bool {
	objs := s.blockIdx.List()
	if len(objs) != len(s.blocks) {
		return false
	}
	for _, o := range objs {
		if !s.blocks[o.(*v3.IPAMBlock).Spec.CIDR] {
			return false
		}
	}
	return true
}

func (s *c39State) syncPools() {
	var objs []any
	for _, p := range s.truth {
		objs = append(objs, p.DeepCopy())
	}
	if err := s.poolIdx.Replace(objs, ""); err != nil {
		panic(err)
	}
}

func (s *c39State) syncBlocks() {
	var objs []any
	for b := range s.blocks {
		objs = append(objs, &v3.IPAMBlock{ObjectMeta: metav1.ObjectMeta{Name: strings.NewReplacer(".", "-", "/", "-", ":", "-").Replace(b)}, Spec: v3.IPAMBlockSpec{CIDR: b}})
	}
	if err := s.blockIdx.Replace(objs, ""); err != nil {
		panic(err)
	}
}

func (s *c39State) fail(key, f string, a ...any) {
	s.bad = append(s.bad, hbfs.Fail{Key: "C39:" + key, Msg: fmt.Sprintf(f, a...)})
}

func (s *c39State) snapshot() map[string]*v3.IPPool {
	m := map[string]*v3.IPPool{}
	for k, v := range s.truth {
		m[k] = v.DeepCopy()
	}
	return m
}

func (s *c39State) hasBlockInside(cidr string) bool {
	for b := range s.blocks {
		if c39Inside(b, cidr) {
			return true
		}
	}
	return false
}

func c39Names(m map[string]*v3.IPPool) []string {
	var ns []string
	for n := range m {
		ns = append(ns, n)
	}
	sort.Strings(ns)
	return ns
}

// reconcile runs the real reconcile() and evaluates the statement's clauses on the truth world.
func (s *c39State) reconcile(ipamFail bool) {
	freshP, freshB := s.poolsFresh(), s.blocksFresh()
	s.lastStale, s.lastStaleOverlap, s.lastFaultOverlap = false, false, false
	before := s.snapshot()
	wasActive := map[string]bool{}
	for k, v := range s.wasActive {
		wasActive[k] = v
	}
	cached := map[string]*v3.IPPool{}
	for _, o := range s.poolIdx.List() {
		p := o.(*v3.IPPool)
		cached[p.Name] = p.DeepCopy()
	}
	s.ipam.fail = ipamFail
	err := s.ctl.reconcile()
	s.ipam.fail = false
	s.failArmed = false
	if s.failFired {
		s.faultsUsed++
	}
	after := s.truth

	// (c, safety form: whatever the caches looked like and whichever write failed) a pool that the controller
	// itself saw as terminating and not disabled masks in that very pass: no overlapping pool may be switched
	// to allocatable by it.
	for _, tn := range c39Names(after) {
		t, ct := after[tn], cached[tn]
		if t.DeletionTimestamp == nil || ct == nil || ct.DeletionTimestamp == nil || ct.Spec.Disabled || t.Spec.Disabled {
			continue
		}
		for _, qn := range c39Names(after) {
			q := after[qn]
			if qn != tn && c39Overlap(q.Spec.CIDR, t.Spec.CIDR) && c39CondTrue(q) && c39IPAMAllocatable(q) && !c39CondTrue(before[qn]) {
				s.fail("terminating-pool-stopped-masking", "pool %s (%s) was switched to allocatable by a reconcile that saw the overlapping pool %s (%s) terminating: %s (fresh pool cache=%v, reconcile error=%v)", qn, q.Spec.CIDR, tn, t.Spec.CIDR, c39Show(after), freshP, err != nil)
			}
		}
	}
	// informational: a reconcile on a fresh pool cache in which a write was refused left two overlapping pools
	// both Allocatable=True (the statement is silent on reconciles that did not complete; they are retried)
	if freshP && err != nil {
		ns := c39Names(after)
		for i, n := range ns {
			for _, m := range ns[i+1:] {
				p, q := after[n], after[m]
				if c39CondTrue(p) && c39CondTrue(q) && c39IPAMAllocatable(p) && c39IPAMAllocatable(q) && c39Overlap(p.Spec.CIDR, q.Spec.CIDR) &&
					!(c39CondTrue(before[n]) && c39CondTrue(before[m])) {
					s.lastFaultOverlap = true
				}
			}
		}
	}

	// (d) an allocatable pool is not deleted while it still has address blocks
	for _, n := range c39Names(before) {
		b := before[n]
		if _, still := after[n]; still || b.DeletionTimestamp == nil || !wasActive[n] {
			continue
		}
		if s.hasBlockInside(b.Spec.CIDR) {
			if freshB {
				s.fail("pool-released-while-blocks-remain", "pool %s (%s), allocatable when it was deleted, lost its finalizer and is gone although a block inside it still exists (blocks %v)", n, b.Spec.CIDR, s.blockList())
			} else {
				s.staleD++
				s.lastStale = true
			}
		}
	}
	// (b) a pool that was already allocatable is never displaced by a newer overlapping pool: an established pool loses its condition while an overlapping pool that was
	// NOT established before the reconcile comes out of it allocatable.
	for _, n := range c39Names(before) {
		b := before[n]
		a := after[n]
		if !freshP || !c39Established(b) || a == nil || a.Spec.Disabled || a.DeletionTimestamp != nil || c39CondTrue(a) {
			// (on a stale pool cache the controller may legitimately believe in a different set of established
			// pools; the effects of such reconciles are explored and judged at the next fresh reconcile)
			continue
		}
		clash := false
		for m, o := range before {
			if m != n && c39Established(o) && c39Overlap(o.Spec.CIDR, b.Spec.CIDR) {
				// two established overlapping pools already existed (only reachable through a reconcile on a
				// stale cache, counted separately): one of them has to lose, to an established pool
				clash = true
			}
		}
		if clash {
			continue
		}
		for _, m := range c39Names(after) {
			q := after[m]
			if m != n && c39Overlap(q.Spec.CIDR, b.Spec.CIDR) && c39CondTrue(q) && c39IPAMAllocatable(q) && !c39Established(before[m]) {
				s.fail("established-pool-displaced", "pool %s (%s) was allocatable before the reconcile and lost that to the overlapping pool %s (%s), which was not: %s (fresh pool cache=%v)", n, b.Spec.CIDR, m, q.Spec.CIDR, c39Show(after), freshP)
			}
		}
	}
	// informational: two allocatable overlapping pools in the truth right after a reconcile that ran on a stale cache
	if !(freshP && freshB) {
		ns := c39Names(after)
		for i, n := range ns {
			for _, m := range ns[i+1:] {
				p, q := after[n], after[m]
				if c39CondTrue(p) && c39CondTrue(q) && c39IPAMAllocatable(p) && c39IPAMAllocatable(q) && c39Overlap(p.Spec.CIDR, q.Spec.CIDR) && !(c39CondTrue(before[n]) && c39CondTrue(before[m])) {
					s.lastStaleOverlap = true
				}
			}
		}
	}
	if freshP && freshB && err == nil {
		// (a) no two allocatable pools overlap
		ns := c39Names(after)
		for i, n := range ns {
			for _, m := range ns[i+1:] {
				p, q := after[n], after[m]
				if c39IPAMAllocatable(p) && c39IPAMAllocatable(q) && c39Overlap(p.Spec.CIDR, q.Spec.CIDR) {
					s.fail("two-allocatable-pools-overlap", "after a reconcile on fresh caches pools %s (%s) and %s (%s) are both allocatable: %s", n, p.Spec.CIDR, m, q.Spec.CIDR, c39Show(after))
				}
			}
		}
		// (c) a terminating pool keeps masking overlapping pools until it is gone
		for _, tn := range ns {
			t := after[tn]
			if t.DeletionTimestamp == nil || t.Spec.Disabled {
				// an administratively disabled pool masks nothing, terminating or not (the statement is
				// silent on disabled+terminating; the code treats it as disabled)
				continue
			}
			for _, qn := range ns {
				q := after[qn]
				if qn == tn || !c39Overlap(q.Spec.CIDR, t.Spec.CIDR) {
					continue
				}
				if c39IPAMAllocatable(q) && !c39Established(before[qn]) {
					s.fail("terminating-pool-stopped-masking", "pool %s (%s) became allocatable while the overlapping pool %s (%s) is still terminating: %s", qn, q.Spec.CIDR, tn, t.Spec.CIDR, c39Show(after))
				}
			}
		}
		// (d') an allocatable pool with blocks carries the finalizer (so a delete cannot remove it outright)
		for _, n := range ns {
			p := after[n]
			if c39Established(p) && !hasFinalizer(p) && s.hasBlockInside(p.Spec.CIDR) {
				s.fail("allocatable-pool-with-blocks-has-no-finalizer", "after a reconcile on fresh caches pool %s (%s) is allocatable, has blocks, and carries no finalizer: %s", n, p.Spec.CIDR, c39Show(after))
			}
		}
	}
}

func (s *c39State) blockList() []string {
	var bs []string
	for b := range s.blocks {
		bs = append(bs, b)
	}
	sort.Strings(bs)
	return bs
}

func c39Apply(s *c39State, e c39Ev) {
	s.failFired = false
	switch e.Op {
	case "create":
		d := s.def(e.Name)
		if !s.u.SameTime[e.Name] {
			s.clock++
		}
		p := &v3.IPPool{
			ObjectMeta: metav1.ObjectMeta{Name: d.Name, CreationTimestamp: metav1.NewTime(time.Unix(int64(100000+s.clock), 0))},
			Spec:       v3.IPPoolSpec{CIDR: d.CIDR},
		}
		if d.Foreign {
			p.Finalizers = []string{c39ForeignFinalizer}
		}
		s.bump(p)
		s.truth[d.Name] = p
	case "disable", "enable":
		p := s.truth[e.Name].DeepCopy()
		p.Spec.Disabled = e.Op == "disable"
		s.bump(p)
		s.truth[e.Name] = p
	case "delete":
		p := s.truth[e.Name].DeepCopy()
		if len(p.Finalizers) == 0 {
			delete(s.truth, e.Name)
			break
		}
		ts := metav1.NewTime(time.Unix(200000, 0))
		p.DeletionTimestamp = &ts
		s.wasActive[e.Name] = c39CondTrue(p) && !p.Spec.Disabled
		s.bump(p)
		s.truth[e.Name] = p
	case "unforeign":
		p := s.truth[e.Name].DeepCopy()
		var fs []string
		for _, f := range p.Finalizers {
			if f != c39ForeignFinalizer {
				fs = append(fs, f)
			}
		}
		p.Finalizers = fs
		if p.DeletionTimestamp != nil && len(fs) == 0 {
			delete(s.truth, e.Name)
			delete(s.wasActive, e.Name)
			break
		}
		s.bump(p)
		s.truth[e.Name] = p
	case "blockadd":
		s.blocks[e.Name] = true
	case "blockdel":
		delete(s.blocks, e.Name)
	case "syncpools":
		s.syncPools()
	case "syncblocks":
		s.syncBlocks()
	case "reconcile":
		s.reconcile(false)
	case "reconcile-ipamfail":
		s.reconcile(true)
	case "syncreconcile":
		s.syncPools()
		s.syncBlocks()
		s.reconcile(false)
	case "syncreconcile-failstatus", "syncreconcile-failfinalizer":
		// reconcile on fresh caches during which the API server refuses the next status / finalizer write of one pool
		s.syncPools()
		s.syncBlocks()
		s.failName, s.failSub, s.failArmed, s.failFired = e.Name, "", true, false
		if e.Op == "syncreconcile-failstatus" {
			s.failSub = "status"
		}
		s.reconcile(false)
	default:
		panic("bad op " + e.Op)
	}
}

func c39Enabled(s *c39State, depth int) []c39Ev {
	var evs []c39Ev
	for _, d := range s.u.Pools {
		p, ok := s.truth[d.Name]
		if !ok {
			evs = append(evs, c39Ev{"create", d.Name})
			continue
		}
		if p.DeletionTimestamp == nil {
			if p.Spec.Disabled {
				evs = append(evs, c39Ev{"enable", d.Name})
			} else {
				evs = append(evs, c39Ev{"disable", d.Name})
			}
			evs = append(evs, c39Ev{"delete", d.Name})
		}
		if d.Foreign {
			for _, f := range p.Finalizers {
				if f == c39ForeignFinalizer {
					evs = append(evs, c39Ev{"unforeign", d.Name})
				}
			}
		}
	}
	for _, b := range s.u.Blocks {
		if s.blocks[b] {
			evs = append(evs, c39Ev{"blockdel", b})
		} else {
			evs = append(evs, c39Ev{"blockadd", b})
		}
	}
	fp, fb := s.poolsFresh(), s.blocksFresh()
	if !fp {
		evs = append(evs, c39Ev{Op: "syncpools"})
	}
	if !fb {
		evs = append(evs, c39Ev{Op: "syncblocks"})
	}
	evs = append(evs, c39Ev{Op: "reconcile"})
	if !fp || !fb {
		evs = append(evs, c39Ev{Op: "syncreconcile"})
	}
	if s.faultsUsed < s.u.FaultBudget {
		for _, n := range c39Names(s.truth) {
			evs = append(evs, c39Ev{"syncreconcile-failstatus", n}, c39Ev{"syncreconcile-failfinalizer", n})
		}
	}
	if s.u.IPAMFail {
		for _, p := range s.truth {
			if p.DeletionTimestamp != nil {
				evs = append(evs, c39Ev{Op: "reconcile-ipamfail"})
				break
			}
		}
	}
	return evs
}

func c39ShowPool(p *v3.IPPool, rank map[string]int) string {
	var fl []string
	if p.Spec.Disabled {
		fl = append(fl, "disabled")
	}
	if p.DeletionTimestamp != nil {
		fl = append(fl, "deleting")
	}
	fs := append([]string(nil), p.Finalizers...)
	sort.Strings(fs)
	for _, f := range fs {
		if f == IPPoolFinalizer {
			fl = append(fl, "fin")
		} else {
			fl = append(fl, "foreignfin")
		}
	}
	cond := "nocond"
	if p.Status != nil {
		var cs []string
		for _, c := range p.Status.Conditions {
			cs = append(cs, fmt.Sprintf("%s=%s/%s", c.Type, c.Status, c.Reason))
		}
		cond = strings.Join(cs, "+")
	}
	r := ""
	if rank != nil {
		r = fmt.Sprintf("@%d", rank[p.Name])
	}
	return fmt.Sprintf("%s%s[%s %s]", p.Name, r, cond, strings.Join(fl, ","))
}

func c39Show(m map[string]*v3.IPPool) string {
	var out []string
	for _, n := range c39Names(m) {
		out = append(out, c39ShowPool(m[n], nil))
	}
	return "{" + strings.Join(out, " ") + "}"
}

// c39Key: canonical projection of everything that can influence the future: truth (conditions, flags,
// finalizers, creation order), per-pool cache copy (content + whether its resourceVersion is current),
// blocks in truth and in the cache, ghost flags. Absolute resourceVersions / timestamps only matter
// through equality / order, so they are reduced to that.
func c39Key(s *c39State) string {
	// creation-time rank over truth ∪ cache
	times := map[int64]bool{}
	for _, p := range s.truth {
		times[p.CreationTimestamp.Unix()] = true
	}
	cached := map[string]*v3.IPPool{}
	for _, o := range s.poolIdx.List() {
		p := o.(*v3.IPPool)
		cached[p.Name] = p
		times[p.CreationTimestamp.Unix()] = true
	}
	var ts []int64
	for t := range times {
		ts = append(ts, t)
	}
	sort.Slice(ts, func(i, j int) bool { return ts[i] < ts[j] })
	rk := map[int64]int{}
	for i, t := range ts {
		rk[t] = i
	}
	var sb strings.Builder
	sb.WriteString("T:")
	for _, n := range c39Names(s.truth) {
		p := s.truth[n]
		sb.WriteString(c39ShowPool(p, nil))
		fmt.Fprintf(&sb, "@%d", rk[p.CreationTimestamp.Unix()])
		if s.wasActive[n] {
			sb.WriteString("!wasactive")
		}
		sb.WriteString(" ")
	}
	sb.WriteString("|C:")
	for _, n := range c39Names(cached) {
		p := cached[n]
		sb.WriteString(c39ShowPool(p, nil))
		fmt.Fprintf(&sb, "@%d", rk[p.CreationTimestamp.Unix()])
		if t, ok := s.truth[n]; ok && t.ResourceVersion == p.ResourceVersion {
			sb.WriteString("=")
		} else {
			sb.WriteString("~")
		}
		sb.WriteString(" ")
	}
	// the clock matters only through "will the next created pool be newer than all existing ones": always true
	// unless SameTime is used, in which case the newest existing timestamp matters (it is part of the ranks).
	fmt.Fprintf(&sb, "|B:%v|CB:", s.blockList())
	var cb []string
	for _, o := range s.blockIdx.List() {
		cb = append(cb, o.(*v3.IPAMBlock).Spec.CIDR)
	}
	sort.Strings(cb)
	fmt.Fprintf(&sb, "%v|bad=%d|faults=%d", cb, len(s.bad), s.faultsUsed)
	if len(s.u.SameTime) > 0 {
		// is the latest creation time still held by a live/cached object? (a same-time create would tie with it)
		fmt.Fprintf(&sb, "|clocktop=%v", times[int64(100000+s.clock)])
	}
	return sb.String()
}

func c39Spec(c *vk.Ctx, u *c39Universe, name string, depth int, tree bool, workers int) *hbfs.Spec[*c39State, c39Ev] {
	sp := &hbfs.Spec[*c39State, c39Ev]{
		Name:     name,
		New:      func() *c39State { return c39New(u) },
		Apply:    c39Apply,
		Enabled:  c39Enabled,
		Key:      c39Key,
		Check: func(s *c39State, hist []c39Ev) []hbfs.Fail {
			if s.lastStale && len(hist) > 0 && strings.Contains(hist[len(hist)-1].Op, "reconcile") {
				// informational: clause (d) shape on a reconcile whose block cache was stale
				c.Add("info_release_with_block_unseen_by_stale_block_cache", 1)
			}
			if s.failFired && len(hist) > 0 && strings.HasPrefix(hist[len(hist)-1].Op, "syncreconcile-fail") {
				c.Add("reconciles_with_a_refused_api_write", 1)
			}
			if s.lastFaultOverlap && len(hist) > 0 && strings.Contains(hist[len(hist)-1].Op, "reconcile") {
				c.Add("info_refused_write_reconcile_left_two_overlapping_allocatable_pools", 1)
			}
			if s.lastStaleOverlap && len(hist) > 0 && strings.Contains(hist[len(hist)-1].Op, "reconcile") {
				// informational: a reconcile on a stale pool cache made two overlapping pools allocatable at once
				c.Add("info_stale_cache_reconcile_left_two_overlapping_allocatable_pools", 1)
			}
			return s.bad
		},
		Show:     func(e c39Ev) string { return e.String() },
		MaxDepth: depth,
		Workers:  workers,
		Nontrivial: func(s *c39State) bool {
			ns := c39Names(s.truth)
			for i, n := range ns {
				for _, m := range ns[i+1:] {
					if c39Overlap(s.truth[n].Spec.CIDR, s.truth[m].Spec.CIDR) {
						return true
					}
				}
			}
			return false
		},
		Outcome: func(s *c39State) string { return c39Show(s.truth) },
		PanicKey: func(val string, hist []c39Ev) string {
			l := val
			if i := strings.IndexByte(l, '\n'); i >= 0 {
				l = l[:i]
			}
			if len(l) > 100 {
				l = l[:100]
			}
			return "C39:panic:" + l
		},
	}
	if tree {
		sp.Key = nil
	}
	return sp
}

func TestVerif_C39(t *testing.T) {
	logrus.SetLevel(logrus.PanicLevel)
	vk.Run(t, "C39", func(c *vk.Ctx) {
		c.Rule("states = (API-server truth: per pool conditions/disabled/deleting/finalizers/creation order; pool-informer cache content and per-object freshness; blocks in truth and in the block cache); " +
			"transitions = user create/disable/enable/delete of pools over overlapping CIDRs, foreign-finalizer removal, block add/remove, pool-cache sync, block-cache sync, and the real IPPoolController.reconcile() " +
			"(on whatever the caches hold, or preceded by a sync), replayed on a fresh controller; non-trivial = at least two pools with overlapping CIDRs exist")
		c.Assume("API server model (trusted): optimistic concurrency on metadata.resourceVersion, /status subresource updates only status and main-resource updates never status (as the IPPool CRD declares), an object with deletionTimestamp disappears when its last finalizer goes; informer caches are snapshots of the truth at the time of the last sync event (pool and block caches independently)")
		c.Assume("oracles (a) disjoint allocatable pools, (c) terminating pools keep masking and (d') finalizer on allocatable pools with blocks are evaluated after reconciles that started on fresh caches and returned no error; (b) no displacement of an established pool by a newcomer after every reconcile that started on a fresh pool cache; (d) no release of a formerly allocatable terminating pool with blocks whenever the block cache was fresh (stale-block-cache occurrences are only counted)")
		c.Assume("IPv4 and IPv6 pools (v6 in its own small universe next to a v4 pool); ReleasePoolAffinities is a stub (optionally failing); 'allocatable' is IPAM's reading (not deleting, not disabled, no Allocatable=False condition)")
		quick := &c39Universe{
			Pools:  []c39PoolDef{{Name: "p24", CIDR: "10.0.0.0/24"}, {Name: "p25a", CIDR: "10.0.0.0/25"}, {Name: "p25b", CIDR: "10.0.0.128/25"}},
			Blocks: []string{"10.0.0.0/26"},
		}
		quick.FaultBudget = c.Pick(1, 2)
		full := &c39Universe{
			Pools: []c39PoolDef{{Name: "p24", CIDR: "10.0.0.0/24"}, {Name: "p25a", CIDR: "10.0.0.0/25"}, {Name: "p25b", CIDR: "10.0.0.128/25"},
				{Name: "a24twin", CIDR: "10.0.0.0/24"}, {Name: "q24", CIDR: "10.0.1.0/24"}, {Name: "f25a", CIDR: "10.0.0.0/25", Foreign: true}},
			Blocks:   []string{"10.0.0.0/26", "10.0.0.128/26"},
			IPAMFail: true,
			SameTime: map[string]bool{"a24twin": true},
		}
		mid := &c39Universe{
			Pools:    []c39PoolDef{{Name: "p24", CIDR: "10.0.0.0/24"}, {Name: "a24twin", CIDR: "10.0.0.0/24"}, {Name: "f25a", CIDR: "10.0.0.0/25", Foreign: true}},
			Blocks:   []string{"10.0.0.0/26"},
			IPAMFail: true,
			SameTime: map[string]bool{"a24twin": true},
		}
		mid.FaultBudget = c.Pick(1, 2)
		full.FaultBudget = 1
		// block/pool geometry: a pool exactly ONE block wide (the block's CIDR is the pool's CIDR), the wider pool
		// that covers it, a sibling pool with a narrower block; every relation of block width to pool width
		// (narrower, equal, and - seen from the narrow pools - a block of the covering pool that is wider) occurs
		edge := &c39Universe{
			Pools:       []c39PoolDef{{Name: "p26", CIDR: "10.0.0.0/26"}, {Name: "p25", CIDR: "10.0.0.0/25"}, {Name: "p26b", CIDR: "10.0.0.64/26"}},
			Blocks:      []string{"10.0.0.0/26", "10.0.0.64/27"},
			FaultBudget: 1,
		}
		// the same in IPv6 next to IPv4 pools (the controller keeps one overlap trie per family)
		v6 := &c39Universe{
			Pools:       []c39PoolDef{{Name: "v122", CIDR: "fd00::/122"}, {Name: "v120", CIDR: "fd00::/120"}, {Name: "p26", CIDR: "10.0.0.0/26"}},
			Blocks:      []string{"fd00::/122", "10.0.0.0/26"},
			FaultBudget: 1,
		}
		if rf := c.ReplayFile(); rf != "" {
			quick.FaultBudget, mid.FaultBudget, full.FaultBudget, edge.FaultBudget, v6.FaultBudget = 9, 9, 9, 9, 9
			var d struct {
				Spec    string
				History []string
			}
			if err := vk.LoadReplay(rf, &d); err != nil {
				c.ToolError(err.Error())
				return
			}
			u := quick
			if strings.HasPrefix(d.Spec, "ippool-full") {
				u = full
			} else if strings.HasPrefix(d.Spec, "ippool-mid") {
				u = mid
			} else if strings.HasPrefix(d.Spec, "ippool-edge") {
				u = edge
			} else if strings.HasPrefix(d.Spec, "ippool-v6") {
				u = v6
			}
			fails, err := hbfs.Replay(c39Spec(c, u, d.Spec, 99, false, 1), d.History)
			if err != nil {
				c.ToolError(err.Error())
			}
			for _, f := range fails {
				c.Violation(f.Key, map[string]any{"spec": d.Spec, "history": d.History, "msg": f.Msg})
			}
			c.Add("states", 1)
			c.Add("transitions", int64(len(d.History)))
			c.Sample(map[string]any{"replayed": d.History})
			return
		}
		c.Sample(map[string]any{"history": []string{"create:p24", "syncreconcile", "create:p25a", "blockadd:10.0.0.0/26", "syncreconcile", "delete:p24", "syncreconcile", "blockdel:10.0.0.0/26", "syncreconcile", "syncreconcile"},
			"meaning": "p24 becomes allocatable and gets the finalizer; p25a is masked (CIDROverlap); deleting p24 makes it terminating, it keeps masking p25a while the block exists; once the block is gone p24 is released and the following reconcile makes p25a allocatable"})
		w := 6
		hbfs.Explore(c, c39Spec(c, quick, "ippool-quick-graph", c.Pick(7, 9), false, w))
		hbfs.Explore(c, c39Spec(c, mid, "ippool-mid-graph", c.Pick(6, 8), false, w))
		hbfs.Explore(c, c39Spec(c, edge, "ippool-edge-graph", c.Pick(6, 8), false, w))
		hbfs.Explore(c, c39Spec(c, v6, "ippool-v6-graph", c.Pick(6, 8), false, w))
		hbfs.Explore(c, c39Spec(c, quick, "ippool-quick-tree", c.Pick(4, 5), true, w))
		if c.Thorough() {
			hbfs.Explore(c, c39Spec(c, full, "ippool-full-graph", 6, false, w))
		}
	})
}

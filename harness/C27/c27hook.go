package config

import (
	"iter"
	"sort"
	"sync"
	"sync/atomic"
)

// Key-read-order hook for the C27 check.  vcheck rewrites the loop header of Config.resolve()
//     for rawName, rawValue := range config.sourceToRawConfig[source] {
// into
//     for rawName, rawValue := range verifIter(config, source) {
// so that the harness can enumerate every order in which the keys of one source map are read (Go map
// iteration order is otherwise not controllable).  For Config objects without a registered order the
// plain map iteration is used, i.e. the behaviour is unchanged.

var (
	verifOrders    sync.Map // *Config -> map[Source][]string (explicit key order per source)
	verifHookCalls atomic.Int64
)

func verifIter(config *Config, source Source) iter.Seq2[string, string] {
	m := config.sourceToRawConfig[source]
	return func(yield func(string, string) bool) {
		verifHookCalls.Add(1)
		o, ok := verifOrders.Load(config)
		if !ok {
			for k, v := range m {
				if !yield(k, v) {
					return
				}
			}
			return
		}
		order := o.(map[Source][]string)[source]
		seen := map[string]bool{}
		var keys []string
		for _, k := range order {
			if _, ok := m[k]; ok && !seen[k] {
				seen[k] = true
				keys = append(keys, k)
			}
		}
		var rest []string
		for k := range m {
			if !seen[k] {
				rest = append(rest, k)
			}
		}
		sort.Strings(rest)
		keys = append(keys, rest...)
		for _, k := range keys {
			if !yield(k, m[k]) {
				return
			}
		}
	}
}

package config

import (
	"fmt"
	"net"
	"reflect"
	"regexp"
	"sort"
	"strings"
	"sync"
	"testing"

	"github.com/sirupsen/logrus"

	"github.com/projectcalico/calico/felix/proto"
	"github.com/projectcalico/calico/zzverif/vk"
)

// C27: Felix configuration resolves by source priority, deterministically.
//
// Shape: bounded-exhaustive enumeration.  For every configuration parameter the real resolver
// (Config.resolve via UpdateFromConfigUpdate / UpdateFrom / OverrideParam) is run on every assignment
// of {absent, valid1, valid2, invalid, none} to the six sources (up to the bounds below) and compared
// with a reference oracle written from the property statement.

// The six sources in descending priority, as listed in the property statement (NOT taken from
// SourcesInDescendingOrder, which is code under test).
var c27Srcs = []Source{InternalOverride, EnvironmentVariable, ConfigFile, DatastorePerHost, DatastorePerSelector, DatastoreGlobal}
var c27SrcNames = []string{"internal", "env", "file", "perhost", "perselector", "global"}

// Internal override, environment and config file are local sources; the other three are the datastore.
func c27LocalSrc(i int) bool { return i <= 2 }

var c27Pool = []string{
	"true", "false", "Enabled", "Disabled", "1", "2", "7", "50", "100", "1000", "3000", "65000", "0x10", "0xff000000", "0xf0000000",
	"1.5", "30", "60", "90", "info", "debug", "append", "insert", "kubernetes", "etcdv3",
	"10.0.0.1", "10.0.0.2", "fe80::1", "fd00::2", "10.0.0.0/8", "192.168.0.0/16",
	"tcp:22", "udp:53", "22", "1000:2000", "3000:4000", "1-250", "251-300", "cali", "tap,veth", "eth0", "eth1,/eth.*/",
	"/tmp", "/", "host-a", "host-b", "us-east", "eu-west", "a=b", "c=d,e=f", "a=10s", "b=5m", "x", "y", "AF11", "CS1",
	"localhost:1234", "example.com:80", "1/second", "5/minute", "x.*", "y+",
	"!!bogus!!", "bogus bogus", "-1", "99999999999", "[",
}

type c27Param struct {
	P       Param
	Name    string
	Idx     int
	Kind    string
	Local   bool
	Die     bool
	NonZero bool
	Def     any // value in a fresh config.New()
	DefTag  any // the default written in the struct tag (differs from Def only for FelixHostname, which applyDefaults fills from the kernel)
	Zero    any
	Raw     map[string]string // class -> raw string
	Val     map[string]any    // v1, v2 -> parsed value
	Classes []string          // classes available for this parameter (subset of v1 v2 inv none)
}

func (p *c27Param) sig() string {
	return fmt.Sprintf("%s/local=%v/die=%v/nonzero=%v/inv=%v", p.Kind, p.Local, p.Die, p.NonZero, p.Raw["inv"] != "")
}

func (p *c27Param) flagSig() string {
	return fmt.Sprintf("local=%v/die=%v/nonzero=%v/inv=%v", p.Local, p.Die, p.NonZero, p.Raw["inv"] != "")
}

func (p *c27Param) key(spell int) string {
	switch spell % 3 {
	case 1:
		return strings.ToLower(p.Name)
	case 2:
		return strings.ToUpper(p.Name)
	}
	return p.Name
}

func c27Equal(a, b any) bool {
	if (a == nil) != (b == nil) {
		return false
	}
	switch x := a.(type) {
	case *regexp.Regexp:
		y, ok := b.(*regexp.Regexp)
		if !ok {
			return false
		}
		if x == nil || y == nil {
			return x == y
		}
		return x.String() == y.String()
	case []*regexp.Regexp:
		y, ok := b.([]*regexp.Regexp)
		if !ok || len(x) != len(y) {
			return false
		}
		for i := range x {
			if !c27Equal(x[i], y[i]) {
				return false
			}
		}
		return true
	case net.IP:
		y, ok := b.(net.IP)
		return ok && x.Equal(y)
	}
	return reflect.DeepEqual(a, b)
}

func c27Show(v any) string {
	switch x := v.(type) {
	case *regexp.Regexp:
		if x == nil {
			return "<nil regexp>"
		}
		return "re:" + x.String()
	case []*regexp.Regexp:
		var s []string
		for _, r := range x {
			s = append(s, c27Show(r))
		}
		return fmt.Sprint(s)
	case *bool:
		if x == nil {
			return "<nil *bool>"
		}
		return fmt.Sprintf("&%v", *x)
	}
	return fmt.Sprintf("%#v", v)
}

var c27ParenRe = regexp.MustCompile(`\([^)]*\)`)

// c27Fields lists the indexes of all config-tagged fields.
func c27Fields() []int {
	var out []int
	kind := reflect.TypeFor[Config]()
	for ii := 0; ii < kind.NumField(); ii++ {
		if kind.Field(ii).Tag.Get("config") != "" {
			out = append(out, ii)
		}
	}
	return out
}

func c27BuildParams(c *vk.Ctx) (usable []*c27Param, skipped []string) {
	base := New()
	kind := reflect.TypeFor[Config]()
	for _, ii := range c27Fields() {
		field := kind.Field(ii)
		tag := field.Tag.Get("config")
		P := knownParams[strings.ToLower(field.Name)]
		if P == nil {
			skipped = append(skipped, field.Name+": not in knownParams")
			continue
		}
		// flags straight from the struct tag (type(params);default;flags)
		parts := strings.Split(c27ParenRe.ReplaceAllString(tag, ""), ";")
		flags := ""
		if len(parts) >= 3 {
			flags = parts[len(parts)-1]
		}
		p := &c27Param{
			P: P, Name: field.Name, Idx: ii,
			Kind:    strings.TrimPrefix(fmt.Sprintf("%T", P), "*config."),
			Local:   strings.Contains(flags, "local"),
			Die:     strings.Contains(flags, "die-on-fail"),
			NonZero: strings.Contains(flags, "non-zero"),
			Def:     reflect.ValueOf(base).Elem().Field(ii).Interface(),
			DefTag:  P.GetMetadata().Default,
			Zero:    reflect.Zero(field.Type).Interface(),
			Raw:     map[string]string{"none": "none"},
			Val:     map[string]any{},
		}
		md := P.GetMetadata()
		if md.Local != p.Local || md.DieOnParseFailure != p.Die || md.NonZero != p.NonZero {
			c.Violation("C27:metadata-flags-differ-from-struct-tag", map[string]any{"param": p.Name, "tag": tag})
		}
		pool := append([]string{}, c27Pool...)
		if o, ok := P.(*OneofListParam); ok {
			var opts []string
			for _, canon := range o.lowerCaseOptionsToCanonical {
				opts = append(opts, canon)
			}
			sort.Strings(opts)
			pool = append(opts, pool...)
		}
		type cand struct {
			raw  string
			val  any
			rank int
		}
		var valids []cand
		for _, raw := range pool {
			if strings.ToLower(raw) == "none" {
				continue
			}
			var v1, v2 any
			var e1, e2 error
			pe := vk.Catch(func() error { v1, e1 = P.Parse(raw); v2, e2 = P.Parse(raw); return nil })
			if pe != nil {
				continue
			}
			if e1 != nil || e2 != nil {
				if e1 != nil && e2 != nil && p.Raw["inv"] == "" {
					p.Raw["inv"] = raw
				}
				continue
			}
			if v1 == nil || !reflect.TypeOf(v1).AssignableTo(field.Type) || !c27Equal(v1, v2) {
				continue
			}
			dup := false
			for _, x := range valids {
				if c27Equal(x.val, v1) {
					dup = true
				}
			}
			if dup {
				continue
			}
			rank := 2
			if !c27Equal(v1, p.Def) {
				rank = 1
				if !c27Equal(v1, p.Zero) {
					rank = 0
				}
			}
			valids = append(valids, cand{raw, v1, rank})
		}
		sort.SliceStable(valids, func(i, j int) bool { return valids[i].rank < valids[j].rank })
		if len(valids) == 0 || valids[0].rank == 2 {
			skipped = append(skipped, p.Name+" ("+p.Kind+"): no valid raw value different from the default in the candidate pool")
			continue
		}
		p.Raw["v1"], p.Val["v1"] = valids[0].raw, valids[0].val
		p.Classes = []string{"v1"}
		if len(valids) > 1 {
			p.Raw["v2"], p.Val["v2"] = valids[1].raw, valids[1].val
			p.Classes = append(p.Classes, "v2")
		}
		if p.Raw["inv"] != "" {
			p.Classes = append(p.Classes, "inv")
		}
		p.Classes = append(p.Classes, "none")
		usable = append(usable, p)
	}
	return
}

// ---- reference oracle (from the property statement) ----

type c27Exp struct {
	Fatal        bool
	Val          any
	Alt          any   // second acceptable value (only for "default if invalid" where tag default and start-up default differ)
	HasAlt       bool
	Winner       int   // index into c27Srcs, -1 if no source decides
	IgnoredFatal []int // sources whose value must not matter (shadowed / datastore value for a local parameter) but is of a fatal class
	Kind         string
}

func (e c27Exp) accepts(v any) bool {
	return c27Equal(v, e.Val) || (e.HasAlt && c27Equal(v, e.Alt))
}

func (p *c27Param) fatalClass(cl string) bool {
	return (cl == "inv" && p.Die) || (cl == "none" && p.NonZero)
}

func (p *c27Param) oracle(cls [6]string) c27Exp {
	exp := c27Exp{Winner: -1}
	for i := 0; i < 6; i++ {
		if cls[i] == "" {
			continue
		}
		if (p.Local && !c27LocalSrc(i)) || exp.Winner >= 0 {
			if p.fatalClass(cls[i]) {
				exp.IgnoredFatal = append(exp.IgnoredFatal, i)
			}
			continue
		}
		exp.Winner = i
	}
	if exp.Winner < 0 {
		exp.Val, exp.Kind = p.Def, "default(unset)"
		return exp
	}
	switch cl := cls[exp.Winner]; cl {
	case "v1", "v2":
		exp.Val, exp.Kind = p.Val[cl], "parsed"
	case "none":
		if p.NonZero {
			exp.Fatal, exp.Kind = true, "fatal(none on non-zero)"
		} else {
			exp.Val, exp.Kind = p.Zero, "zero"
		}
	case "inv":
		if p.Die {
			exp.Fatal, exp.Kind = true, "fatal(invalid)"
		} else {
			exp.Val, exp.Kind = p.Def, "default(invalid)"
			if !c27Equal(p.Def, p.DefTag) {
				exp.Alt, exp.HasAlt = p.DefTag, true
			}
		}
	}
	return exp
}

// ---- running the real code ----

type c27Cell struct {
	Class string
	Spell int
}
type c27Asg [6]c27Cell

func (a c27Asg) classes() (out [6]string) {
	for i := range a {
		out[i] = a[i].Class
	}
	return
}

func (p *c27Param) describe(a c27Asg) map[string]map[string]string {
	out := map[string]map[string]string{}
	for i, cell := range a {
		if cell.Class != "" {
			out[c27SrcNames[i]] = map[string]string{p.key(cell.Spell): p.Raw[cell.Class]}
		}
	}
	return out
}

type c27Res struct {
	cfg     *Config
	changed []string
	err     error
	pan     error
}

// c27Pristine is a config.New() taken once; c27Fresh copies it (the struct holds only values that the
// resolver replaces wholesale, never mutates in place) and gives the copy its own bookkeeping maps.
// This is what config.New() returns, minus the O(n^2) reflection walk of applyDefaults.
var c27Pristine *Config

func c27Fresh() *Config {
	return c27Clone(c27Pristine)
}

func c27Clone(src *Config) *Config {
	cfg := new(Config)
	*cfg = *src
	cfg.rawValues = map[string]string{}
	for k, v := range src.rawValues {
		cfg.rawValues[k] = v
	}
	cfg.internalOverrides = map[string]string{}
	for k, v := range src.internalOverrides {
		cfg.internalOverrides[k] = v
	}
	cfg.sourceToRawConfig = map[Source]map[string]string{}
	for s, m := range src.sourceToRawConfig {
		cfg.sourceToRawConfig[s] = map[string]string{}
		for k, v := range m {
			cfg.sourceToRawConfig[s][k] = v
		}
	}
	return cfg
}

func c27RunMaps(maps map[int]map[string]string, order map[Source][]string) c27Res {
	var r c27Res
	r.cfg = c27Fresh()
	upd := &proto.ConfigUpdate{SourceToRawConfig: map[uint32]*proto.RawConfig{}}
	for i, m := range maps {
		upd.SourceToRawConfig[uint32(c27Srcs[i])] = &proto.RawConfig{Source: c27Srcs[i].String(), Config: m}
	}
	if order != nil {
		verifOrders.Store(r.cfg, order)
		defer verifOrders.Delete(r.cfg)
	}
	r.pan = vk.Catch(func() error {
		ch, err := r.cfg.UpdateFromConfigUpdate(upd)
		r.err = err
		if ch != nil {
			r.changed = ch.Slice()
			sort.Strings(r.changed)
		}
		return nil
	})
	return r
}

func (p *c27Param) run(a c27Asg) c27Res {
	maps := map[int]map[string]string{}
	for i, cell := range a {
		if cell.Class != "" {
			maps[i] = map[string]string{p.key(cell.Spell): p.Raw[cell.Class]}
		}
	}
	return c27RunMaps(maps, nil)
}

type c27W struct {
	c      *vk.Ctx
	base   *Config
	fields []int
	states int64
	trans  int64
	seen   map[string]bool
	outc   map[string]int64
}

func (w *c27W) flush() {
	w.c.Add("states", w.states)
	w.c.Add("transitions", w.trans)
	w.states, w.trans = 0, 0
	for s := range w.seen {
		w.c.Nontrivial(s)
	}
	w.seen = map[string]bool{}
	for s, n := range w.outc {
		for i := int64(0); i < n && i < 1; i++ {
			w.c.Outcome(s)
		}
	}
	w.outc = map[string]int64{}
}

func (w *c27W) field(cfg *Config, idx int) any {
	return reflect.ValueOf(cfg).Elem().Field(idx).Interface()
}

// otherFieldsChanged returns the names of config fields (other than skip) that differ from a freshly
// defaulted Config.
func (w *c27W) otherFieldsChanged(cfg *Config, skip map[int]bool) []string {
	var out []string
	cv := reflect.ValueOf(cfg).Elem()
	bv := reflect.ValueOf(w.base).Elem()
	for _, ii := range w.fields {
		if skip[ii] {
			continue
		}
		if !c27Equal(cv.Field(ii).Interface(), bv.Field(ii).Interface()) {
			out = append(out, cv.Type().Field(ii).Name)
		}
	}
	return out
}

// attribute decides which ignored fatal value is responsible for an unexpected error: it removes first the
// shadowed values (lower priority than the deciding source), then also the datastore values of a local-only
// parameter, and re-runs the real resolver.  "" = the error is not explained by ignored values.
func (w *c27W) attribute(p *c27Param, a c27Asg, exp c27Exp) string {
	if len(exp.IgnoredFatal) == 0 {
		return ""
	}
	ok := func(a2 c27Asg) bool {
		r2 := p.run(a2)
		w.trans++
		return r2.pan == nil && r2.err == nil && r2.cfg.Err == nil && exp.accepts(w.field(r2.cfg, p.Idx))
	}
	a2 := a
	key := ""
	for _, i := range exp.IgnoredFatal {
		if !(p.Local && !c27LocalSrc(i)) {
			if a[i].Class == "inv" {
				key = "C27:shadowed-invalid-fatal-sets-err"
			} else if key == "" {
				key = "C27:shadowed-none-on-nonzero-sets-err"
			}
			a2[i] = c27Cell{}
		}
	}
	if key != "" && ok(a2) {
		return key
	}
	for _, i := range exp.IgnoredFatal {
		a2[i] = c27Cell{}
	}
	if ok(a2) {
		return "C27:datastore-value-for-local-param-sets-err"
	}
	return ""
}

// check evaluates one assignment on the real resolver and compares with the oracle.
func (w *c27W) check(p *c27Param, a c27Asg, phase string) {
	cls := a.classes()
	exp := p.oracle(cls)
	r := p.run(a)
	w.states++
	w.trans++
	nset := 0
	for _, cl := range cls {
		if cl != "" {
			nset++
		}
	}
	if nset >= 2 || len(exp.IgnoredFatal) > 0 || (nset == 1 && exp.Winner < 0) {
		w.seen[p.flagSig()+"|"+strings.Join(cls[:], ",")] = true
	}
	detail := func(msg string) map[string]any {
		d := map[string]any{"phase": phase, "param": p.Name, "param_class": p.sig(), "sources": p.describe(a), "api": "UpdateFromConfigUpdate",
			"expected": exp.Kind, "problem": msg}
		if !exp.Fatal {
			d["expected_value"] = c27Show(exp.Val)
		}
		if r.err != nil {
			d["got_err"] = r.err.Error()
		}
		if r.cfg != nil {
			d["got_value"] = c27Show(w.field(r.cfg, p.Idx))
		}
		return d
	}
	if r.pan != nil {
		w.c.Violation("C27:resolve-panics", detail(r.pan.Error()))
		w.outc["panic"]++
		return
	}
	if exp.Fatal {
		w.outc[p.flagSig()+"|"+exp.Kind]++
		if r.err == nil {
			w.c.Violation("C27:winning-fatal-value-no-error", detail("the deciding value is fatal but no error was returned"))
		} else if r.cfg.Err == nil {
			w.c.Violation("C27:winning-fatal-value-err-field-unset", detail("error returned but Config.Err is nil"))
		}
		return
	}
	if r.err != nil || r.cfg.Err != nil {
		if key := w.attribute(p, a, exp); key != "" {
			w.c.Violation(key, detail("a value that must not affect the result makes the update fail; without it the update succeeds with the expected value"))
			w.outc[p.flagSig()+"|"+exp.Kind+"|err-from-ignored-value"]++
			return
		}
		w.c.Violation("C27:unexpected-error", detail("error although the deciding value is not fatal"))
		w.outc["unexpected-error"]++
		return
	}
	w.outc[fmt.Sprintf("%s|winner=%d|%s", p.flagSig(), exp.Winner, exp.Kind)]++
	got := w.field(r.cfg, p.Idx)
	if !exp.accepts(got) {
		key := "C27:wrong-effective-value"
		for i := 0; i < 6; i++ {
			if i == exp.Winner || cls[i] == "" {
				continue
			}
			var v any
			switch cls[i] {
			case "v1", "v2":
				v = p.Val[cls[i]]
			case "none":
				v = p.Zero
			default:
				continue
			}
			if c27Equal(got, v) {
				if p.Local && !c27LocalSrc(i) {
					key = "C27:datastore-value-applied-to-local-param"
				} else {
					key = "C27:shadowed-source-decides"
				}
				break
			}
		}
		w.c.Violation(key, detail("effective value differs from the oracle"))
		return
	}
	if oth := w.otherFieldsChanged(r.cfg, map[int]bool{p.Idx: true}); len(oth) > 0 {
		w.c.Violation("C27:unrelated-field-changed", detail("other fields changed: "+strings.Join(oth, ",")))
	}
	wantChanged := []string{}
	if !c27Equal(got, p.Def) {
		wantChanged = []string{p.Name}
	}
	if strings.Join(wantChanged, ",") != strings.Join(r.changed, ",") {
		w.c.Violation("C27:changed-fields-wrong", detail(fmt.Sprintf("changed fields %v, want %v", r.changed, wantChanged)))
	}
}

// ---- part A: every parameter, every single source and ordered pair of sources ----

func (w *c27W) partA(p *c27Param) {
	w.check(p, c27Asg{}, "A")
	for rot := 0; rot < 3; rot++ {
		for i := 0; i < 6; i++ {
			for _, ci := range p.Classes {
				var a c27Asg
				a[i] = c27Cell{ci, rot}
				w.check(p, a, "A")
				if rot > 0 && w.c.Quick() {
					continue // quick tier: pairs with one spelling combination only
				}
				for j := i + 1; j < 6; j++ {
					for _, cj := range p.Classes {
						a2 := a
						a2[j] = c27Cell{cj, rot + 1}
						w.check(p, a2, "A")
					}
				}
			}
		}
	}
}

// ---- part B: full product over the six sources ----

func (w *c27W) partB(p *c27Param) {
	opts := append([]string{""}, p.Classes...)
	n := len(opts)
	total := 1
	for i := 0; i < 6; i++ {
		total *= n
	}
	for x := 0; x < total; x++ {
		if x%512 == 0 && w.c.Expired() {
			w.c.Capped("deadline during part B")
			return
		}
		var a c27Asg
		y := x
		for i := 0; i < 6; i++ {
			a[i] = c27Cell{opts[y%n], (x + i) % 3}
			y /= n
		}
		w.check(p, a, "B")
	}
}

// ---- part C: incremental loading through UpdateFrom / OverrideParam in every order ----

func c27Perms(xs []int) [][]int {
	if len(xs) <= 1 {
		return [][]int{append([]int{}, xs...)}
	}
	var out [][]int
	for i := range xs {
		rest := append(append([]int{}, xs[:i]...), xs[i+1:]...)
		for _, p := range c27Perms(rest) {
			out = append(out, append([]int{xs[i]}, p...))
		}
	}
	return out
}

type c27Step struct {
	Src   int
	Class string // "" = UpdateFrom with an empty map
}

type c27Seq struct {
	cfg    *Config
	loaded [6]string
	anyErr bool
	hist   []string
	steps  []c27Step
}

func (q *c27Seq) clone() *c27Seq {
	return &c27Seq{cfg: c27Clone(q.cfg), loaded: q.loaded, anyErr: q.anyErr, hist: append([]string{}, q.hist...), steps: append([]c27Step{}, q.steps...)}
}

// step loads one source into the Config through the public API and checks the outcome against the oracle
// applied to everything loaded so far.
func (w *c27W) step(p *c27Param, q *c27Seq, st c27Step, spell int, phase string) {
	cfg := q.cfg
	n := len(q.steps)
	q.steps = append(q.steps, st)
	prev := p.oracle(q.loaded)
	q.loaded[st.Src] = st.Class
	loaded := q.loaded
	exp := p.oracle(loaded)
	m := map[string]string{}
	k := p.key(spell + st.Src)
	if st.Class != "" {
		m[k] = p.Raw[st.Class]
	}
	q.hist = append(q.hist, fmt.Sprintf("%s:%v", c27SrcNames[st.Src], m))
	var changed bool
	var err error
	pan := vk.Catch(func() error {
		if st.Src == 0 && st.Class != "" && n%2 == 0 {
			// OverrideParam keeps earlier overrides: drop other spellings of this parameter first
			for kk := range cfg.internalOverrides {
				if strings.EqualFold(kk, k) && kk != k {
					delete(cfg.internalOverrides, kk)
				}
			}
			changed, err = cfg.OverrideParam(k, p.Raw[st.Class])
		} else {
			if st.Src == 0 {
				// keep OverrideParam's private map consistent with what we load
				cfg.internalOverrides = map[string]string{}
				for kk, vv := range m {
					cfg.internalOverrides[kk] = vv
				}
			}
			changed, err = cfg.UpdateFrom(m, c27Srcs[st.Src])
		}
		return nil
	})
	w.trans++
	detail := func(msg string) map[string]any {
		d := map[string]any{"phase": phase, "param": p.Name, "param_class": p.sig(), "api": "UpdateFrom/OverrideParam sequence on one Config",
			"history": q.hist, "expected": exp.Kind, "problem": msg}
		if !exp.Fatal {
			d["expected_value"] = c27Show(exp.Val)
		}
		if err != nil {
			d["got_err"] = err.Error()
		}
		d["got_value"] = c27Show(w.field(cfg, p.Idx))
		return d
	}
	if pan != nil {
		w.c.Violation("C27:resolve-panics", detail(pan.Error()))
		q.anyErr = true
		return
	}
	if err != nil && cfg.Err == nil {
		w.c.Violation("C27:winning-fatal-value-err-field-unset", detail("error returned but Config.Err is nil"))
	}
	if err == nil && !q.anyErr && cfg.Err != nil {
		w.c.Violation("C27:err-field-set-without-error", detail("Config.Err set although no call returned an error"))
	}
	if exp.Fatal {
		w.outc[p.flagSig()+"|seq|"+exp.Kind]++
		if err == nil {
			w.c.Violation("C27:winning-fatal-value-no-error", detail("the deciding value is fatal but no error was returned"))
		}
		q.anyErr = q.anyErr || err != nil
		return
	}
	if err != nil {
		q.anyErr = true
		var a2 c27Asg
		for i, cl := range loaded {
			a2[i] = c27Cell{cl, spell + i}
		}
		if key := w.attribute(p, a2, exp); key != "" {
			w.c.Violation(key, detail("a value that must not affect the result makes the update fail; without it the update succeeds with the expected value"))
			w.outc[p.flagSig()+"|seq|"+exp.Kind+"|err-from-ignored-value"]++
			return
		}
		w.c.Violation("C27:unexpected-error", detail("error although the deciding value is not fatal"))
		return
	}
	w.outc[fmt.Sprintf("%s|seq|winner=%d|%s", p.flagSig(), exp.Winner, exp.Kind)]++
	if got := w.field(cfg, p.Idx); !exp.accepts(got) {
		w.c.Violation("C27:wrong-effective-value-after-sequence", detail("effective value differs from the oracle"))
		return
	}
	if oth := w.otherFieldsChanged(cfg, map[int]bool{p.Idx: true}); len(oth) > 0 {
		w.c.Violation("C27:unrelated-field-changed", detail("other fields changed: "+strings.Join(oth, ",")))
	}
	if !q.anyErr && !prev.Fatal && !prev.HasAlt && !exp.HasAlt {
		want := !c27Equal(prev.Val, exp.Val)
		if changed != want {
			w.c.Violation("C27:changed-flag-wrong", detail(fmt.Sprintf("changed=%v want %v", changed, want)))
		}
	}
}

func (w *c27W) runSeq(p *c27Param, steps []c27Step, spell int, phase string) *c27Seq {
	q := &c27Seq{cfg: c27Fresh()}
	w.states++
	for _, st := range steps {
		w.step(p, q, st, spell, phase)
	}
	if len(steps) >= 2 {
		var cl []string
		for _, s := range steps {
			cl = append(cl, fmt.Sprintf("%d%s", s.Src, s.Class))
		}
		w.seen[p.flagSig()+"|seq|"+strings.Join(cl, ",")] = true
	}
	return q
}

func (w *c27W) partC(p *c27Param, srcs []int, classes []string) {
	opts := append([]string{""}, classes...)
	n := len(opts)
	total := 1
	for range srcs {
		total *= n
	}
	for x := 0; x < total; x++ {
		if w.c.Expired() {
			w.c.Capped("deadline during part C")
			return
		}
		var set []int
		cls := map[int]string{}
		y := x
		for _, s := range srcs {
			if o := opts[y%n]; o != "" {
				set = append(set, s)
				cls[s] = o
			}
			y /= n
		}
		for pi, perm := range c27Perms(set) {
			var steps []c27Step
			for _, s := range perm {
				steps = append(steps, c27Step{s, cls[s]})
			}
			q := w.runSeq(p, steps, x, "C")
			if pi == 0 {
				// one more step: replace / clear the value of each source
				for _, s := range srcs {
					for _, o := range opts {
						w.states++
						w.step(p, q.clone(), c27Step{s, o}, x, "C-replace")
					}
				}
			}
		}
	}
}

// ---- part D: every order of reading the keys of one source map ----

type c27DRes struct {
	Err   bool
	Val   string
	Other string
}

func (w *c27W) runOrders(maps map[int]map[string]string, idxs map[int]bool, valOf func(cfg *Config) string, hook bool) (map[c27DRes][]string, bool) {
	// all combinations of per-source key orders
	type so struct {
		src   int
		perms [][]string
	}
	var sos []so
	for i, m := range maps {
		var ks []string
		for k := range m {
			ks = append(ks, k)
		}
		sort.Strings(ks)
		if len(ks) < 2 {
			continue
		}
		ix := make([]int, len(ks))
		for j := range ix {
			ix[j] = j
		}
		var perms [][]string
		for _, pm := range c27Perms(ix) {
			var o []string
			for _, j := range pm {
				o = append(o, ks[j])
			}
			perms = append(perms, o)
		}
		sos = append(sos, so{i, perms})
	}
	sort.Slice(sos, func(a, b int) bool { return sos[a].src < sos[b].src })
	results := map[c27DRes][]string{}
	panicked := false
	eval := func(order map[Source][]string, label string) {
		r := c27RunMaps(maps, order)
		w.trans++
		if r.pan != nil {
			panicked = true
			w.c.Violation("C27:resolve-panics", map[string]any{"phase": "D", "sources": c27MapsShow(maps), "order": label, "problem": r.pan.Error()})
			return
		}
		res := c27DRes{Err: r.err != nil || r.cfg.Err != nil}
		if !res.Err {
			res.Val = valOf(r.cfg)
			res.Other = strings.Join(w.otherFieldsChanged(r.cfg, idxs), ",")
		}
		results[res] = append(results[res], label)
	}
	if !hook {
		for i := 0; i < 32; i++ {
			eval(nil, "natural map order")
		}
		return results, panicked
	}
	var rec func(k int, order map[Source][]string, label []string)
	rec = func(k int, order map[Source][]string, label []string) {
		if k == len(sos) {
			o := map[Source][]string{}
			for s, v := range order {
				o[s] = v
			}
			eval(o, strings.Join(label, "; "))
			return
		}
		for _, pm := range sos[k].perms {
			order[c27Srcs[sos[k].src]] = pm
			rec(k+1, order, append(label, c27SrcNames[sos[k].src]+" read as "+strings.Join(pm, ",")))
		}
	}
	rec(0, map[Source][]string{}, nil)
	return results, panicked
}

func c27MapsShow(maps map[int]map[string]string) map[string]map[string]string {
	out := map[string]map[string]string{}
	for i, m := range maps {
		out[c27SrcNames[i]] = m
	}
	return out
}

func (w *c27W) partD(p *c27Param, q *c27Param, hook bool) {
	spellSets := [][]int{{0, 1}, {0, 2}, {1, 2}, {0, 1, 2}}
	valOf := func(cfg *Config) string { return c27Show(w.field(cfg, p.Idx)) }
	for s := 0; s < 6; s++ {
		for _, sp := range spellSets {
			// every assignment of classes to the spellings
			n := len(p.Classes)
			total := 1
			for range sp {
				total *= n
			}
			for x := 0; x < total; x++ {
				if w.c.Expired() {
					w.c.Capped("deadline during part D")
					return
				}
				dup := map[string]string{}
				var dupCls []string
				y := x
				for _, spell := range sp {
					cl := p.Classes[y%n]
					y /= n
					dup[p.key(spell)] = p.Raw[cl]
					dupCls = append(dupCls, cl)
				}
				// optionally one other source that sets the parameter once
				for o := -1; o < 6; o++ {
					if o == s {
						continue
					}
					if w.c.Quick() && o >= 0 && (len(sp) == 3 || (o != s-1 && o != s+1)) {
						continue // quick tier: only the neighbouring sources, and none for triples
					}
					ocls := p.Classes
					if o < 0 {
						ocls = []string{""}
					}
					for _, oc := range ocls {
						maps := map[int]map[string]string{s: dup}
						if o >= 0 {
							maps[o] = map[string]string{p.Name: p.Raw[oc]}
						}
						w.states++
						results, panicked := w.runOrders(maps, map[int]bool{p.Idx: true}, valOf, hook)
						if panicked {
							continue
						}
						w.seen[fmt.Sprintf("%s|dup|%d|%v|%d|%s", p.flagSig(), s, dupCls, o, oc)] = true
						det := func(msg string) map[string]any {
							rs := map[string][]string{}
							for r, l := range results {
								rs[fmt.Sprintf("err=%v value=%s otherChanged=%q", r.Err, r.Val, r.Other)] = l
							}
							return map[string]any{"phase": "D", "param": p.Name, "param_class": p.sig(), "sources": c27MapsShow(maps), "results_by_key_order": rs, "problem": msg}
						}
						if len(results) > 1 {
							w.c.Violation("C27:case-variant-duplicate-order-dependent", det("the result depends on the order in which the keys of one source are read"))
							w.outc[p.flagSig()+"|dup|order-dependent"]++
							continue
						}
						w.outc[p.flagSig()+"|dup|order-independent"]++
						// where a single-key source of higher priority decides, the statement fixes the result
						if o >= 0 && o < s && !(p.Local && !c27LocalSrc(o)) {
							var cls [6]string
							cls[o] = oc
							exp := p.oracle(cls)
							for r := range results {
								dupFatal := false
								for _, cl := range dupCls {
									dupFatal = dupFatal || p.fatalClass(cl)
								}
								switch {
								case exp.Fatal && !r.Err:
									w.c.Violation("C27:winning-fatal-value-no-error", det("deciding value is fatal but no error"))
								case !exp.Fatal && r.Err && dupFatal:
									key := "C27:shadowed-none-on-nonzero-sets-err"
									for _, cl := range dupCls {
										if cl == "inv" && p.Die {
											key = "C27:shadowed-invalid-fatal-sets-err"
										}
									}
									w.c.Violation(key, det("a shadowed value makes the update fail"))
								case !exp.Fatal && r.Err:
									w.c.Violation("C27:unexpected-error", det("error although the deciding value is not fatal"))
								case !exp.Fatal && r.Val != c27Show(exp.Val) && !(exp.HasAlt && r.Val == c27Show(exp.Alt)):
									w.c.Violation("C27:shadowed-source-decides", det("a higher-priority source sets the parameter, yet the value is "+r.Val+" instead of "+c27Show(exp.Val)))
								}
							}
						}
					}
				}
			}
		}
	}
	// two different parameters in one source map: every read order must give the same result
	if q == nil || q == p {
		return
	}
	valPQ := func(cfg *Config) string { return c27Show(w.field(cfg, p.Idx)) + " / " + c27Show(w.field(cfg, q.Idx)) }
	for s := 0; s < 6; s++ {
		for _, cp := range p.Classes {
			for _, cq := range q.Classes {
				for sp := 0; sp < 3; sp++ {
					maps := map[int]map[string]string{s: {p.key(sp): p.Raw[cp], q.key(sp + 1): q.Raw[cq]}}
					w.states++
					results, panicked := w.runOrders(maps, map[int]bool{p.Idx: true, q.Idx: true}, valPQ, hook)
					if panicked {
						continue
					}
					w.seen[fmt.Sprintf("%s|%s|two|%d|%s|%s", p.flagSig(), q.flagSig(), s, cp, cq)] = true
					if len(results) > 1 {
						rs := map[string][]string{}
						for r, l := range results {
							rs[fmt.Sprintf("err=%v value=%s otherChanged=%q", r.Err, r.Val, r.Other)] = l
						}
						w.c.Violation("C27:two-params-order-dependent", map[string]any{"phase": "D2", "sources": c27MapsShow(maps), "results_by_key_order": rs})
						continue
					}
					// and equals the oracle for each parameter separately
					var clp, clq [6]string
					clp[s], clq[s] = cp, cq
					ep, eq := p.oracle(clp), q.oracle(clq)
					for r := range results {
						wantErr := ep.Fatal || eq.Fatal
						if wantErr != r.Err {
							w.c.Violation("C27:two-params-error-mismatch", map[string]any{"phase": "D2", "sources": c27MapsShow(maps), "want_err": wantErr, "got_err": r.Err})
						} else if !wantErr && r.Val != c27Show(ep.Val)+" / "+c27Show(eq.Val) && !ep.HasAlt && !eq.HasAlt {
							w.c.Violation("C27:two-params-wrong-value", map[string]any{"phase": "D2", "sources": c27MapsShow(maps), "want": c27Show(ep.Val) + " / " + c27Show(eq.Val), "got": r.Val})
						}
						w.outc[fmt.Sprintf("two|%v|%v", ep.Kind, eq.Kind)]++
					}
				}
			}
		}
	}
}

func TestVerif_C27(t *testing.T) {
	vk.Run(t, "C27", func(c *vk.Ctx) {
		logrus.SetLevel(logrus.PanicLevel)
		logrus.StandardLogger().ExitFunc = func(int) { panic("logrus.Fatal") }
		c27Pristine = New() // also loads knownParams once, before any goroutine starts
		params, skipped := c27BuildParams(c)
		fields := c27Fields()

		// is the key-order hook compiled in?
		before := verifHookCalls.Load()
		_, _ = New().UpdateFrom(map[string]string{"zzverif": "x"}, ConfigFile)
		hook := verifHookCalls.Load() > before
		if !hook {
			c.NotExhaustive("key-read-order hook not applicable to this tree (resolve loop header changed): duplicate-key cases are re-executed 32x under Go's random map order instead of enumerating the orders")
		}
		c.Extra("key_order_hook_active", hook)

		// representatives: first parameter (in struct order) of every (type, local, die, non-zero, has-invalid) class
		bySig := map[string]*c27Param{}
		byFlag := map[string]*c27Param{}
		var reps, flagReps []*c27Param
		for _, p := range params {
			if bySig[p.sig()] == nil {
				bySig[p.sig()] = p
				reps = append(reps, p)
			}
			if len(p.Classes) == 4 && byFlag[p.flagSig()] == nil {
				byFlag[p.flagSig()] = p
				flagReps = append(flagReps, p)
			}
		}
		for _, p := range params { // flag classes for which no parameter has all four value classes
			if byFlag[p.flagSig()] == nil {
				byFlag[p.flagSig()] = p
				flagReps = append(flagReps, p)
			}
		}
		var repNames, flagRepNames []string
		for _, p := range reps {
			repNames = append(repNames, p.Name+"["+p.sig()+"]")
		}
		for _, p := range flagReps {
			flagRepNames = append(flagRepNames, p.Name+"["+p.sig()+"]")
		}
		fmt.Printf("INFO C27 params usable=%d skipped=%d typeClasses=%d flagClasses=%d hook=%v\n", len(params), len(skipped), len(reps), len(flagReps), hook)
		c.Extra("params_usable", len(params))
		c.Extra("params_skipped", skipped)
		c.Extra("representatives_full_product", repNames)
		c.Extra("representatives_sequences_and_key_orders", flagRepNames)
		c.Rule("Per parameter P (every config-tagged field of felix/config.Config for which the candidate pool yields a valid value different from the default): value classes {absent, valid1, valid2, invalid (if P's parser rejects anything), none}. " +
			"A: every single source and every ordered pair of the 6 sources x all class pairs x 3 key spellings (canonical/lower/UPPER), for EVERY parameter. " +
			"B: the full product classes^6 over the six sources for one representative parameter per (parser type, local, die-on-fail, non-zero, has-invalid) class. " +
			"C: for one representative per flag class: every assignment over a source subset (quick: internal, env, per-host, global x {valid, invalid, none}; thorough: all but per-selector x {valid, invalid-or-valid2, none}), loaded incrementally with UpdateFrom/OverrideParam in EVERY order of the set sources, each step checked, plus one replace/clear step per source. " +
			"D: for the same representatives: two or three case variants of P's key inside one source map with every class assignment, optionally one other source setting P, under EVERY key read order (hook in resolve's loop); and two different parameters in one map under both orders. " +
			"Non-trivial = at least two sources set P, or an ignored fatal value exists, or a datastore source sets a local-only P, or duplicate keys.")
		c.Assume("Param.Parse(raw) of the real code is trusted to give 'the parsed value' of a valid raw string and to decide validity; defaults are read from a fresh config.New(); zero values are the Go zero values of the field types.")
		c.Assume("After an UpdateFrom that legitimately returned an error, field values and the stickiness of Config.Err are not constrained (statement silent).")

		work := make(chan func(w *c27W), 4096)
		var wg sync.WaitGroup
		nw := 6
		for i := 0; i < nw; i++ {
			wg.Add(1)
			go func() {
				defer wg.Done()
				w := &c27W{c: c, base: New(), fields: fields, seen: map[string]bool{}, outc: map[string]int64{}}
				for f := range work {
					if c.Expired() {
						c.Capped("deadline")
						continue
					}
					f(w)
					w.flush()
				}
			}()
		}
		for _, p := range params {
			work <- func(w *c27W) { w.partA(p) }
		}
		bReps := reps
		if c.Quick() {
			bReps = flagReps
		}
		for _, p := range bReps {
			work <- func(w *c27W) { w.partB(p) }
		}
		for i, p := range flagReps {
			q := flagReps[(i+1)%len(flagReps)]
			work <- func(w *c27W) { w.partD(p, q, hook) }
			if c.Quick() {
				cl := p.Classes
				if len(cl) == 4 {
					cl = cl[1:] // valid, invalid, none
				}
				work <- func(w *c27W) { w.partC(p, []int{0, 1, 3, 5}, cl) }
			} else {
				work <- func(w *c27W) { w.partC(p, []int{0, 1, 2, 3, 5}, []string{"v1", p.Classes[len(p.Classes)-2], "none"}) }
			}
		}
		close(work)
		wg.Wait()

		// written-out samples
		if len(flagReps) > 0 {
			p := flagReps[0]
			var a c27Asg
			a[1] = c27Cell{"v1", 0}
			a[5] = c27Cell{p.Classes[len(p.Classes)-2], 1}
			exp := p.oracle(a.classes())
			r := p.run(a)
			c.Sample(map[string]any{"param": p.Name, "class": p.sig(), "sources": p.describe(a), "oracle": exp.Kind, "oracle_value": c27Show(exp.Val),
				"real_err": fmt.Sprint(r.err), "real_value": c27Show(reflect.ValueOf(r.cfg).Elem().Field(p.Idx).Interface())})
		}
		for _, p := range params {
			if !p.Die && p.Raw["inv"] != "" {
				var a c27Asg
				a[2] = c27Cell{"inv", 2}
				a[3] = c27Cell{"v1", 0}
				exp := p.oracle(a.classes())
				r := p.run(a)
				c.Sample(map[string]any{"param": p.Name, "class": p.sig(), "sources": p.describe(a), "oracle": exp.Kind, "oracle_value": c27Show(exp.Val),
					"real_err": fmt.Sprint(r.err), "real_value": c27Show(reflect.ValueOf(r.cfg).Elem().Field(p.Idx).Interface())})
				break
			}
		}
	})
}

package policysync

// C31 — per-workload policy-sync streams are complete, minimal and ordered.
// Shape H: BFS over histories of atomic Processor handler calls.

import (
	"fmt"
	"sort"
	"strings"
	"testing"

	"github.com/sirupsen/logrus"
	googleproto "google.golang.org/protobuf/proto"

	"github.com/projectcalico/calico/felix/proto"
	"github.com/projectcalico/calico/felix/types"
	"github.com/projectcalico/calico/zzverif/hbfs"
	"github.com/projectcalico/calico/zzverif/vk"
)

// ---- universe ----

var c31SetMembers = [][]string{{"10.0.0.1"}, {"10.0.0.1", "10.0.0.2"}}

// policy variants: referenced IP sets
var c31PolRefs = map[string][][]string{
	"P1": {{}, {"S1"}, {"S2"}},
	"P2": {{"S1"}},
	// N1 is a NetworkPolicy ns1/P1: same NAME as the global policy P1, different kind and namespace
	"N1": {{"S2"}},
}

// c31PID maps a harness policy id to its wire id; c31HID maps back.
func c31PID(id string) *proto.PolicyID {
	if id == "N1" {
		return &proto.PolicyID{Name: "P1", Namespace: "ns1", Kind: "NetworkPolicy"}
	}
	return &proto.PolicyID{Name: id, Kind: "GlobalNetworkPolicy"}
}

func c31HID(p *proto.PolicyID) string {
	if p.GetKind() == "NetworkPolicy" {
		return "N1"
	}
	return p.GetName()
}
var c31ProfRefs = map[string][][]string{
	"PR1": {{}, {"S2"}},
}

type c31EpVar struct {
	in, eg []string
	profs  []string
}

var c31EpVars = map[string][]c31EpVar{
	"W1": {
		{},
		{in: []string{"P1"}},
		{in: []string{"P1"}, eg: []string{"P2"}},
		{in: []string{"P2"}, profs: []string{"PR1"}},
		{profs: []string{"PR1"}},
		{in: []string{"P1"}, eg: []string{"P1"}, profs: []string{"PR1"}},
		{in: []string{"P1"}, eg: []string{"N1"}},
	},
	"W2": {
		{in: []string{"P1"}, profs: []string{"PR1"}},
	},
}

func c31Policy(name string, v int) *proto.Policy {
	p := &proto.Policy{Tier: "default"}
	refs := c31PolRefs[name][v]
	r := &proto.Rule{Action: fmt.Sprintf("allow-%s-%d", name, v)}
	for i, s := range refs {
		if i%2 == 0 {
			r.SrcIpSetIds = append(r.SrcIpSetIds, s)
		} else {
			r.NotDstIpSetIds = append(r.NotDstIpSetIds, s)
		}
	}
	if name == "P2" || name == "N1" {
		p.OutboundRules = []*proto.Rule{r}
	} else {
		p.InboundRules = []*proto.Rule{r}
	}
	return p
}

func c31Profile(name string, v int) *proto.Profile {
	r := &proto.Rule{Action: fmt.Sprintf("allow-%s-%d", name, v), DstNamedPortIpSetIds: c31ProfRefs[name][v]}
	return &proto.Profile{OutboundRules: []*proto.Rule{r}}
}

func c31WepID(w string) *proto.WorkloadEndpointID {
	return &proto.WorkloadEndpointID{OrchestratorId: "k8s", WorkloadId: w, EndpointId: "eth0"}
}

func c31Endpoint(w string, v int) *proto.WorkloadEndpointUpdate {
	ev := c31EpVars[w][v]
	ep := &proto.WorkloadEndpoint{State: "active", Name: "cali" + w, ProfileIds: ev.profs, Mac: fmt.Sprintf("v%d", v)}
	if len(ev.in)+len(ev.eg) > 0 {
		t := &proto.TierInfo{Name: "default"}
		for _, p := range ev.in {
			t.IngressPolicies = append(t.IngressPolicies, c31PID(p))
		}
		for _, p := range ev.eg {
			t.EgressPolicies = append(t.EgressPolicies, c31PID(p))
		}
		ep.Tiers = []*proto.TierInfo{t}
	}
	return &proto.WorkloadEndpointUpdate{Id: c31WepID(w), Endpoint: ep}
}

// ---- client-side shadow store ----

type c31Client struct {
	ch     chan *proto.ToDataplane
	closed bool
	ep     *proto.WorkloadEndpoint
	gotRm  bool
	pols   map[string]*proto.Policy
	profs  map[string]*proto.Profile
	sets   map[string]map[string]bool
	sa     map[string]string
	ns     map[string]string
	insync bool
	nmsg   int
}

func newC31Client() *c31Client {
	return &c31Client{ch: make(chan *proto.ToDataplane, 512), pols: map[string]*proto.Policy{}, profs: map[string]*proto.Profile{},
		sets: map[string]map[string]bool{}, sa: map[string]string{}, ns: map[string]string{}}
}

func c31RuleRefs(rules []*proto.Rule, out map[string]bool) {
	for _, r := range rules {
		for _, l := range [][]string{r.SrcIpSetIds, r.DstIpSetIds, r.DstIpPortSetIds, r.SrcNamedPortIpSetIds, r.DstNamedPortIpSetIds,
			r.NotSrcIpSetIds, r.NotDstIpSetIds, r.NotSrcNamedPortIpSetIds, r.NotDstNamedPortIpSetIds} {
			for _, s := range l {
				out[s] = true
			}
		}
	}
}

func (cl *c31Client) referencedSets() map[string]bool {
	out := map[string]bool{}
	for _, p := range cl.pols {
		c31RuleRefs(p.InboundRules, out)
		c31RuleRefs(p.OutboundRules, out)
	}
	for _, p := range cl.profs {
		c31RuleRefs(p.InboundRules, out)
		c31RuleRefs(p.OutboundRules, out)
	}
	return out
}

func (cl *c31Client) epPolicies() map[string]bool {
	out := map[string]bool{}
	for _, t := range cl.ep.GetTiers() {
		for _, p := range t.IngressPolicies {
			out[c31HID(p)] = true
		}
		for _, p := range t.EgressPolicies {
			out[c31HID(p)] = true
		}
	}
	return out
}

// apply one message; returns per-message violations ("class: text")
func (cl *c31Client) apply(m *proto.ToDataplane) []string {
	var bad []string
	f := func(class, format string, a ...any) { bad = append(bad, class+": "+fmt.Sprintf(format, a...)) }
	cl.nmsg++
	if cl.gotRm {
		f("message-after-endpoint-remove", "%v", m)
	}
	switch pl := m.Payload.(type) {
	case *proto.ToDataplane_InSync:
		cl.insync = true
	case *proto.ToDataplane_IpsetUpdate:
		s := map[string]bool{}
		for _, mem := range pl.IpsetUpdate.Members {
			s[mem] = true
		}
		cl.sets[pl.IpsetUpdate.Id] = s
	case *proto.ToDataplane_IpsetDeltaUpdate:
		s, ok := cl.sets[pl.IpsetDeltaUpdate.Id]
		if !ok {
			f("delta-for-unknown-ipset", "IPSetDeltaUpdate for %s which this client was never sent", pl.IpsetDeltaUpdate.Id)
			s = map[string]bool{}
			cl.sets[pl.IpsetDeltaUpdate.Id] = s
		}
		for _, mem := range pl.IpsetDeltaUpdate.AddedMembers {
			s[mem] = true
		}
		for _, mem := range pl.IpsetDeltaUpdate.RemovedMembers {
			delete(s, mem)
		}
	case *proto.ToDataplane_IpsetRemove:
		id := pl.IpsetRemove.Id
		if _, ok := cl.sets[id]; !ok {
			f("remove-of-unknown-ipset", "IPSetRemove %s never sent to this client", id)
		}
		if cl.referencedSets()[id] {
			f("ipset-removed-while-referenced", "IPSetRemove %s while a policy/profile held by the client references it", id)
		}
		delete(cl.sets, id)
	case *proto.ToDataplane_ActivePolicyUpdate:
		refs := map[string]bool{}
		c31RuleRefs(pl.ActivePolicyUpdate.Policy.InboundRules, refs)
		c31RuleRefs(pl.ActivePolicyUpdate.Policy.OutboundRules, refs)
		for s := range refs {
			if _, ok := cl.sets[s]; !ok {
				f("policy-references-unsent-ipset", "ActivePolicyUpdate %s references IP set %s not yet sent", c31HID(pl.ActivePolicyUpdate.Id), s)
			}
		}
		cl.pols[c31HID(pl.ActivePolicyUpdate.Id)] = pl.ActivePolicyUpdate.Policy
	case *proto.ToDataplane_ActivePolicyRemove:
		id := c31HID(pl.ActivePolicyRemove.Id)
		if _, ok := cl.pols[id]; !ok {
			f("remove-of-unknown-policy", "ActivePolicyRemove %s never sent", id)
		}
		if cl.epPolicies()[id] {
			f("policy-removed-while-referenced", "ActivePolicyRemove %s while the client's endpoint lists it", id)
		}
		delete(cl.pols, id)
	case *proto.ToDataplane_ActiveProfileUpdate:
		refs := map[string]bool{}
		c31RuleRefs(pl.ActiveProfileUpdate.Profile.InboundRules, refs)
		c31RuleRefs(pl.ActiveProfileUpdate.Profile.OutboundRules, refs)
		for s := range refs {
			if _, ok := cl.sets[s]; !ok {
				f("profile-references-unsent-ipset", "ActiveProfileUpdate %s references IP set %s not yet sent", pl.ActiveProfileUpdate.Id.Name, s)
			}
		}
		cl.profs[pl.ActiveProfileUpdate.Id.Name] = pl.ActiveProfileUpdate.Profile
	case *proto.ToDataplane_ActiveProfileRemove:
		id := pl.ActiveProfileRemove.Id.Name
		if _, ok := cl.profs[id]; !ok {
			f("remove-of-unknown-profile", "ActiveProfileRemove %s never sent", id)
		}
		for _, pid := range cl.ep.GetProfileIds() {
			if pid == id {
				f("profile-removed-while-referenced", "ActiveProfileRemove %s while the client's endpoint lists it", id)
			}
		}
		delete(cl.profs, id)
	case *proto.ToDataplane_WorkloadEndpointUpdate:
		ep := pl.WorkloadEndpointUpdate.Endpoint
		cl.ep = ep
		for p := range cl.epPolicies() {
			if _, ok := cl.pols[p]; !ok {
				f("endpoint-references-unsent-policy", "WorkloadEndpointUpdate lists policy %s not yet sent", p)
			}
		}
		for _, p := range ep.ProfileIds {
			if _, ok := cl.profs[p]; !ok {
				f("endpoint-references-unsent-profile", "WorkloadEndpointUpdate lists profile %s not yet sent", p)
			}
		}
	case *proto.ToDataplane_WorkloadEndpointRemove:
		cl.gotRm = true
		cl.ep = nil
	case *proto.ToDataplane_ServiceAccountUpdate:
		cl.sa[pl.ServiceAccountUpdate.Id.Name] = fmt.Sprint(pl.ServiceAccountUpdate.Labels)
	case *proto.ToDataplane_ServiceAccountRemove:
		delete(cl.sa, pl.ServiceAccountRemove.Id.Name)
	case *proto.ToDataplane_NamespaceUpdate:
		cl.ns[pl.NamespaceUpdate.Id.Name] = fmt.Sprint(pl.NamespaceUpdate.Labels)
	case *proto.ToDataplane_NamespaceRemove:
		delete(cl.ns, pl.NamespaceRemove.Id.Name)
	default:
		f("unexpected-message-type", "%T", m.Payload)
	}
	return bad
}

func (cl *c31Client) drain() []string {
	var bad []string
	for {
		select {
		case m, ok := <-cl.ch:
			if !ok {
				cl.closed = true
				return bad
			}
			bad = append(bad, cl.apply(m)...)
		default:
			return bad
		}
	}
}

func (cl *c31Client) key() string {
	var sb strings.Builder
	fmt.Fprintf(&sb, "closed=%v rm=%v insync=%v ep=%s|", cl.closed, cl.gotRm, cl.insync, cl.ep.GetMac())
	sb.WriteString(c31Keys(cl.pols, func(p *proto.Policy) string { return c31Act(p.InboundRules, p.OutboundRules) }))
	sb.WriteString(c31Keys(cl.profs, func(p *proto.Profile) string { return c31Act(p.InboundRules, p.OutboundRules) }))
	sb.WriteString(c31Keys(cl.sets, func(m map[string]bool) string { return c31SortedSet(m) }))
	sb.WriteString(c31Keys(cl.sa, func(s string) string { return s }))
	sb.WriteString(c31Keys(cl.ns, func(s string) string { return s }))
	return sb.String()
}

func c31Act(a, b []*proto.Rule) string {
	s := ""
	for _, r := range append(append([]*proto.Rule{}, a...), b...) {
		s += r.Action
	}
	return s
}

func c31SortedSet(m map[string]bool) string {
	var ks []string
	for k := range m {
		ks = append(ks, k)
	}
	sort.Strings(ks)
	return strings.Join(ks, ",")
}

func c31Keys[V any](m map[string]V, f func(V) string) string {
	var ks []string
	for k := range m {
		ks = append(ks, k)
	}
	sort.Strings(ks)
	s := "{"
	for _, k := range ks {
		s += k + "=" + f(m[k]) + ";"
	}
	return s + "}"
}

// ---- world (what the calc graph has told the processor) + state ----

type c31State struct {
	p      *Processor
	sets   map[string]map[string]bool
	pols   map[string]int
	profs  map[string]int
	eps    map[string]int
	sa     map[string]string
	ns     map[string]string
	insync bool

	nextUID uint64
	cur     map[string]*c31Client // current joined client per workload
	curUID  map[string]uint64
	stale   map[string]uint64 // an older, no longer current uid
	old     []*c31Client      // superseded / left clients: must be closed and silent
	bad     []string
}

func c31New() *c31State {
	return &c31State{p: NewProcessor(make(chan any)), sets: map[string]map[string]bool{}, pols: map[string]int{}, profs: map[string]int{},
		eps: map[string]int{}, sa: map[string]string{}, ns: map[string]string{}, nextUID: 1,
		cur: map[string]*c31Client{}, curUID: map[string]uint64{}, stale: map[string]uint64{}}
}

func (s *c31State) setReferenced(id string) bool {
	for p, v := range s.pols {
		for _, r := range c31PolRefs[p][v] {
			if r == id {
				return true
			}
		}
	}
	for p, v := range s.profs {
		for _, r := range c31ProfRefs[p][v] {
			if r == id {
				return true
			}
		}
	}
	return false
}

func (s *c31State) polReferenced(id string) bool {
	for w, v := range s.eps {
		ev := c31EpVars[w][v]
		for _, p := range append(append([]string{}, ev.in...), ev.eg...) {
			if p == id {
				return true
			}
		}
	}
	return false
}

func (s *c31State) profReferenced(id string) bool {
	for w, v := range s.eps {
		for _, p := range c31EpVars[w][v].profs {
			if p == id {
				return true
			}
		}
	}
	return false
}

func c31Enabled(s *c31State, depth int) []string {
	var evs []string
	for _, id := range []string{"S1", "S2"} {
		cur, ok := s.sets[id]
		if !ok {
			evs = append(evs, "set:"+id+":create:0", "set:"+id+":create:1")
			continue
		}
		for i, m := range c31SetMembers {
			if c31SortedSet(cur) != strings.Join(m, ",") {
				evs = append(evs, fmt.Sprintf("set:%s:update:%d", id, i))
			}
		}
		if cur["10.0.0.2"] {
			evs = append(evs, "set:"+id+":delta:-10.0.0.2")
		} else {
			evs = append(evs, "set:"+id+":delta:+10.0.0.2")
		}
		// balanced delta (one member replaced by another: size unchanged), as when a pod IP changes
		if cur["10.0.0.1"] && !cur["10.0.0.3"] {
			evs = append(evs, "set:"+id+":swap:10.0.0.1>10.0.0.3")
		}
		if cur["10.0.0.3"] && !cur["10.0.0.1"] {
			evs = append(evs, "set:"+id+":swap:10.0.0.3>10.0.0.1")
		}
		if !s.setReferenced(id) {
			evs = append(evs, "set:"+id+":remove")
		}
	}
	for _, id := range []string{"P1", "P2", "N1"} {
		cur, ok := s.pols[id]
		for v, refs := range c31PolRefs[id] {
			if ok && cur == v && len(c31PolRefs[id]) > 1 {
				continue // P2 has a single variant: allow its re-send as a duplicate update
			}
			all := true
			for _, r := range refs {
				if _, ex := s.sets[r]; !ex {
					all = false
				}
			}
			if all {
				evs = append(evs, fmt.Sprintf("pol:%s:%d", id, v))
			}
		}
		if ok && !s.polReferenced(id) {
			evs = append(evs, "pol:"+id+":remove")
		}
	}
	{
		id := "PR1"
		cur, ok := s.profs[id]
		for v, refs := range c31ProfRefs[id] {
			if ok && cur == v {
				continue
			}
			all := true
			for _, r := range refs {
				if _, ex := s.sets[r]; !ex {
					all = false
				}
			}
			if all {
				evs = append(evs, fmt.Sprintf("prof:%s:%d", id, v))
			}
		}
		if ok && !s.profReferenced(id) {
			evs = append(evs, "prof:"+id+":remove")
		}
	}
	for _, w := range []string{"W1", "W2"} {
		cur, ok := s.eps[w]
		for v, ev := range c31EpVars[w] {
			if ok && cur == v && len(c31EpVars[w]) > 1 {
				continue
			}
			all := true
			for _, p := range append(append([]string{}, ev.in...), ev.eg...) {
				if _, ex := s.pols[p]; !ex {
					all = false
				}
			}
			for _, p := range ev.profs {
				if _, ex := s.profs[p]; !ex {
					all = false
				}
			}
			if all {
				evs = append(evs, fmt.Sprintf("ep:%s:%d", w, v))
			}
		}
		if ok {
			evs = append(evs, "ep:"+w+":remove")
		}
		evs = append(evs, "join:"+w)
		if s.cur[w] != nil {
			evs = append(evs, "leave:"+w)
		}
		if s.stale[w] != 0 {
			evs = append(evs, "leave-stale:"+w)
		}
	}
	if s.sa["sa1"] != "v1" {
		evs = append(evs, "sa:v1")
	}
	if s.sa["sa1"] != "v2" {
		evs = append(evs, "sa:v2")
	}
	if _, ok := s.sa["sa1"]; ok {
		evs = append(evs, "sa:remove")
	}
	if _, ok := s.ns["ns1"]; ok {
		evs = append(evs, "ns:remove")
	} else {
		evs = append(evs, "ns:v1")
	}
	if !s.insync {
		evs = append(evs, "insync")
	}
	return evs
}

func c31Apply(s *c31State, e string) {
	f := strings.Split(e, ":")
	p := s.p
	switch f[0] {
	case "set":
		id := f[1]
		switch f[2] {
		case "create", "update":
			var v int
			fmt.Sscan(f[3], &v)
			m := map[string]bool{}
			for _, x := range c31SetMembers[v] {
				m[x] = true
			}
			s.sets[id] = m
			p.handleDataplane(&proto.IPSetUpdate{Id: id, Type: proto.IPSetUpdate_IP, Members: append([]string{}, c31SetMembers[v]...)})
		case "delta":
			mem := f[3][1:]
			if f[3][0] == '+' {
				s.sets[id][mem] = true
				p.handleDataplane(&proto.IPSetDeltaUpdate{Id: id, AddedMembers: []string{mem}})
			} else {
				delete(s.sets[id], mem)
				p.handleDataplane(&proto.IPSetDeltaUpdate{Id: id, RemovedMembers: []string{mem}})
			}
		case "swap":
			ab := strings.Split(f[3], ">")
			delete(s.sets[id], ab[0])
			s.sets[id][ab[1]] = true
			p.handleDataplane(&proto.IPSetDeltaUpdate{Id: id, AddedMembers: []string{ab[1]}, RemovedMembers: []string{ab[0]}})
		case "remove":
			delete(s.sets, id)
			p.handleDataplane(&proto.IPSetRemove{Id: id})
		}
	case "pol":
		id := f[1]
		pid := c31PID(id)
		if f[2] == "remove" {
			delete(s.pols, id)
			p.handleDataplane(&proto.ActivePolicyRemove{Id: pid})
		} else {
			var v int
			fmt.Sscan(f[2], &v)
			s.pols[id] = v
			p.handleDataplane(&proto.ActivePolicyUpdate{Id: pid, Policy: c31Policy(id, v)})
		}
	case "prof":
		id := f[1]
		if f[2] == "remove" {
			delete(s.profs, id)
			p.handleDataplane(&proto.ActiveProfileRemove{Id: &proto.ProfileID{Name: id}})
		} else {
			var v int
			fmt.Sscan(f[2], &v)
			s.profs[id] = v
			p.handleDataplane(&proto.ActiveProfileUpdate{Id: &proto.ProfileID{Name: id}, Profile: c31Profile(id, v)})
		}
	case "ep":
		w := f[1]
		if f[2] == "remove" {
			delete(s.eps, w)
			p.handleDataplane(&proto.WorkloadEndpointRemove{Id: c31WepID(w)})
			if cl := s.cur[w]; cl != nil {
				// the processor sends the remove and closes the channel: the join is over
				s.bad = append(s.bad, cl.drain()...)
				if !cl.gotRm {
					s.bad = append(s.bad, "endpoint-remove-not-delivered: joined client did not receive WorkloadEndpointRemove")
				}
				s.old = append(s.old, cl)
				delete(s.cur, w)
				s.stale[w] = s.curUID[w]
				delete(s.curUID, w)
			}
		} else {
			var v int
			fmt.Sscan(f[2], &v)
			s.eps[w] = v
			p.handleDataplane(c31Endpoint(w, v))
		}
	case "sa":
		id := &proto.ServiceAccountID{Namespace: "default", Name: "sa1"}
		if f[1] == "remove" {
			delete(s.sa, "sa1")
			p.handleDataplane(&proto.ServiceAccountRemove{Id: id})
		} else {
			s.sa["sa1"] = f[1]
			p.handleDataplane(&proto.ServiceAccountUpdate{Id: id, Labels: map[string]string{"v": f[1]}})
		}
	case "ns":
		id := &proto.NamespaceID{Name: "ns1"}
		if f[1] == "remove" {
			delete(s.ns, "ns1")
			p.handleDataplane(&proto.NamespaceRemove{Id: id})
		} else {
			s.ns["ns1"] = f[1]
			p.handleDataplane(&proto.NamespaceUpdate{Id: id, Labels: map[string]string{"v": f[1]}})
		}
	case "insync":
		s.insync = true
		p.handleDataplane(&proto.InSync{})
	case "join":
		w := f[1]
		cl := newC31Client()
		uid := s.nextUID
		s.nextUID++
		if old := s.cur[w]; old != nil {
			s.old = append(s.old, old)
			s.stale[w] = s.curUID[w]
		}
		s.cur[w] = cl
		s.curUID[w] = uid
		p.handleJoin(JoinRequest{JoinMetadata: JoinMetadata{EndpointID: types.ProtoToWorkloadEndpointID(c31WepID(w)), JoinUID: uid}, C: cl.ch})
	case "leave":
		w := f[1]
		p.handleLeave(LeaveRequest{JoinMetadata: JoinMetadata{EndpointID: types.ProtoToWorkloadEndpointID(c31WepID(w)), JoinUID: s.curUID[w]}})
		s.old = append(s.old, s.cur[w])
		s.stale[w] = s.curUID[w]
		delete(s.cur, w)
		delete(s.curUID, w)
	case "leave-stale":
		w := f[1]
		p.handleLeave(LeaveRequest{JoinMetadata: JoinMetadata{EndpointID: types.ProtoToWorkloadEndpointID(c31WepID(w)), JoinUID: s.stale[w]}})
	default:
		panic("bad event " + e)
	}
	// deliver everything the processor queued
	for _, w := range []string{"W1", "W2"} {
		if cl := s.cur[w]; cl != nil {
			s.bad = append(s.bad, cl.drain()...)
			if cl.closed {
				s.bad = append(s.bad, "channel-closed-while-joined: "+w+" after "+e)
			}
		}
	}
	for _, cl := range s.old {
		before := cl.nmsg
		cl.drain()
		if cl.nmsg != before {
			s.bad = append(s.bad, fmt.Sprintf("message-after-leave: %d message(s) delivered on a superseded/left channel after %s", cl.nmsg-before, e))
		}
		if !cl.closed {
			s.bad = append(s.bad, "old-channel-not-closed: channel of a superseded/left join still open after "+e)
		}
	}
}

func c31Check(s *c31State, hist []string) []hbfs.Fail {
	var fails []hbfs.Fail
	add := func(class, msg string) { fails = append(fails, hbfs.Fail{Key: "C31:" + class, Msg: msg}) }
	for _, b := range s.bad {
		i := strings.Index(b, ":")
		add(b[:i], b)
	}
	for _, w := range []string{"W1", "W2"} {
		cl := s.cur[w]
		if cl == nil {
			continue
		}
		// service accounts / namespaces: everything known
		if c31Keys(cl.sa, func(x string) string { return x }) != c31Keys(s.sa, func(x string) string { return "map[v:" + x + "]" }) {
			add("serviceaccounts-differ", fmt.Sprintf("%s client SAs %v, processor was told %v", w, cl.sa, s.sa))
		}
		if c31Keys(cl.ns, func(x string) string { return x }) != c31Keys(s.ns, func(x string) string { return "map[v:" + x + "]" }) {
			add("namespaces-differ", fmt.Sprintf("%s client namespaces %v, want %v", w, cl.ns, s.ns))
		}
		if cl.insync != s.insync {
			add("insync-differs", fmt.Sprintf("%s client insync=%v processor insync=%v", w, cl.insync, s.insync))
		}
		v, known := s.eps[w]
		wantPols, wantProfs, wantSets := map[string]bool{}, map[string]bool{}, map[string]bool{}
		if known {
			want := c31Endpoint(w, v).Endpoint
			if cl.ep == nil || !googleproto.Equal(cl.ep, want) {
				add("endpoint-not-latest", fmt.Sprintf("%s client endpoint %v want %v", w, cl.ep, want))
			}
			ev := c31EpVars[w][v]
			for _, p := range append(append([]string{}, ev.in...), ev.eg...) {
				wantPols[p] = true
				for _, r := range c31PolRefs[p][s.pols[p]] {
					wantSets[r] = true
				}
			}
			for _, p := range ev.profs {
				wantProfs[p] = true
				for _, r := range c31ProfRefs[p][s.profs[p]] {
					wantSets[r] = true
				}
			}
		} else if cl.ep != nil {
			add("endpoint-unexpected", fmt.Sprintf("%s client holds an endpoint the processor does not know", w))
		}
		for p := range wantPols {
			got, ok := cl.pols[p]
			if !ok {
				add("policy-missing", fmt.Sprintf("%s client lacks policy %s", w, p))
			} else if !googleproto.Equal(got, c31Policy(p, s.pols[p])) {
				add("policy-stale", fmt.Sprintf("%s client has an old version of policy %s: %v", w, p, got))
			}
		}
		for p := range cl.pols {
			if !wantPols[p] {
				add("policy-extra", fmt.Sprintf("%s client keeps policy %s it does not need", w, p))
			}
		}
		for p := range wantProfs {
			got, ok := cl.profs[p]
			if !ok {
				add("profile-missing", fmt.Sprintf("%s client lacks profile %s", w, p))
			} else if !googleproto.Equal(got, c31Profile(p, s.profs[p])) {
				add("profile-stale", fmt.Sprintf("%s client has an old version of profile %s", w, p))
			}
		}
		for p := range cl.profs {
			if !wantProfs[p] {
				add("profile-extra", fmt.Sprintf("%s client keeps profile %s it does not need", w, p))
			}
		}
		for id := range wantSets {
			got, ok := cl.sets[id]
			if !ok {
				add("ipset-missing", fmt.Sprintf("%s client lacks IP set %s", w, id))
			} else if c31SortedSet(got) != c31SortedSet(s.sets[id]) {
				add("ipset-members-differ", fmt.Sprintf("%s client IP set %s = {%s} want {%s}", w, id, c31SortedSet(got), c31SortedSet(s.sets[id])))
			}
		}
		for id := range cl.sets {
			if !wantSets[id] {
				add("ipset-extra", fmt.Sprintf("%s client keeps IP set %s it does not need", w, id))
			}
		}
	}
	return fails
}

func c31Key(s *c31State) string {
	var sb strings.Builder
	sb.WriteString(c31Keys(s.sets, c31SortedSet))
	sb.WriteString(c31Keys(s.pols, func(v int) string { return fmt.Sprint(v) }))
	sb.WriteString(c31Keys(s.profs, func(v int) string { return fmt.Sprint(v) }))
	sb.WriteString(c31Keys(s.eps, func(v int) string { return fmt.Sprint(v) }))
	sb.WriteString(c31Keys(s.sa, func(v string) string { return v }))
	sb.WriteString(c31Keys(s.ns, func(v string) string { return v }))
	fmt.Fprintf(&sb, "insync=%v|", s.insync)
	for _, w := range []string{"W1", "W2"} {
		fmt.Fprintf(&sb, "%s:stale=%v;", w, s.stale[w] != 0)
		if cl := s.cur[w]; cl != nil {
			sb.WriteString("joined:" + cl.key())
		}
		// processor-internal sync bookkeeping for this endpoint
		if ei, ok := s.p.endpointsByID[types.ProtoToWorkloadEndpointID(c31WepID(w))]; ok {
			fmt.Fprintf(&sb, "ei:out=%v,uid0=%v,upd=%v,", ei.output != nil, ei.currentJoinUID == 0, ei.endpointUpd != nil)
			var a []string
			for k, v := range ei.syncedPolicies {
				a = append(a, fmt.Sprint("pol:", k.Kind, k.Namespace, k.Name, v))
			}
			for k, v := range ei.syncedProfiles {
				a = append(a, fmt.Sprint("prof:", k.Name, v))
			}
			for k, v := range ei.syncedIPSets {
				a = append(a, fmt.Sprint("set:", k, v))
			}
			sort.Strings(a)
			sb.WriteString(strings.Join(a, ","))
		}
		sb.WriteString("|")
	}
	fmt.Fprintf(&sb, "bad=%d", len(s.bad))
	return sb.String()
}

func c31Spec(depth int, tree bool, restrict func(string) bool) *hbfs.Spec[*c31State, string] {
	sp := &hbfs.Spec[*c31State, string]{
		Name:  fmt.Sprintf("policysync-%s-d%d", map[bool]string{true: "tree", false: "graph"}[tree], depth),
		New:   c31New,
		Apply: c31Apply,
		Enabled: func(s *c31State, d int) []string {
			evs := c31Enabled(s, d)
			if restrict == nil {
				return evs
			}
			var out []string
			for _, e := range evs {
				if restrict(e) {
					out = append(out, e)
				}
			}
			return out
		},
		Check:    c31Check,
		Key:      c31Key,
		MaxDepth: depth,
		Show:     func(e string) string { return e },
		Nontrivial: func(s *c31State) bool {
			for _, cl := range s.cur {
				if cl.ep != nil && len(cl.pols)+len(cl.profs) > 0 {
					return true
				}
			}
			return false
		},
		Outcome: func(s *c31State) string {
			o := ""
			for _, w := range []string{"W1", "W2"} {
				if cl := s.cur[w]; cl != nil {
					o += fmt.Sprintf("%s:%d/%d/%d;", w, len(cl.pols), len(cl.profs), len(cl.sets))
				}
			}
			return o
		},
	}
	if tree {
		sp.Key = nil
	}
	return sp
}

func TestVerif_C31(t *testing.T) {
	logrus.SetLevel(logrus.PanicLevel)
	vk.Run(t, "C31", func(c *vk.Ctx) {
		c.Rule("state = (what the calc graph told the Processor, join status of W1/W2, each joined client's reconstructed store, Processor's per-endpoint sync bookkeeping); " +
			"transition = one real handler call (handleDataplane / handleJoin / handleLeave) chosen from the calc-graph-valid menu, replayed on a fresh Processor; " +
			"non-trivial = a joined client holding its endpoint and at least one policy/profile")
		c.Assume("input streams obey the calc graph ordering contract (IP sets before policies/profiles that use them, those before endpoints; removes in reverse) — that contract is property C02")
		if rf := c.ReplayFile(); rf != "" {
			var d struct{ History []string }
			if err := vk.LoadReplay(rf, &d); err != nil {
				c.ToolError(err.Error())
				return
			}
			fails, err := hbfs.Replay(c31Spec(99, false, nil), d.History)
			if err != nil {
				c.ToolError(err.Error())
			}
			for _, f := range fails {
				c.Violation(f.Key, map[string]any{"history": d.History, "msg": f.Msg})
			}
			c.Add("states", 1)
			c.Add("transitions", int64(len(d.History)))
			return
		}
		c.Sample(map[string]any{"history": []string{"set:S1:create:0", "pol:P1:1", "join:W1", "ep:W1:1", "set:S1:delta:+10.0.0.2", "pol:P1:2", "leave:W1"}})
		// full alphabet, graph mode
		hbfs.Explore(c, c31Spec(c.Pick(6, 8), false, nil))
		// warm start: both workloads joined and fully populated (most defects need a non-initial state)
		warm := c31Spec(c.Pick(4, 6), false, nil)
		warm.Name = "policysync-warm-" + warm.Name
		warm.New = func() *c31State {
			s := c31New()
			for _, e := range []string{"set:S1:create:0", "set:S2:create:1", "pol:P1:1", "pol:P2:0", "prof:PR1:1", "sa:v1", "ns:v1",
				"join:W1", "ep:W1:5", "ep:W2:0", "join:W2", "insync"} {
				c31Apply(s, e)
			}
			return s
		}
		hbfs.Explore(c, warm)
		// single-workload slice (W1 only, no SA/NS noise) goes deeper
		w1only := func(e string) bool {
			return !strings.Contains(e, "W2") && !strings.HasPrefix(e, "sa:") && !strings.HasPrefix(e, "ns:")
		}
		hbfs.Explore(c, c31Spec(c.Pick(9, 13), false, w1only))
		// tree mode (no merging) shallow
		hbfs.Explore(c, c31Spec(c.Pick(3, 4), true, nil))
	})
}

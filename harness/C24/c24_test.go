package syncserver

// C24 — Typha clients converge to the datastore view from any join point.
//
// Explicit-state search over the REAL snapcache.Cache (publishBreadcrumbs driven with exactly the batches
// fillBatchFromInputQueue can form: messages are slurped while the running size is < MaxBatchSize), the REAL
// syncproto.SerializeUpdate / WouldBeNoOp / ToUpdate and the REAL syncserver.writeSnapshotMessages (run in a
// goroutine that is lock-stepped chunk by chunk, so cache publications interleave with a snapshot in flight).
// The delta phase follows Breadcrumb.next exactly like sendDeltaUpdatesToClient: coalesce j>=1 crumbs (only
// while fewer than MaxMessageSize deltas are buffered), send them, then send the newest crumb's status if it
// differs from the last status sent. The client side is SyncerClient.loop's core: ToUpdate per KV into a map.
//
// Clients never influence the server or one another, so one client that may join, leave and re-join at any
// point covers every join point; "slow" = the server-side sender is scheduled rarely (coalescing).

import (
	"context"
	"fmt"
	"sort"
	"strconv"
	"strings"
	"testing"

	"github.com/sirupsen/logrus"

	"github.com/projectcalico/calico/libcalico-go/lib/backend/api"
	"github.com/projectcalico/calico/libcalico-go/lib/backend/model"
	"github.com/projectcalico/calico/typha/pkg/snapcache"
	"github.com/projectcalico/calico/typha/pkg/syncproto"
	"github.com/projectcalico/calico/zzverif/hbfs"
	"github.com/projectcalico/calico/zzverif/vk"
)

type c24Params struct {
	Name      string
	MaxBatch  int
	MaxMsg    int
	Depth     int
	Rejoins   int
	Tree      bool
	Rich      bool // larger input alphabet (status back to wait-for-datastore, more multi-update messages)
	replayLen int
}

type c24KV struct {
	K string
	V string // "" = delete; "!" = validation failure (nil value, non-delete update type)
}

type c24Ev struct {
	Op  string  // in | join | snap | serve | leave
	M   []c24KV `json:",omitempty"` // in: the updates of one OnUpdates message
	S   int     `json:",omitempty"` // in: status+1 of one OnStatusUpdated message (0 = not a status message)
	Cut bool    `json:",omitempty"` // in: the cache's loop stops slurping after this message and publishes
	J   int     `json:",omitempty"` // serve: number of crumbs coalesced
}

func (e c24Ev) String() string { return vk.JSON(e) }

func c24Key(k string) model.Key {
	if k == "k1" {
		return model.HostConfigKey{Hostname: "h", Name: "k1"}
	}
	return model.GlobalConfigKey{Name: k}
}

func c24Path(k model.Key) string {
	p, err := model.KeyToDefaultPath(k)
	if err != nil {
		panic("harness: " + err.Error())
	}
	return p
}

type c24Client struct {
	ctx      context.Context
	cancel   context.CancelFunc
	crumb    *snapcache.Breadcrumb // position: everything up to and including this crumb has been sent
	joined   *snapcache.Breadcrumb
	phase    int // 1 snapshot in flight, 2 following deltas
	view     map[string]string
	lastRev  map[string]int
	status   api.SyncStatus
	told     bool
	lastSent api.SyncStatus
	ready    chan []syncproto.SerializedUpdate
	resume   chan struct{}
	pending  []syncproto.SerializedUpdate // next snapshot chunk, already produced by writeSnapshotMessages
	chunks   int
	badKVs   int
}

type c24Inst struct {
	p      c24Params
	ctx    context.Context
	cancel context.CancelFunc
	cache  *snapcache.Cache
	seq    int
	// the batch the cache's loop is currently slurping
	batch     []any
	batchDesc []string
	batchFold []map[string]string // datastore view after each element (single update or status) of the batch
	batchSync int                 // 1-based position in batchFold of the first InSync message in the batch, 0 none
	batchSize int
	foldAll   map[string]string // datastore view including unpublished messages
	foldPub   map[string]string // datastore view as of the last publication
	everSync  bool              // an InSync message has been published
	okSync    map[uint64]bool   // crumb seq -> crumb is at least as new as the snapshot at which upstream was in sync
	cl        *c24Client
	joins     int
	bad       []hbfs.Fail
}

func (s *c24Inst) fail(key, f string, a ...any) {
	s.bad = append(s.bad, hbfs.Fail{Key: "C24:" + key, Msg: fmt.Sprintf(f, a...)})
}

func c24New(p c24Params) *c24Inst {
	s := &c24Inst{p: p, foldAll: map[string]string{}, foldPub: map[string]string{}, okSync: map[uint64]bool{}}
	s.ctx, s.cancel = context.WithCancel(context.Background())
	s.cache = snapcache.New(snapcache.Config{MaxBatchSize: p.MaxBatch, WakeUpInterval: 1 << 40, Name: "felix", HealthName: "felix-cache"})
	return s
}

func (s *c24Inst) close() {
	s.cancel()
	if s.cl != nil {
		s.cl.cancel()
	}
	s.cache.VerifStop()
}

func c24Copy(m map[string]string) map[string]string {
	o := make(map[string]string, len(m))
	for k, v := range m {
		o[k] = v
	}
	return o
}

func c24Map(m map[string]string) string {
	ks := make([]string, 0, len(m))
	for k, v := range m {
		ks = append(ks, k[strings.LastIndex(k, "/")+1:]+"="+v)
	}
	sort.Strings(ks)
	return "{" + strings.Join(ks, ",") + "}"
}

func c24Vals(b *snapcache.Breadcrumb) map[string]string {
	m := map[string]string{}
	b.KVs.Ascend(func(e syncproto.SerializedUpdate) bool { m[e.Key] = string(e.Value); return true })
	return m
}

// ---- upstream / cache ----

func (s *c24Inst) input(e c24Ev) {
	if e.S > 0 {
		st := api.SyncStatus(e.S - 1)
		s.batch = append(s.batch, st)
		s.batchDesc = append(s.batchDesc, fmt.Sprintf("S%d", st))
		s.batchSize++
		s.batchFold = append(s.batchFold, c24Copy(s.foldAll))
		if st == api.InSync && s.batchSync == 0 {
			s.batchSync = len(s.batchFold)
		}
	} else {
		var us []api.Update
		var d []string
		for _, kv := range e.M {
			s.seq++
			key := c24Key(kv.K)
			path := c24Path(key)
			u := api.Update{KVPair: model.KVPair{Key: key, Revision: strconv.Itoa(s.seq)}}
			_, had := s.foldAll[path]
			switch kv.V {
			case "":
				u.UpdateType = api.UpdateTypeKVDeleted
				delete(s.foldAll, path)
			case "!":
				u.UpdateType = api.UpdateTypeKVUpdated
				if !had {
					u.UpdateType = api.UpdateTypeKVNew
				}
				delete(s.foldAll, path)
			default:
				u.Value = kv.V
				u.UpdateType = api.UpdateTypeKVUpdated
				if !had {
					u.UpdateType = api.UpdateTypeKVNew
				}
				s.foldAll[path] = kv.V
			}
			s.batchFold = append(s.batchFold, c24Copy(s.foldAll)) // a sub-batch may end after any single update
			us = append(us, u)
			d = append(d, fmt.Sprintf("%s=%s@%d/%d", kv.K, kv.V, s.seq, u.UpdateType))
		}
		s.batch = append(s.batch, us)
		s.batchDesc = append(s.batchDesc, strings.Join(d, ","))
		s.batchSize += len(us)
	}
	if e.Cut || s.batchSize >= s.p.MaxBatch {
		s.publish()
	}
}

func (s *c24Inst) publish() {
	before := s.cache.CurrentBreadcrumb()
	s.cache.VerifPublish(s.batch)
	final := s.batchFold[len(s.batchFold)-1]
	hadSync := s.batchSync > 0
	for b := before.VerifNext(); b != nil; b = b.VerifNext() {
		ok := s.everSync
		if !ok && hadSync {
			vals := c24Map(c24Vals(b))
			for j := s.batchSync; j <= len(s.batchFold); j++ {
				if c24Map(s.batchFold[j-1]) == vals {
					ok = true
				}
			}
		}
		s.okSync[b.SequenceNumber] = ok
	}
	latest := s.cache.CurrentBreadcrumb()
	if got, want := c24Map(c24Vals(latest)), c24Map(final); got != want {
		s.fail("server-view-diverges-from-datastore", "after publishing batch %v the newest breadcrumb holds %s, the datastore view is %s", s.batchDesc, got, want)
	}
	if hadSync {
		s.everSync = true
	}
	s.foldPub = final
	s.batch, s.batchDesc, s.batchFold, s.batchSync, s.batchSize = nil, nil, nil, 0, 0
}

// ---- server connection + client ----

func (s *c24Inst) deliverKVs(kvs []syncproto.SerializedUpdate) {
	cl := s.cl
	for _, kv := range kvs {
		u, err := kv.ToUpdate()
		if err != nil {
			cl.badKVs++
			continue
		}
		path := c24Path(u.Key)
		rev, _ := strconv.Atoi(u.Revision)
		if last, ok := cl.lastRev[path]; ok && rev < last {
			s.fail("older-value-after-newer", "client saw %s at revision %d after revision %d within one connection", path, rev, last)
		}
		cl.lastRev[path] = rev
		if u.Value == nil {
			delete(cl.view, path)
		} else {
			cl.view[path] = fmt.Sprint(u.Value)
		}
	}
}

func (s *c24Inst) checkView(key string) {
	cl := s.cl
	if got, want := c24Map(cl.view), c24Map(c24Vals(cl.crumb)); got != want {
		s.fail(key, "client has consumed up to breadcrumb %d: its view is %s, the server's view at that breadcrumb is %s", cl.crumb.SequenceNumber, got, want)
	}
}

// maybeSendStatus mirrors the closure of the same name in sendDeltaUpdatesToClient.
func (s *c24Inst) maybeSendStatus() {
	cl := s.cl
	if cl.lastSent == cl.crumb.SyncStatus {
		return
	}
	cl.lastSent = cl.crumb.SyncStatus
	cl.status = cl.crumb.SyncStatus
	if cl.status == api.InSync {
		cl.told = true
		if !s.okSync[cl.crumb.SequenceNumber] && cl.crumb.SequenceNumber != 0 {
			s.fail("insync-too-early", "client told in-sync at breadcrumb %d holding %s, which is older than the snapshot at which the server was in sync", cl.crumb.SequenceNumber, c24Map(cl.view))
		}
	}
}

func (s *c24Inst) join() {
	ctx, cancel := context.WithCancel(s.ctx)
	cl := &c24Client{ctx: ctx, cancel: cancel, view: map[string]string{}, lastRev: map[string]int{}, phase: 1,
		ready: make(chan []syncproto.SerializedUpdate), resume: make(chan struct{})}
	cl.crumb = s.cache.CurrentBreadcrumb()
	cl.joined = cl.crumb
	s.cl = cl
	s.joins++
	maxMsg := s.p.MaxMsg
	go func() {
		_ = writeSnapshotMessages(ctx, logrus.WithField("verif", "c24"), cl.joined, func(msg any) error {
			m := msg.(syncproto.MsgKVs)
			cp := append([]syncproto.SerializedUpdate(nil), m.KVs...) // the real sendMsg encodes before returning
			select {
			case cl.ready <- cp:
			case <-ctx.Done():
				return ctx.Err()
			}
			select {
			case <-cl.resume:
				return nil
			case <-ctx.Done():
				return ctx.Err()
			}
		}, maxMsg)
		select {
		case cl.ready <- nil:
		case <-ctx.Done():
		}
	}()
	cl.pending = <-cl.ready
	if cl.pending == nil {
		s.snapshotDone()
	}
}

func (s *c24Inst) snapshotDone() {
	s.cl.phase = 2
	s.checkView("snapshot-view-mismatch")
	s.maybeSendStatus()
}

func (s *c24Inst) snap() {
	cl := s.cl
	s.deliverKVs(cl.pending)
	cl.chunks++
	cl.resume <- struct{}{}
	cl.pending = <-cl.ready
	if cl.pending == nil {
		s.snapshotDone()
	}
}

func (s *c24Inst) serve(j int) {
	cl := s.cl
	var deltas []syncproto.SerializedUpdate
	b := cl.crumb
	for i := 0; i < j; i++ {
		b = b.VerifNext()
		deltas = append(deltas, b.Deltas...)
	}
	cl.crumb = b
	if len(deltas) > 0 {
		s.deliverKVs(deltas)
	}
	s.checkView("delta-view-mismatch")
	s.maybeSendStatus()
}

func c24Apply(s *c24Inst, e c24Ev) {
	switch e.Op {
	case "in":
		s.input(e)
	case "join":
		s.join()
	case "snap":
		s.snap()
	case "serve":
		s.serve(e.J)
	case "leave":
		s.cl.cancel()
		s.cl = nil
	default:
		panic("harness: bad op " + e.Op)
	}
}

func c24Inputs(rich bool) []c24Ev {
	var evs []c24Ev
	one := func(k, v string) { evs = append(evs, c24Ev{Op: "in", M: []c24KV{{k, v}}}) }
	one("k1", "1")
	one("k1", "2")
	one("k1", "")
	one("k2", "1")
	one("k2", "!")
	evs = append(evs,
		c24Ev{Op: "in", M: []c24KV{{"k1", "1"}, {"k2", "1"}}},
		c24Ev{Op: "in", M: []c24KV{{"k1", "2"}, {"k2", "2"}, {"k1", "1"}}},
		c24Ev{Op: "in", S: int(api.InSync) + 1},
	)
	if rich {
		one("k2", "2")
		one("k2", "")
		one("k1", "!")
		evs = append(evs,
			c24Ev{Op: "in", M: []c24KV{{"k2", "1"}, {"k1", ""}, {"k1", "1"}}},
			c24Ev{Op: "in", M: []c24KV{{"k1", "2"}, {"k2", ""}}},
			c24Ev{Op: "in", S: int(api.ResyncInProgress) + 1},
			c24Ev{Op: "in", S: int(api.WaitForDatastore) + 1},
		)
	}
	return evs
}

func c24Enabled(s *c24Inst, inputs []c24Ev) []c24Ev {
	var evs []c24Ev
	for _, in := range inputs {
		// the loop goes on slurping only while the running size is below MaxBatchSize: if this message
		// fills the batch the cut is forced, otherwise both continuations exist.
		sz := len(in.M)
		if in.S > 0 {
			sz = 1
		}
		in.Cut = true
		evs = append(evs, in)
		if s.batchSize+sz < s.p.MaxBatch {
			in.Cut = false
			evs = append(evs, in)
		}
	}
	cl := s.cl
	switch {
	case cl == nil:
		if s.joins <= s.p.Rejoins {
			evs = append(evs, c24Ev{Op: "join"})
		}
	case cl.phase == 1:
		evs = append(evs, c24Ev{Op: "snap"}, c24Ev{Op: "leave"})
	default:
		n := 0
		b := cl.crumb
		for j := 1; j <= 3; j++ {
			b = b.VerifNext()
			if b == nil {
				break
			}
			evs = append(evs, c24Ev{Op: "serve", J: j})
			n += len(b.Deltas)
			if n >= s.p.MaxMsg {
				break // the coalescing loop runs only while len(deltas) < MaxMessageSize
			}
		}
		evs = append(evs, c24Ev{Op: "leave"})
	}
	return evs
}

// ---- canonical key: revisions are replaced by their rank (only their order can matter) ----

type c24Ranker struct {
	revs []int
	m    map[int]int
}

func (r *c24Ranker) add(x any) {
	switch v := x.(type) {
	case int:
		r.revs = append(r.revs, v)
	case string:
		n, _ := strconv.Atoi(v)
		r.revs = append(r.revs, n)
	case nil:
	default:
		n, _ := strconv.Atoi(fmt.Sprint(v))
		r.revs = append(r.revs, n)
	}
}

func (r *c24Ranker) rank(x any) int {
	if r.m == nil {
		sort.Ints(r.revs)
		r.m = map[int]int{}
		for _, v := range r.revs {
			if _, ok := r.m[v]; !ok {
				r.m[v] = len(r.m)
			}
		}
	}
	switch v := x.(type) {
	case int:
		return r.m[v]
	case nil:
		return -1
	default:
		n, _ := strconv.Atoi(fmt.Sprint(v))
		return r.m[n]
	}
}

func c24SUs(r *c24Ranker, us []syncproto.SerializedUpdate) string {
	var b strings.Builder
	for _, u := range us {
		v := "nil"
		if u.Value != nil {
			v = string(u.Value)
		}
		fmt.Fprintf(&b, "%s=%s@%d/%d,", u.Key[strings.LastIndex(u.Key, "/")+1:], v, r.rank(u.Revision), u.UpdateType)
	}
	return b.String()
}

func c24Tree(b *snapcache.Breadcrumb) []syncproto.SerializedUpdate {
	var us []syncproto.SerializedUpdate
	b.KVs.Ascend(func(e syncproto.SerializedUpdate) bool { us = append(us, e); return true })
	return us
}

func c24StateKey(s *c24Inst) string {
	r := &c24Ranker{}
	latest := s.cache.CurrentBreadcrumb()
	start := latest
	if s.cl != nil {
		start = s.cl.crumb
	}
	var chain []*snapcache.Breadcrumb
	for b := start; b != nil; b = b.VerifNext() {
		chain = append(chain, b)
		for _, u := range c24Tree(b) {
			r.add(u.Revision)
		}
		for _, u := range b.Deltas {
			r.add(u.Revision)
		}
	}
	if s.cl != nil {
		for _, v := range s.cl.lastRev {
			r.add(v)
		}
		for _, u := range s.cl.pending {
			r.add(u.Revision)
		}
		for _, u := range c24Tree(s.cl.joined) {
			r.add(u.Revision)
		}
	}
	for _, m := range s.batch {
		if us, ok := m.([]api.Update); ok {
			for _, u := range us {
				r.add(u.Revision)
			}
		}
	}
	var b strings.Builder
	np, ps := s.cache.VerifPending()
	fmt.Fprintf(&b, "pend%d/%d|ever%v|joins%d|bad%d|", np, ps, s.everSync, s.joins, len(s.bad))
	for i, c := range chain {
		fmt.Fprintf(&b, "crumb[%s;st%d;ok%v", c24SUs(r, c24Tree(c)), c.SyncStatus, s.okSync[c.SequenceNumber] || c.SequenceNumber == 0)
		if i > 0 {
			fmt.Fprintf(&b, ";d:%s", c24SUs(r, c.Deltas))
		}
		b.WriteString("]")
	}
	b.WriteString("|batch:")
	for _, m := range s.batch {
		switch m := m.(type) {
		case api.SyncStatus:
			fmt.Fprintf(&b, "S%d;", m)
		case []api.Update:
			for _, u := range m {
				fmt.Fprintf(&b, "%s=%v@%d/%d,", u.Key, u.Value, r.rank(u.Revision), u.UpdateType)
			}
			b.WriteString(";")
		}
	}
	fmt.Fprintf(&b, "sync%d|all%s|pub%s", s.batchSync, c24Map(s.foldAll), c24Map(s.foldPub))
	if cl := s.cl; cl != nil {
		var lr []string
		for k, v := range cl.lastRev {
			lr = append(lr, fmt.Sprintf("%s@%d", k[strings.LastIndex(k, "/")+1:], r.rank(v)))
		}
		sort.Strings(lr)
		fmt.Fprintf(&b, "|cl ph%d view%s last%v st%d told%v sent%d chunks%d bad%d", cl.phase, c24Map(cl.view), lr, cl.status, cl.told, cl.lastSent, cl.chunks, min(cl.badKVs, 1))
		if cl.phase == 1 {
			fmt.Fprintf(&b, " joined[%s] pending[%s]", c24SUs(r, c24Tree(cl.joined)), c24SUs(r, cl.pending))
		}
	}
	return b.String()
}

func c24Check(s *c24Inst, hist []c24Ev) []hbfs.Fail {
	fails := append([]hbfs.Fail(nil), s.bad...)
	// a client that has caught up with the newest breadcrumb holds exactly the published datastore view
	if cl := s.cl; cl != nil && cl.phase == 2 && cl.crumb == s.cache.CurrentBreadcrumb() {
		if got, want := c24Map(cl.view), c24Map(s.foldPub); got != want {
			fails = append(fails, hbfs.Fail{Key: "C24:caught-up-client-view-differs", Msg: fmt.Sprintf("caught-up client holds %s, datastore view %s", got, want)})
		}
	}
	return fails
}

func c24Spec(c *vk.Ctx, p c24Params) *hbfs.Spec[*c24Inst, c24Ev] {
	inputs := c24Inputs(p.Rich)
	sp := &hbfs.Spec[*c24Inst, c24Ev]{
		Name:     p.Name,
		New:      func() *c24Inst { return c24New(p) },
		Apply:    c24Apply,
		Enabled:  func(s *c24Inst, d int) []c24Ev { return c24Enabled(s, inputs) },
		Check:    c24Check,
		Key:      c24StateKey,
		Close:    func(s *c24Inst) { s.close() },
		MaxDepth: p.Depth,
		Workers:  8,
		Nontrivial: func(s *c24Inst) bool {
			// a client that joined a non-empty view, or is behind the newest breadcrumb
			cl := s.cl
			return cl != nil && (cl.joined.KVs.Len() > 0 || cl.crumb != s.cache.CurrentBreadcrumb())
		},
		Outcome: func(s *c24Inst) string {
			cl := s.cl
			if cl == nil {
				return "no-client server=" + c24Map(s.foldPub)
			}
			if c != nil && cl.phase == 2 && cl.crumb == s.cache.CurrentBreadcrumb() {
				c.Add("caught_up_client_states", 1)
			}
			return fmt.Sprintf("ph%d view=%s told=%v status=%d behind=%v", cl.phase, c24Map(cl.view), cl.told, cl.status, cl.crumb != s.cache.CurrentBreadcrumb())
		},
		PanicKey: func(val string, hist []c24Ev) string {
			v := strings.Map(func(r rune) rune {
				if r >= '0' && r <= '9' {
					return -1
				}
				return r
			}, val)
			if len(v) > 90 {
				v = v[:90]
			}
			if strings.HasPrefix(val, "harness:") {
				return "C24:harness-self-check"
			}
			return "C24:panic:" + v
		},
	}
	if p.Tree {
		sp.Key = nil
	}
	return sp
}

func c24AllSpecs() map[string][]c24Params {
	return map[string][]c24Params{
		"quick": {
			{Name: "typha-b1-m1-graph", MaxBatch: 1, MaxMsg: 1, Depth: 7, Rejoins: 1},
			{Name: "typha-b2-m1-graph", MaxBatch: 2, MaxMsg: 1, Depth: 6, Rejoins: 1},
			{Name: "typha-b2-m2-graph", MaxBatch: 2, MaxMsg: 2, Depth: 5, Rejoins: 1},
			{Name: "typha-b3-m2-rich-graph", MaxBatch: 3, MaxMsg: 2, Depth: 4, Rejoins: 1, Rich: true},
			{Name: "typha-b2-m1-tree", MaxBatch: 2, MaxMsg: 1, Depth: 4, Rejoins: 1, Tree: true},
		},
		"thorough": {
			{Name: "typha-b1-m1-graph-t", MaxBatch: 1, MaxMsg: 1, Depth: 8, Rejoins: 2},
			{Name: "typha-b2-m1-graph-t", MaxBatch: 2, MaxMsg: 1, Depth: 7, Rejoins: 2},
			{Name: "typha-b2-m2-graph-t", MaxBatch: 2, MaxMsg: 2, Depth: 7, Rejoins: 2},
			{Name: "typha-b3-m2-graph-t", MaxBatch: 3, MaxMsg: 2, Depth: 7, Rejoins: 2},
			{Name: "typha-b3-m1-rich-t", MaxBatch: 3, MaxMsg: 1, Depth: 5, Rejoins: 1, Rich: true},
			{Name: "typha-b2-m2-rich-t", MaxBatch: 2, MaxMsg: 2, Depth: 5, Rejoins: 1, Rich: true},
			{Name: "typha-b2-m1-tree-t", MaxBatch: 2, MaxMsg: 1, Depth: 5, Rejoins: 1, Tree: true},
		},
	}
}

func TestVerif_C24(t *testing.T) {
	logrus.SetLevel(logrus.PanicLevel)
	vk.Run(t, "C24", func(c *vk.Ctx) {
		c.Rule("states = (real cache: btree, pending fields, breadcrumb chain from the client's position to the newest incl. deltas/status; batch being slurped; datastore views; client: phase, view, last revision per key, statuses, snapshot chunk in flight), revisions canonicalised to ranks; " +
			"transitions = one upstream message (single/multi-update OnUpdates incl. deletes of absent keys and validation failures, OnStatusUpdated) with or without a batch cut (real publishBreadcrumbs), client join (real writeSnapshotMessages started), one snapshot chunk, one delta step coalescing 1-3 crumbs, leave; " +
			"non-trivial = client joined a non-empty view or is behind the newest breadcrumb")
		c.Assume("sendDeltaUpdatesToClient's loop is mirrored by the harness (follow next, coalesce while < MaxMessageSize buffered, send deltas then status if changed); its wall-clock choices (age-based batching, fall-behind disconnect, grace period) become free choices / are not explored")
		c.Assume("gob framing, compression, TLS, ping/pong, write deadlines and Breadcrumb.Next's condition-variable blocking are not explored; the client is SyncerClient.loop's KV/status handling (ToUpdate per KV)")
		c.Assume("batches are exactly those fillBatchFromInputQueue can form for MaxBatchSize in {1,2,3}; MaxMessageSize in {1,2}")
		all := c24AllSpecs()
		if rf := c.ReplayFile(); rf != "" {
			var d struct {
				Spec    string
				History []string
			}
			if err := vk.LoadReplay(rf, &d); err != nil {
				c.ToolError(err.Error())
				return
			}
			for _, ps := range all {
				for _, p := range ps {
					if p.Name == d.Spec {
						p.Depth = 999
						fails, err := hbfs.Replay(c24Spec(nil, p), d.History)
						if err != nil {
							c.ToolError(err.Error())
						}
						for _, f := range fails {
							c.Violation(f.Key, map[string]any{"spec": d.Spec, "history": d.History, "msg": f.Msg})
						}
						c.Add("states", 1)
						c.Add("transitions", int64(len(d.History)))
						return
					}
				}
			}
			c.ToolError("replay: unknown spec " + d.Spec)
			return
		}
		c.Sample(map[string]any{"spec": "typha-b2-m1-graph", "history": []string{
			`{"Op":"in","M":[{"K":"k1","V":"1"},{"K":"k2","V":"1"}],"Cut":true}`, `{"Op":"join"}`, `{"Op":"snap"}`,
			`{"Op":"in","M":[{"K":"k1","V":"2"}],"Cut":true}`, `{"Op":"snap"}`, `{"Op":"in","S":3,"Cut":true}`, `{"Op":"serve","J":2}`},
			"expect": "client joins at {k1=1,k2=1}, a publication lands between its two snapshot chunks, then one coalesced delta step brings k1=2 followed by the in-sync status"})
		for _, p := range all[c.Tier()] {
			if c.Expired() {
				c.Capped("deadline before " + p.Name)
				break
			}
			hbfs.Explore(c, c24Spec(c, p))
		}
	})
}

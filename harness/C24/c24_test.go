package syncserver

// C24 — Typha clients converge to the datastore view from any join point.
//
// Explicit-state search over the REAL snapcache.Cache (publishBreadcrumbs driven with exactly the batches
// fillBatchFromInputQueue can form: messages are slurped while the running size is < MaxBatchSize), the REAL
// syncproto.SerializeUpdate / WouldBeNoOp / ToUpdate and the REAL syncserver.writeSnapshotMessages (run in a
// goroutine that is lock-stepped chunk by chunk, so cache publications interleave with a snapshot in flight).
// The delta phase is the REAL connection.sendDeltaUpdatesToClient (real Breadcrumb.Next, coalescing, order of
// KVs/status writes through the real sendMsg + gob), lock-stepped at the wire flush, at the sender's cache peek
// (answered "behind"/"not behind") and at Next's blocking path. The client side is SyncerClient.loop's core.
//
// Clients never influence the server or one another, so one client that may join, leave and re-join at any
// point covers every join point; "slow" = the server-side sender is scheduled rarely (coalescing).

import (
	"bytes"
	"context"
	"encoding/gob"
	"fmt"
	"io"
	"math"
	"net"
	"sort"
	"strconv"
	"strings"
	"sync"
	"testing"
	"time"

	"github.com/sirupsen/logrus"

	"github.com/projectcalico/calico/libcalico-go/lib/backend/api"
	"github.com/projectcalico/calico/libcalico-go/lib/backend/model"
	"github.com/projectcalico/calico/typha/pkg/snapcache"
	"github.com/projectcalico/calico/typha/pkg/syncproto"
	"github.com/projectcalico/calico/zzverif/hbfs"
	"github.com/projectcalico/calico/zzverif/vk"
)

type c24Params struct {
	Name      string
	MaxBatch  int
	MaxMsg    int
	Depth     int
	Rejoins   int
	Tree      bool
	Rich      bool // larger input alphabet (status back to wait-for-datastore, more multi-update messages)
	replayLen int
}

type c24KV struct {
	K string
	V string // "" = delete; "!" = validation failure (nil value, non-delete update type)
}

type c24Ev struct {
	Op  string  // in | join | snap | serve | leave
	M   []c24KV `json:",omitempty"` // in: the updates of one OnUpdates message
	S   int     `json:",omitempty"` // in: status+1 of one OnStatusUpdated message (0 = not a status message)
	Cut bool    `json:",omitempty"` // in: the cache's loop stops slurping after this message and publishes
	J   int     `json:",omitempty"` // serve: answer to the sender's "how far behind am I" peek: 1 not behind, 2 behind (keeps coalescing)
}

func (e c24Ev) String() string { return vk.JSON(e) }

func c24Key(k string) model.Key {
	if k == "k1" {
		return model.HostConfigKey{Hostname: "h", Name: "k1"}
	}
	return model.GlobalConfigKey{Name: k}
}

func c24Path(k model.Key) string {
	p, err := model.KeyToDefaultPath(k)
	if err != nil {
		panic("harness: " + err.Error())
	}
	return p
}

type c24Client struct {
	ctx       context.Context
	cancel    context.CancelFunc
	crumb     *snapcache.Breadcrumb // newest breadcrumb the real sender has obtained
	iterStart *snapcache.Breadcrumb // everything up to this breadcrumb is known to have been sent
	joined    *snapcache.Breadcrumb
	phase     int    // 1 snapshot in flight, 2 following deltas
	parked    string // "" running/snapshot chunk pending, "peek", "blocked" (waiting in Breadcrumb.Next), "exit"
	view      map[string]string
	lastRev   map[string]int
	status    api.SyncStatus
	told      bool
	lastSent  api.SyncStatus
	sig       chan c24Sig
	done      chan struct{} // closed when the connection goroutine has returned
	resume    chan bool
	// next snapshot chunk, already produced and gob-encoded by the real sendMsg
	pendingMsg    any
	hasPending    bool
	chunks        int
	badKVs        int
	msgsSincePeek int
	lastBehind    bool
}

type c24Inst struct {
	p      c24Params
	ctx    context.Context
	cancel context.CancelFunc
	cache  *snapcache.Cache
	seq    int
	// the batch the cache's loop is currently slurping
	batch     []any
	batchDesc []string
	batchFold []map[string]string // datastore view after each element (single update or status) of the batch
	batchSync int                 // 1-based position in batchFold of the first InSync message in the batch, 0 none
	batchSize int
	foldAll   map[string]string // datastore view including unpublished messages
	foldPub   map[string]string // datastore view as of the last publication
	everSync  bool              // an InSync message has been published
	okSync    map[uint64]bool   // crumb seq -> crumb is at least as new as the snapshot at which upstream was in sync
	cl        *c24Client
	joins     int
	bad       []hbfs.Fail
}

func (s *c24Inst) fail(key, f string, a ...any) {
	s.bad = append(s.bad, hbfs.Fail{Key: "C24:" + key, Msg: fmt.Sprintf(f, a...)})
}

func c24New(p c24Params) *c24Inst {
	s := &c24Inst{p: p, foldAll: map[string]string{}, foldPub: map[string]string{}, okSync: map[uint64]bool{}}
	s.ctx, s.cancel = context.WithCancel(context.Background())
	s.cache = snapcache.New(snapcache.Config{MaxBatchSize: p.MaxBatch, WakeUpInterval: 1 << 40, Name: "felix", HealthName: "felix-cache"})
	return s
}

func (s *c24Inst) close() {
	s.cancel()
	if s.cl != nil {
		s.cl.cancel()
	}
	s.cache.VerifWake()
	s.cache.VerifStop()
}

func c24Copy(m map[string]string) map[string]string {
	o := make(map[string]string, len(m))
	for k, v := range m {
		o[k] = v
	}
	return o
}

func c24Map(m map[string]string) string {
	ks := make([]string, 0, len(m))
	for k, v := range m {
		ks = append(ks, k[strings.LastIndex(k, "/")+1:]+"="+v)
	}
	sort.Strings(ks)
	return "{" + strings.Join(ks, ",") + "}"
}

func c24Vals(b *snapcache.Breadcrumb) map[string]string {
	m := map[string]string{}
	b.KVs.Ascend(func(e syncproto.SerializedUpdate) bool { m[e.Key] = string(e.Value); return true })
	return m
}

// ---- upstream / cache ----

func (s *c24Inst) input(e c24Ev) {
	if e.S > 0 {
		st := api.SyncStatus(e.S - 1)
		s.batch = append(s.batch, st)
		s.batchDesc = append(s.batchDesc, fmt.Sprintf("S%d", st))
		s.batchSize++
		s.batchFold = append(s.batchFold, c24Copy(s.foldAll))
		if st == api.InSync && s.batchSync == 0 {
			s.batchSync = len(s.batchFold)
		}
	} else {
		var us []api.Update
		var d []string
		for _, kv := range e.M {
			s.seq++
			key := c24Key(kv.K)
			path := c24Path(key)
			u := api.Update{KVPair: model.KVPair{Key: key, Revision: strconv.Itoa(s.seq)}}
			_, had := s.foldAll[path]
			switch kv.V {
			case "":
				u.UpdateType = api.UpdateTypeKVDeleted
				delete(s.foldAll, path)
			case "!":
				u.UpdateType = api.UpdateTypeKVUpdated
				if !had {
					u.UpdateType = api.UpdateTypeKVNew
				}
				delete(s.foldAll, path)
			default:
				u.Value = kv.V
				u.UpdateType = api.UpdateTypeKVUpdated
				if !had {
					u.UpdateType = api.UpdateTypeKVNew
				}
				s.foldAll[path] = kv.V
			}
			s.batchFold = append(s.batchFold, c24Copy(s.foldAll)) // a sub-batch may end after any single update
			us = append(us, u)
			d = append(d, fmt.Sprintf("%s=%s@%d/%d", kv.K, kv.V, s.seq, u.UpdateType))
		}
		s.batch = append(s.batch, us)
		s.batchDesc = append(s.batchDesc, strings.Join(d, ","))
		s.batchSize += len(us)
	}
	if e.Cut || s.batchSize >= s.p.MaxBatch {
		s.publish()
	}
}

func (s *c24Inst) publish() {
	before := s.cache.CurrentBreadcrumb()
	s.cache.VerifPublish(s.batch)
	defer func() {
		// a sender that was waiting in Breadcrumb.Next has been woken by the real Broadcast
		if cl := s.cl; cl != nil && cl.parked == "blocked" && cl.crumb.VerifNext() != nil {
			cl.parked = ""
			s.run()
		}
	}()
	final := s.batchFold[len(s.batchFold)-1]
	hadSync := s.batchSync > 0
	for b := before.VerifNext(); b != nil; b = b.VerifNext() {
		ok := s.everSync
		if !ok && hadSync {
			vals := c24Map(c24Vals(b))
			for j := s.batchSync; j <= len(s.batchFold); j++ {
				if c24Map(s.batchFold[j-1]) == vals {
					ok = true
				}
			}
		}
		s.okSync[b.SequenceNumber] = ok
	}
	latest := s.cache.CurrentBreadcrumb()
	if got, want := c24Map(c24Vals(latest)), c24Map(final); got != want {
		s.fail("server-view-diverges-from-datastore", "after publishing batch %v the newest breadcrumb holds %s, the datastore view is %s", s.batchDesc, got, want)
	}
	if hadSync {
		s.everSync = true
	}
	s.foldPub = final
	s.batch, s.batchDesc, s.batchFold, s.batchSync, s.batchSize = nil, nil, nil, 0, 0
}

// ---- server connection (REAL connection.streamSnapshotToClient / sendDeltaUpdatesToClient / sendMsg) + client ----
//
// One goroutine per joined client runs exactly what connection.handle runs after the handshake: the snapshot
// through h.sendMsg, then sendDeltaUpdatesToClient. It is lock-stepped at three seams:
//   - h.flushWriter (called by sendMsg after gob-encoding a message): the bytes are gob-decoded again and the
//     message is handed to the explorer = the wire order of KVs and status messages comes from the real code;
//   - h.cache.CurrentBreadcrumb() (the "how far behind am I" peek after every Breadcrumb.Next): the explorer
//     answers with a timestamp that makes the client "behind" (coalesce more) or "not behind";
//   - h.cxt.Err() called with the breadcrumb cond's mutex held = Breadcrumb.Next's slow path: the goroutine
//     reports that it is about to wait for the next breadcrumb (it is woken by the real Broadcast).

type c24Sig struct {
	kind string // msg | peek | blocked | snapdone | exit
	msg  any
}

type c24Conn struct{}

func (c24Conn) Read([]byte) (int, error)         { return 0, io.EOF }
func (c24Conn) Write(b []byte) (int, error)      { return len(b), nil }
func (c24Conn) Close() error                     { return nil }
func (c24Conn) LocalAddr() net.Addr              { return &net.TCPAddr{} }
func (c24Conn) RemoteAddr() net.Addr             { return &net.TCPAddr{} }
func (c24Conn) SetDeadline(time.Time) error      { return nil }
func (c24Conn) SetReadDeadline(time.Time) error  { return nil }
func (c24Conn) SetWriteDeadline(time.Time) error { return nil }

type c24Ctx struct {
	context.Context
	s  *c24Inst
	cl *c24Client
}

func (c *c24Ctx) Err() error {
	if err := c.Context.Err(); err != nil {
		return err
	}
	if c.s.cache.VerifCondLocked() {
		c.cl.sig <- c24Sig{kind: "blocked"} // buffered: never blocks while the cond mutex is held
	}
	return nil
}

type c24Provider struct {
	s  *c24Inst
	cl *c24Client
}

func (p *c24Provider) CurrentBreadcrumb() *snapcache.Breadcrumb {
	p.cl.sig <- c24Sig{kind: "peek"}
	behind := false
	select {
	case behind = <-p.cl.resume:
	case <-p.cl.ctx.Done():
	}
	real := p.s.cache.CurrentBreadcrumb()
	// only Timestamp (age) and SequenceNumber/KVs.Len (logging) of the peeked crumb are used by the sender
	ts := time.Time{} // age hugely negative: "not behind"
	if behind {
		ts = time.Unix(1<<40, 0) // age saturates: "behind" (MaxFallBehind is MaxInt64, so never "too far behind")
	}
	return &snapcache.Breadcrumb{SequenceNumber: real.SequenceNumber, Timestamp: ts, KVs: real.KVs, SyncStatus: real.SyncStatus}
}

var (
	c24MetricsOnce sync.Once
	c24Metrics     perSyncerConnMetrics
)

func (s *c24Inst) deliverKVs(kvs []syncproto.SerializedUpdate) {
	cl := s.cl
	for _, kv := range kvs {
		u, err := kv.ToUpdate()
		if err != nil {
			cl.badKVs++
			continue
		}
		path := c24Path(u.Key)
		rev, _ := strconv.Atoi(u.Revision)
		if last, ok := cl.lastRev[path]; ok && rev < last {
			s.fail("older-value-after-newer", "client saw %s at revision %d after revision %d within one connection", path, rev, last)
		}
		cl.lastRev[path] = rev
		if u.Value == nil {
			delete(cl.view, path)
		} else {
			cl.view[path] = fmt.Sprint(u.Value)
		}
	}
}

// deliver is SyncerClient.loop's handling of one message from the wire.
func (s *c24Inst) deliver(msg any) {
	cl := s.cl
	cl.msgsSincePeek++
	switch m := msg.(type) {
	case syncproto.MsgKVs:
		s.deliverKVs(m.KVs)
	case syncproto.MsgSyncStatus:
		cl.lastSent = m.SyncStatus
		cl.status = m.SyncStatus
		if m.SyncStatus == api.InSync {
			cl.told = true
			// the view held right now must be some breadcrumb's view that is at least as new as the in-sync snapshot
			ok := false
			for b := cl.joined; b != nil; b = b.VerifNext() {
				if (s.okSync[b.SequenceNumber]) && c24Map(c24Vals(b)) == c24Map(cl.view) {
					ok = true
				}
				if b == cl.crumb {
					break
				}
			}
			if !ok {
				s.fail("insync-too-early", "client told in-sync while holding %s (server sender is at breadcrumb %d), which is older than the snapshot at which the server was in sync", c24Map(cl.view), cl.crumb.SequenceNumber)
			}
		}
	default:
		s.fail("unexpected-message", "unexpected message on the wire: %T", msg)
	}
}

func (s *c24Inst) checkView(key string, b *snapcache.Breadcrumb) {
	cl := s.cl
	if got, want := c24Map(cl.view), c24Map(c24Vals(b)); got != want {
		s.fail(key, "everything up to breadcrumb %d has been sent: client view is %s, the server's view at that breadcrumb is %s", b.SequenceNumber, got, want)
	}
}

func (s *c24Inst) join() {
	ctx, cancel := context.WithCancel(s.ctx)
	cl := &c24Client{ctx: ctx, cancel: cancel, view: map[string]string{}, lastRev: map[string]int{}, phase: 1,
		sig: make(chan c24Sig, 256), resume: make(chan bool), done: make(chan struct{})}
	cl.crumb = s.cache.CurrentBreadcrumb()
	cl.joined = cl.crumb
	cl.iterStart = cl.crumb
	s.cl = cl
	s.joins++
	c24MetricsOnce.Do(func() { c24Metrics = makePerSyncerConnMetrics(syncproto.SyncerTypeFelix) })
	var wire bytes.Buffer
	dec := gob.NewDecoder(&wire)
	h := &connection{
		ID: 1,
		config: &Config{MaxMessageSize: s.p.MaxMsg, MaxFallBehind: time.Duration(math.MaxInt64), NewClientFallBehindGracePeriod: time.Hour,
			MinBatchingAgeThreshold: time.Second, WriteTimeout: time.Hour},
		cxt:                  &c24Ctx{Context: ctx, s: s, cl: cl},
		cancelCxt:            cancel,
		cache:                &c24Provider{s: s, cl: cl},
		syncerType:           syncproto.SyncerTypeFelix,
		conn:                 c24Conn{},
		encoder:              gob.NewEncoder(&wire),
		logCxt:               logrus.WithField("verif", "c24"),
		perSyncerConnMetrics: c24Metrics,
	}
	h.connW = &wire
	h.flushWriter = func() error {
		var env syncproto.Envelope
		if err := dec.Decode(&env); err != nil {
			return err
		}
		cl.sig <- c24Sig{kind: "msg", msg: env.Message}
		select {
		case <-cl.resume:
			return nil
		case <-ctx.Done():
			return ctx.Err()
		}
	}
	h.shutDownWG.Add(1)
	joined := cl.joined
	go func() {
		defer close(cl.done)
		defer func() { cl.sig <- c24Sig{kind: "exit"} }()
		// what connection.handle does after the handshake (no binary-snapshot cache configured)
		if err := h.streamSnapshotToClient(h.logCxt, joined); err != nil {
			h.shutDownWG.Done()
			return
		}
		cl.sig <- c24Sig{kind: "snapdone"}
		h.sendDeltaUpdatesToClient(h.logCxt, joined)
	}()
	s.run()
}

// run lets the connection goroutine proceed until the explorer has a choice to make (next snapshot chunk,
// behind/not-behind answer) or the goroutine waits for the next breadcrumb.
func (s *c24Inst) run() {
	cl := s.cl
	t := time.NewTimer(120 * time.Second) // harness failure detector only
	defer t.Stop()
	for {
		var sg c24Sig
		select {
		case sg = <-cl.sig:
		case <-t.C:
			panic("connection goroutine spins: no message, breadcrumb peek or wait for 120s")
		}
		switch sg.kind {
		case "msg":
			if cl.phase == 1 {
				cl.pendingMsg = sg.msg // snapshot chunk: delivered by the next "snap" event
				cl.hasPending = true
				return
			}
			s.deliver(sg.msg)
			cl.resume <- false
		case "snapdone":
			cl.phase = 2
			s.checkView("snapshot-view-mismatch", cl.joined)
		case "peek":
			nxt := cl.crumb.VerifNext()
			if nxt == nil {
				panic("harness: sender obtained a breadcrumb that does not exist")
			}
			if cl.msgsSincePeek > 0 || !cl.lastBehind {
				// the previous iteration is complete: everything up to cl.crumb has been sent
				s.checkView("delta-view-mismatch", cl.crumb)
				cl.iterStart = cl.crumb
			}
			cl.msgsSincePeek = 0
			cl.crumb = nxt
			cl.parked = "peek"
			return
		case "blocked":
			if cl.crumb.VerifNext() != nil {
				continue // re-check after a wake-up, or the publisher held the mutex: not going to wait
			}
			cl.parked = "blocked"
			// caught up: every message of the last iteration is out
			s.checkView("delta-view-mismatch", cl.crumb)
			cl.iterStart = cl.crumb
			cl.msgsSincePeek = 0
			cl.lastBehind = false
			return
		case "exit":
			cl.parked = "exit"
			s.fail("sender-exited", "the delta sender goroutine terminated although nothing failed")
			return
		}
	}
}

func (s *c24Inst) snap() {
	cl := s.cl
	s.deliver(cl.pendingMsg)
	cl.pendingMsg, cl.hasPending = nil, false
	cl.chunks++
	cl.resume <- false
	s.run()
}

func (s *c24Inst) serve(behind bool) {
	cl := s.cl
	cl.parked = ""
	cl.lastBehind = behind
	cl.resume <- behind
	s.run()
}

func (s *c24Inst) leave() {
	cl := s.cl
	cl.cancel()
	s.cache.VerifWake()
	// Wait until the old connection's goroutine is gone: VerifCondLocked() (how a sender's wait in Next is
	// recognised) must never observe the mutex held by a different, dying sender.
	<-cl.done
	s.cl = nil
}

func c24Apply(s *c24Inst, e c24Ev) {
	switch e.Op {
	case "in":
		s.input(e)
	case "join":
		s.join()
	case "snap":
		s.snap()
	case "serve":
		s.serve(e.J == 2)
	case "leave":
		s.leave()
	default:
		panic("harness: bad op " + e.Op)
	}
}

func c24Inputs(rich bool) []c24Ev {
	var evs []c24Ev
	one := func(k, v string) { evs = append(evs, c24Ev{Op: "in", M: []c24KV{{k, v}}}) }
	one("k1", "1")
	one("k1", "2")
	one("k1", "")
	one("k2", "1")
	one("k2", "!")
	evs = append(evs,
		c24Ev{Op: "in", M: []c24KV{{"k1", "1"}, {"k2", "1"}}},
		c24Ev{Op: "in", M: []c24KV{{"k1", "2"}, {"k2", "2"}, {"k1", "1"}}},
		c24Ev{Op: "in", S: int(api.InSync) + 1},
	)
	if rich {
		one("k2", "2")
		one("k2", "")
		one("k1", "!")
		evs = append(evs,
			c24Ev{Op: "in", M: []c24KV{{"k2", "1"}, {"k1", ""}, {"k1", "1"}}},
			c24Ev{Op: "in", M: []c24KV{{"k1", "2"}, {"k2", ""}}},
			c24Ev{Op: "in", S: int(api.ResyncInProgress) + 1},
			c24Ev{Op: "in", S: int(api.WaitForDatastore) + 1},
		)
	}
	return evs
}

func c24Enabled(s *c24Inst, inputs []c24Ev) []c24Ev {
	var evs []c24Ev
	for _, in := range inputs {
		// the loop goes on slurping only while the running size is below MaxBatchSize: if this message
		// fills the batch the cut is forced, otherwise both continuations exist.
		sz := len(in.M)
		if in.S > 0 {
			sz = 1
		}
		in.Cut = true
		evs = append(evs, in)
		if s.batchSize+sz < s.p.MaxBatch {
			in.Cut = false
			evs = append(evs, in)
		}
	}
	cl := s.cl
	switch {
	case cl == nil:
		if s.joins <= s.p.Rejoins {
			evs = append(evs, c24Ev{Op: "join"})
		}
	case cl.phase == 1:
		evs = append(evs, c24Ev{Op: "snap"}, c24Ev{Op: "leave"})
	default:
		if cl.parked == "peek" {
			evs = append(evs, c24Ev{Op: "serve", J: 1}) // the sender is told it is not behind
			if cl.crumb.VerifNext() != nil {
				evs = append(evs, c24Ev{Op: "serve", J: 2}) // newer breadcrumbs exist and the sender is "behind": it coalesces
			}
		}
		evs = append(evs, c24Ev{Op: "leave"})
	}
	return evs
}

// ---- canonical key: revisions are replaced by their rank (only their order can matter) ----

type c24Ranker struct {
	revs []int
	m    map[int]int
}

func (r *c24Ranker) add(x any) {
	switch v := x.(type) {
	case int:
		r.revs = append(r.revs, v)
	case string:
		n, _ := strconv.Atoi(v)
		r.revs = append(r.revs, n)
	case nil:
	default:
		n, _ := strconv.Atoi(fmt.Sprint(v))
		r.revs = append(r.revs, n)
	}
}

func (r *c24Ranker) rank(x any) int {
	if r.m == nil {
		sort.Ints(r.revs)
		r.m = map[int]int{}
		for _, v := range r.revs {
			if _, ok := r.m[v]; !ok {
				r.m[v] = len(r.m)
			}
		}
	}
	switch v := x.(type) {
	case int:
		return r.m[v]
	case nil:
		return -1
	default:
		n, _ := strconv.Atoi(fmt.Sprint(v))
		return r.m[n]
	}
}

func c24SUs(r *c24Ranker, us []syncproto.SerializedUpdate) string {
	var b strings.Builder
	for _, u := range us {
		v := "nil"
		if u.Value != nil {
			v = string(u.Value)
		}
		fmt.Fprintf(&b, "%s=%s@%d/%d,", u.Key[strings.LastIndex(u.Key, "/")+1:], v, r.rank(u.Revision), u.UpdateType)
	}
	return b.String()
}

func c24Tree(b *snapcache.Breadcrumb) []syncproto.SerializedUpdate {
	var us []syncproto.SerializedUpdate
	b.KVs.Ascend(func(e syncproto.SerializedUpdate) bool { us = append(us, e); return true })
	return us
}

func c24StateKey(s *c24Inst) string {
	r := &c24Ranker{}
	latest := s.cache.CurrentBreadcrumb()
	start := latest
	if s.cl != nil {
		start = s.cl.iterStart
	}
	var chain []*snapcache.Breadcrumb
	for b := start; b != nil; b = b.VerifNext() {
		chain = append(chain, b)
		for _, u := range c24Tree(b) {
			r.add(u.Revision)
		}
		for _, u := range b.Deltas {
			r.add(u.Revision)
		}
	}
	if s.cl != nil {
		for _, v := range s.cl.lastRev {
			r.add(v)
		}
		if m, ok := s.cl.pendingMsg.(syncproto.MsgKVs); ok {
			for _, u := range m.KVs {
				r.add(u.Revision)
			}
		}
		for _, u := range c24Tree(s.cl.joined) {
			r.add(u.Revision)
		}
	}
	for _, m := range s.batch {
		if us, ok := m.([]api.Update); ok {
			for _, u := range us {
				r.add(u.Revision)
			}
		}
	}
	var b strings.Builder
	np, ps := s.cache.VerifPending()
	fmt.Fprintf(&b, "pend%d/%d|ever%v|joins%d|bad%d|", np, ps, s.everSync, s.joins, len(s.bad))
	for i, c := range chain {
		fmt.Fprintf(&b, "crumb[%s;st%d;ok%v;at%v", c24SUs(r, c24Tree(c)), c.SyncStatus, s.okSync[c.SequenceNumber], s.cl != nil && c == s.cl.crumb)
		if i > 0 {
			fmt.Fprintf(&b, ";d:%s", c24SUs(r, c.Deltas))
		}
		b.WriteString("]")
	}
	b.WriteString("|batch:")
	for _, m := range s.batch {
		switch m := m.(type) {
		case api.SyncStatus:
			fmt.Fprintf(&b, "S%d;", m)
		case []api.Update:
			for _, u := range m {
				fmt.Fprintf(&b, "%s=%v@%d/%d,", u.Key, u.Value, r.rank(u.Revision), u.UpdateType)
			}
			b.WriteString(";")
		}
	}
	fmt.Fprintf(&b, "sync%d|all%s|pub%s", s.batchSync, c24Map(s.foldAll), c24Map(s.foldPub))
	if cl := s.cl; cl != nil {
		var lr []string
		for k, v := range cl.lastRev {
			lr = append(lr, fmt.Sprintf("%s@%d", k[strings.LastIndex(k, "/")+1:], r.rank(v)))
		}
		sort.Strings(lr)
		fmt.Fprintf(&b, "|cl ph%d %s view%s last%v st%d told%v sent%d chunks%d bad%d behind%v msgs%d", cl.phase, cl.parked, c24Map(cl.view), lr, cl.status, cl.told, cl.lastSent, cl.chunks, min(cl.badKVs, 1), cl.lastBehind, min(cl.msgsSincePeek, 1))
		if cl.phase == 1 {
			pm := ""
			if m, ok := cl.pendingMsg.(syncproto.MsgKVs); ok {
				pm = c24SUs(r, m.KVs)
			}
			fmt.Fprintf(&b, " joined[%s] pending[%v:%s]", c24SUs(r, c24Tree(cl.joined)), cl.hasPending, pm)
		}
		// are breadcrumbs that told the client in-sync relevant later? only those from joined.. are consulted
		for c := cl.joined; c != nil && c != cl.iterStart; c = c.VerifNext() {
			fmt.Fprintf(&b, " old[%s;ok%v]", c24Map(c24Vals(c)), s.okSync[c.SequenceNumber])
		}
	}
	return b.String()
}

func c24Check(s *c24Inst, hist []c24Ev) []hbfs.Fail {
	fails := append([]hbfs.Fail(nil), s.bad...)
	// a client that has caught up with the newest breadcrumb holds exactly the published datastore view
	if cl := s.cl; cl != nil && cl.phase == 2 && cl.parked == "blocked" && cl.crumb == s.cache.CurrentBreadcrumb() {
		if got, want := c24Map(cl.view), c24Map(s.foldPub); got != want {
			fails = append(fails, hbfs.Fail{Key: "C24:caught-up-client-view-differs", Msg: fmt.Sprintf("caught-up client holds %s, datastore view %s", got, want)})
		}
	}
	return fails
}

func c24Spec(c *vk.Ctx, p c24Params) *hbfs.Spec[*c24Inst, c24Ev] {
	inputs := c24Inputs(p.Rich)
	sp := &hbfs.Spec[*c24Inst, c24Ev]{
		Name:     p.Name,
		New:      func() *c24Inst { return c24New(p) },
		Apply:    c24Apply,
		Enabled:  func(s *c24Inst, d int) []c24Ev { return c24Enabled(s, inputs) },
		Check:    c24Check,
		Key:      c24StateKey,
		Close:    func(s *c24Inst) { s.close() },
		MaxDepth: p.Depth,
		Workers:  8,
		Nontrivial: func(s *c24Inst) bool {
			// a client that joined a non-empty view, or is behind the newest breadcrumb
			cl := s.cl
			return cl != nil && (cl.joined.KVs.Len() > 0 || cl.crumb != s.cache.CurrentBreadcrumb())
		},
		Outcome: func(s *c24Inst) string {
			cl := s.cl
			if cl == nil {
				return "no-client server=" + c24Map(s.foldPub)
			}
			if c != nil && cl.phase == 2 && cl.parked == "blocked" {
				c.Add("caught_up_client_states", 1)
			}
			return fmt.Sprintf("ph%d view=%s told=%v status=%d behind=%v", cl.phase, c24Map(cl.view), cl.told, cl.status, cl.crumb != s.cache.CurrentBreadcrumb())
		},
		PanicKey: func(val string, hist []c24Ev) string {
			v := strings.Map(func(r rune) rune {
				if r >= '0' && r <= '9' {
					return -1
				}
				return r
			}, val)
			if len(v) > 90 {
				v = v[:90]
			}
			if strings.HasPrefix(val, "harness:") {
				return "C24:harness-self-check"
			}
			return "C24:panic:" + v
		},
	}
	if p.Tree {
		sp.Key = nil
	}
	return sp
}

func c24AllSpecs() map[string][]c24Params {
	return map[string][]c24Params{
		"quick": {
			{Name: "typha-b1-m1-graph", MaxBatch: 1, MaxMsg: 1, Depth: 7, Rejoins: 1},
			{Name: "typha-b2-m1-graph", MaxBatch: 2, MaxMsg: 1, Depth: 6, Rejoins: 1},
			{Name: "typha-b2-m2-graph", MaxBatch: 2, MaxMsg: 2, Depth: 5, Rejoins: 1},
			{Name: "typha-b3-m2-rich-graph", MaxBatch: 3, MaxMsg: 2, Depth: 4, Rejoins: 1, Rich: true},
			{Name: "typha-b2-m1-tree", MaxBatch: 2, MaxMsg: 1, Depth: 4, Rejoins: 1, Tree: true},
		},
		"thorough": {
			{Name: "typha-b1-m1-graph-t", MaxBatch: 1, MaxMsg: 1, Depth: 8, Rejoins: 2},
			{Name: "typha-b2-m1-graph-t", MaxBatch: 2, MaxMsg: 1, Depth: 7, Rejoins: 2},
			{Name: "typha-b2-m2-graph-t", MaxBatch: 2, MaxMsg: 2, Depth: 7, Rejoins: 2},
			{Name: "typha-b3-m2-graph-t", MaxBatch: 3, MaxMsg: 2, Depth: 6, Rejoins: 2},
			{Name: "typha-b3-m1-rich-t", MaxBatch: 3, MaxMsg: 1, Depth: 5, Rejoins: 1, Rich: true},
			{Name: "typha-b2-m2-rich-t", MaxBatch: 2, MaxMsg: 2, Depth: 5, Rejoins: 1, Rich: true},
			{Name: "typha-b2-m1-tree-t", MaxBatch: 2, MaxMsg: 1, Depth: 5, Rejoins: 1, Tree: true},
		},
	}
}

func TestVerif_C24(t *testing.T) {
	logrus.SetLevel(logrus.PanicLevel)
	vk.Run(t, "C24", func(c *vk.Ctx) {
		c.Rule("states = (real cache: btree, pending fields, breadcrumb chain from the client's position to the newest incl. deltas/status; batch being slurped; datastore views; client: phase, view, last revision per key, statuses, snapshot chunk in flight), revisions canonicalised to ranks; " +
			"transitions = one upstream message (single/multi-update OnUpdates incl. deletes of absent keys and validation failures, OnStatusUpdated) with or without a batch cut (real publishBreadcrumbs), client join (real writeSnapshotMessages started), one snapshot chunk, one delta step coalescing 1-3 crumbs, leave; " +
			"non-trivial = client joined a non-empty view or is behind the newest breadcrumb")
		c.Assume("the real connection.streamSnapshotToClient/sendDeltaUpdatesToClient/sendMsg run per client; crumb age is the explorer's behind/not-behind answer to the sender's cache peek, MaxFallBehind is MaxInt64 (fall-behind disconnect, grace period not reachable)")
		c.Assume("TLS/sockets, compression restart, binary snapshot cache, ping/pong and the handshake are not explored; the client is SyncerClient.loop's KV/status handling (ToUpdate per KV) fed with the gob-decoded messages")
		c.Assume("batches are exactly those fillBatchFromInputQueue can form for MaxBatchSize in {1,2,3}; MaxMessageSize in {1,2}")
		all := c24AllSpecs()
		if rf := c.ReplayFile(); rf != "" {
			var d struct {
				Spec    string
				History []string
			}
			if err := vk.LoadReplay(rf, &d); err != nil {
				c.ToolError(err.Error())
				return
			}
			for _, ps := range all {
				for _, p := range ps {
					if p.Name == d.Spec {
						p.Depth = 999
						fails, err := hbfs.Replay(c24Spec(nil, p), d.History)
						if err != nil {
							c.ToolError(err.Error())
						}
						for _, f := range fails {
							c.Violation(f.Key, map[string]any{"spec": d.Spec, "history": d.History, "msg": f.Msg})
						}
						c.Add("states", 1)
						c.Add("transitions", int64(len(d.History)))
						return
					}
				}
			}
			c.ToolError("replay: unknown spec " + d.Spec)
			return
		}
		c.Sample(map[string]any{"spec": "typha-b2-m1-graph", "history": []string{
			`{"Op":"in","M":[{"K":"k1","V":"1"},{"K":"k2","V":"1"}],"Cut":true}`, `{"Op":"join"}`, `{"Op":"snap"}`,
			`{"Op":"in","M":[{"K":"k1","V":"2"}],"Cut":true}`, `{"Op":"snap"}`, `{"Op":"in","S":3,"Cut":true}`, `{"Op":"serve","J":2}`, `{"Op":"serve","J":1}`},
			"expect": "client joins at {k1=1,k2=1}, a publication lands between its two snapshot chunks; the real delta sender then sends k1=2 and, after the next breadcrumb, the in-sync status"})
		for _, p := range all[c.Tier()] {
			if c.Expired() {
				c.Capped("deadline before " + p.Name)
				break
			}
			hbfs.Explore(c, c24Spec(c, p))
		}
	})
}

package polprog

// Shared start-up code of the BPF checks (C11, C13): rebuilds the clang artefacts from the CURRENT
// tree with tools/build_bpf.sh and loads the layout probes. Any failure here is a tool error.

import (
	"fmt"
	"os"
	"os/exec"
	"path/filepath"
	"strings"

	"github.com/projectcalico/calico/zzverif/ebpf"
)

func verifDir() string {
	if v := os.Getenv("VERIF_DIR"); v != "" {
		return v
	}
	return "/verif"
}

// bpfBuild runs build_bpf.sh into a per-check, per-tree output directory and returns it.
func bpfBuild(prop string) (string, error) {
	repo := os.Getenv("VERIF_REPO")
	if repo == "" {
		repo = "/repo"
	}
	out := filepath.Join(verifDir(), "build", "bpf", prop)
	if real, _ := filepath.EvalSymlinks(repo); real != "/repo" {
		// scratch tree (mutant / seeded runs): a private directory that no other run's clean-up touches;
		// callers remove it with bpfCleanup once the objects are loaded
		if err := os.MkdirAll(filepath.Join(verifDir(), "build", "bpf-scratch"), 0o755); err != nil {
			return "", err
		}
		tmp, err := os.MkdirTemp(filepath.Join(verifDir(), "build", "bpf-scratch"), prop+"-")
		if err != nil {
			return "", err
		}
		out = tmp
	}
	cmd := exec.Command(filepath.Join(verifDir(), "tools", "build_bpf.sh"), out)
	cmd.Env = append(os.Environ(), "VERIF_REPO="+repo)
	b, err := cmd.CombinedOutput()
	if err != nil {
		s := string(b)
		if len(s) > 3000 {
			s = s[len(s)-3000:]
		}
		return "", fmt.Errorf("build_bpf.sh failed: %v\n%s", err, s)
	}
	return out, nil
}

// bpfCleanup removes a scratch build directory (no-op for the directory of the real tree).
func bpfCleanup(dir string) {
	if strings.Contains(dir, string(filepath.Separator)+"bpf-scratch"+string(filepath.Separator)) {
		_ = os.RemoveAll(dir)
	}
}

func loadLayouts(dir string) (v4, v6 *ebpf.Layout, err error) {
	if v4, err = ebpf.ReadLayout(filepath.Join(dir, "layout_v4.o")); err != nil {
		return
	}
	v6, err = ebpf.ReadLayout(filepath.Join(dir, "layout_v6.o"))
	return
}

package consistenthash

// C33 — Maglev lookup tables are complete, balanced and node-independent (insertion order and CPU
// byte order). The build rewrites `binary.NativeEndian` in consistenthash.go to the variable below, so the
// same current source can be run "as built on" a little-endian and a big-endian node.

import (
	"encoding/binary"
	"fmt"
	"hash/fnv"
	"os"
	"path/filepath"
	"sort"
	"strings"
	"testing"

	"github.com/sirupsen/logrus"
	k8sp "k8s.io/kubernetes/pkg/proxy"

	mock "github.com/projectcalico/calico/felix/bpf/consistenthash/test"
	"github.com/projectcalico/calico/felix/config"
	"github.com/projectcalico/calico/zzverif/vk"
)

// c33ByteOrder stands in for binary.NativeEndian inside hashFromString (see target.json "rewrites").
var c33ByteOrder binary.ByteOrder = binary.NativeEndian

func c33EP(s string) k8sp.Endpoint {
	i := strings.LastIndex(s, ":")
	var port uint16
	fmt.Sscanf(s[i+1:], "%d", &port)
	return mock.MockEndpoint{Ip: strings.Trim(s[:i], "[]"), Prt: port, Ready: true, Serving: true}
}

var c33Base = []string{"10.0.0.1:80", "10.0.0.2:80", "10.0.0.1:8080", "[fd00::1]:80", "10.0.0.10:80", "192.168.1.1:443"}

// c33Table generates the table for the backends added in the given order (indices may repeat, -1 = nil).
func c33Table(m int, eps []k8sp.Endpoint, order []int) (tbl []string, err error) {
	err = vk.Catch(func() error {
		ch := New(m, fnv.New32(), fnv.New32())
		for _, i := range order {
			if i < 0 {
				ch.AddBackend(nil)
				continue
			}
			ch.AddBackend(eps[i])
		}
		lut := ch.Generate()
		tbl = make([]string, len(lut))
		for i, e := range lut {
			if e != nil {
				tbl[i] = e.String()
			}
		}
		return nil
	})
	return
}

func c33Orders(n int) [][]int {
	ident := make([]int, n)
	for i := range ident {
		ident[i] = i
	}
	var out [][]int
	if n <= 4 {
		var rec func(cur []int, used int)
		rec = func(cur []int, used int) {
			if len(cur) == n {
				out = append(out, append([]int(nil), cur...))
				return
			}
			for i := 0; i < n; i++ {
				if used&(1<<i) == 0 {
					rec(append(cur, i), used|1<<i)
				}
			}
		}
		rec(nil, 0)
	} else {
		rots := n
		if n > 8 {
			rots = 3
		}
		for r := 0; r < rots; r++ {
			o := make([]int, n)
			for i := range o {
				o[i] = (i + r*(n/rots+1)) % n
			}
			out = append(out, o)
		}
		rev := make([]int, n)
		for i := range rev {
			rev[i] = n - 1 - i
		}
		out = append(out, rev)
	}
	// awkward calls: duplicates and nil
	dup := append(append([]int{-1}, ident...), ident[0], -1)
	if n > 1 {
		dup = append(dup, ident[n-1])
	}
	out = append(out, dup)
	return out
}

func c33Diff(a, b []string) string {
	if len(a) != len(b) {
		return fmt.Sprintf("lengths %d vs %d", len(a), len(b))
	}
	n, first := 0, -1
	for i := range a {
		if a[i] != b[i] {
			if first < 0 {
				first = i
			}
			n++
		}
	}
	if n == 0 {
		return ""
	}
	return fmt.Sprintf("%d of %d slots differ, first at slot %d: %s vs %s", n, len(a), first, a[first], b[first])
}

func TestVerif_C33(t *testing.T) {
	logrus.SetLevel(logrus.PanicLevel)
	vk.Run(t, "C33", func(c *vk.Ctx) {
		c.Rule("configurations = (table size m, backend set): m = config.BPFLUTSizeMaglev() for every BPFMaglevMaxEndpointsPerService in {1..8,100,3000} (quick) / 1..3000 (thorough), and in both tiers every size reachable from 1..3000 is tested for primality (a composite size is reported with a single-backend table that cannot be generated); " +
			"backend sets = all 63 non-empty subsets of 6 endpoints for m <= 600 (7 chosen subsets above) + sets of 16, 100 and m+3 generated endpoints; " +
			"per configuration the real AddBackend/Generate is run for every insertion order (all permutations up to 4 backends, rotations + reversal above, + a sequence with duplicates and nil) " +
			"and for the byte orders native / little-endian / big-endian; states = configurations, transitions = Generate runs; non-trivial = >=2 backends")
		c.Assume("binary.NativeEndian in hashFromString is the package's only architecture-dependent construct; it is replaced by a variable at build time (no-op if the source no longer contains it)")
		c.Assume("int is 64 bits (amd64, arm64, ppc64le, s390x)")

		// is the byte-order knob live?
		// (probed through the public API only, so the harness keeps building when internals are refactored)
		probe := func(o binary.ByteOrder) string {
			c33ByteOrder = o
			eps := []k8sp.Endpoint{c33EP(c33Base[0]), c33EP(c33Base[1]), c33EP(c33Base[2])}
			t, _ := c33Table(503, eps, []int{0, 1, 2})
			return strings.Join(t, ",")
		}
		live := probe(binary.LittleEndian) != probe(binary.BigEndian)
		c33ByteOrder = binary.NativeEndian
		c.Extra("byte_order_knob_live", live)
		if !live {
			fmt.Println("INFO C33 hashFromString no longer depends on binary.NativeEndian: byte-order runs are identical by construction")
		}

		// the simulation models exactly one architecture-dependent construct; say so if the source has others
		if src, err := os.ReadFile(filepath.Join(os.Getenv("VERIF_REPO"), "felix/bpf/consistenthash/consistenthash.go")); err == nil {
			var other []string
			for _, pat := range []string{"unsafe.", "runtime.GOARCH", "nativeEndian", "bits.UintSize", "uintptr"} {
				if strings.Contains(string(src), pat) {
					other = append(other, pat)
				}
			}
			c.Extra("source_uses_NativeEndian", strings.Contains(string(src), "binary.NativeEndian"))
			if len(other) > 0 {
				c.NotExhaustive(fmt.Sprintf("consistenthash.go contains further architecture-dependent constructs %v that the byte-order simulation does not model", other))
			}
		} else {
			c.Assume("could not read the package source to look for further architecture-dependent constructs: " + err.Error())
		}

		// table sizes from the real config code
		cfg := config.New()
		sizes := map[int]int{} // m -> smallest max-endpoints value that yields it
		var ns []int
		if c.Quick() {
			ns = []int{1, 2, 3, 4, 5, 6, 7, 8, 100, 3000}
		} else {
			for n := 1; n <= 3000; n++ {
				ns = append(ns, n)
			}
		}
		for _, n := range ns {
			cfg.BPFMaglevMaxEndpointsPerService = n
			m := cfg.BPFLUTSizeMaglev()
			if _, ok := sizes[m]; !ok {
				sizes[m] = n
			}
		}
		var ms []int
		for m := range sizes {
			ms = append(ms, m)
		}
		sort.Ints(ms)

		// EVERY table size the configuration range can yield (both tiers): the permutation scheme fills the table for
		// every backend set only if the size is prime. A composite size is reported with a concrete witness: a single
		// backend whose table cannot be generated.
		reach := map[int]int{}
		for n := 1; n <= 3000; n++ {
			cfg.BPFMaglevMaxEndpointsPerService = n
			m := cfg.BPFLUTSizeMaglev()
			if _, ok := reach[m]; !ok {
				reach[m] = n
			}
			if m < n {
				c.Violation("C33:table-smaller-than-max-endpoints", map[string]any{"max_endpoints_per_service": n, "table_size": m})
			}
		}
		c.Extra("reachable_table_sizes", len(reach))
		composite := 0
		for m, n := range reach {
			f := 0
			for d := 2; d*d <= m; d++ {
				if m%d == 0 {
					f = d
					break
				}
			}
			if f == 0 && m >= 2 {
				continue
			}
			composite++
			c.Outcome("composite table size reachable")
			// look for a backend that cannot be placed
			found := false
			for i := 0; i < 4000 && !found; i++ {
				name := fmt.Sprintf("10.0.%d.%d:%d", i/250, i%250+1, 8080)
				one := []k8sp.Endpoint{c33EP(name)}
				tbl, err := c33Table(m, one, []int{0})
				bad := err != nil
				for _, s := range tbl {
					if s == "" {
						bad = true
					}
				}
				if bad {
					found = true
					d := map[string]any{"table_size": m, "smallest_factor": f, "max_endpoints_per_service": n, "backends": name}
					if err != nil {
						d["panic"] = err.Error()
					}
					c.Violation("C33:composite-table-size-cannot-be-filled", d)
				}
			}
			if !found {
				fmt.Printf("INFO C33 configured table size %d is composite (factor %d) but no failing backend was found among 4000 names\n", m, f)
			}
		}
		c.Extra("composite_reachable_table_sizes", composite)
		c.Extra("table_sizes", len(ms))
		c.Extra("table_size_range", []int{ms[0], ms[len(ms)-1]})

		base := make([]k8sp.Endpoint, len(c33Base))
		for i, s := range c33Base {
			base[i] = c33EP(s)
		}
		gen := func(n int) []k8sp.Endpoint {
			out := make([]k8sp.Endpoint, n)
			for i := range out {
				out[i] = c33EP(fmt.Sprintf("10.%d.%d.%d:%d", i/65536, i/256%256, i%256, 80+i%3))
			}
			return out
		}
		var states, trans int64
		sampled := false
		check := func(m int, eps []k8sp.Endpoint, label string) {
			states++
			names := map[string]bool{}
			for _, e := range eps {
				names[e.String()] = true
			}
			detail := func(extra map[string]any) map[string]any {
				d := map[string]any{"table_size": m, "max_endpoints_per_service": sizes[m], "backends": label}
				for k, v := range extra {
					d[k] = v
				}
				return d
			}
			ident := make([]int, len(eps))
			for i := range ident {
				ident[i] = i
			}
			c33ByteOrder = binary.NativeEndian
			ref, err := c33Table(m, eps, ident)
			trans++
			if err != nil {
				c.Violation("C33:panic-in-generate", detail(map[string]any{"panic": err.Error()}))
				return
			}
			if len(eps) >= 2 {
				c.Nontrivial(fmt.Sprintf("%d|%s", m, label))
			}
			// complete + only given backends + balanced
			if len(ref) != m {
				c.Violation("C33:table-length", detail(map[string]any{"len": len(ref)}))
				return
			}
			counts := map[string]int{}
			for i, s := range ref {
				if s == "" {
					c.Violation("C33:unfilled-slot", detail(map[string]any{"slot": i}))
					return
				}
				if !names[s] {
					c.Violation("C33:foreign-backend-in-table", detail(map[string]any{"slot": i, "backend": s}))
					return
				}
				counts[s]++
			}
			lo, hi := m/len(names), (m+len(names)-1)/len(names)
			for s := range names {
				if n := counts[s]; n < lo || n > hi {
					c.Violation("C33:share-outside-maglev-bound", detail(map[string]any{"backend": s, "slots": n, "floor": lo, "ceil": hi}))
					return
				}
			}
			c.Outcome(fmt.Sprintf("backends<=slots=%v floor=ceil=%v", len(names) <= m, lo == hi))
			// insertion order, duplicates, nil
			orders := c33Orders(len(eps))
			for oi, o := range orders {
				tbl, err := c33Table(m, eps, o)
				trans++
				if err != nil {
					c.Violation("C33:panic-in-generate", detail(map[string]any{"order": o, "panic": err.Error()}))
					return
				}
				if d := c33Diff(ref, tbl); d != "" {
					key := "C33:insertion-order-dependent-table"
					if oi == len(orders)-1 {
						key = "C33:duplicate-or-nil-add-changes-table"
					}
					c.Violation(key, detail(map[string]any{"order": o, "diff": d}))
					return
				}
			}
			// CPU byte order
			for _, bo := range []binary.ByteOrder{binary.LittleEndian, binary.BigEndian} {
				c33ByteOrder = bo
				tbl, err := c33Table(m, eps, ident)
				trans++
				c33ByteOrder = binary.NativeEndian
				if err != nil {
					c.Violation("C33:panic-in-generate", detail(map[string]any{"byte_order": bo.String(), "panic": err.Error()}))
					return
				}
				if d := c33Diff(ref, tbl); d != "" {
					c.Violation("C33:endianness-dependent-hash", detail(map[string]any{"byte_order": bo.String(), "native": binary.NativeEndian.String(), "diff": d}))
					c.Outcome("table differs between byte orders")
				} else if len(eps) > 1 {
					c.Outcome("table identical for " + bo.String())
				}
			}
			if !sampled && len(eps) == 3 {
				sampled = true
				c.Sample(map[string]any{"table_size": m, "backends": label, "table": ref, "orders_tried": len(c33Orders(len(eps))), "byte_orders": []string{"native", "LittleEndian", "BigEndian"}})
			}
		}
		for _, m := range ms {
			if c.Expired() {
				c.Capped("deadline before table size " + fmt.Sprint(m))
				break
			}
			var masks []int
			if m <= 600 {
				for mask := 1; mask < 64; mask++ {
					masks = append(masks, mask)
				}
			} else {
				masks = []int{1, 32, 3, 5, 7, 0x2a, 63}
			}
			for _, mask := range masks {
				var eps []k8sp.Endpoint
				var lab []string
				for i := 0; i < 6; i++ {
					if mask&(1<<i) != 0 {
						eps = append(eps, base[i])
						lab = append(lab, c33Base[i])
					}
				}
				check(m, eps, strings.Join(lab, ","))
			}
			check(m, gen(16), "16 generated endpoints")
			if m <= 600 || sizes[m] == 3000 || c.Thorough() && m%7 == 0 {
				check(m, gen(100), "100 generated endpoints")
			}
			if m <= 50 {
				check(m, gen(m+3), fmt.Sprintf("%d generated endpoints (more than slots)", m+3))
				check(m, gen(m), fmt.Sprintf("%d generated endpoints (one slot each)", m))
			}
			if sizes[m] == 3000 {
				check(m, gen(3000), "3000 generated endpoints")
			}
		}
		c.Add("states", states)
		c.Add("transitions", trans)
		fmt.Printf("enum C33 table sizes=%d configurations=%d generate-runs=%d knob-live=%v\n", len(ms), states, trans, live)
	})
}

package hc45

// C45 — every node elects the same owner for a load-balancer address: the ring's Lookup result is
// one of the current members and depends only on the current member set, not on the history of
// insertions/removals/lookups. Black-box (hashring lives in another Go module).

import (
	"fmt"
	"sort"
	"strings"
	"testing"

	"github.com/zeebo/xxh3"

	"github.com/projectcalico/calico/lib/datastructures/hashring"
	"github.com/projectcalico/calico/zzverif/hbfs"
	"github.com/projectcalico/calico/zzverif/vk"
)

var c45Nodes = []string{"n1", "n2", "n3", "n4"}
var c45Keys = []string{"k1", "k2", "k3"}

type c45Cfg struct {
	Replicas, Probes int
	Hash             string
	Nodes            int // members n1..nNodes
}

func (g c45Cfg) String() string {
	return fmt.Sprintf("r%d-p%d-%s-%dn", g.Replicas, g.Probes, g.Hash, g.Nodes)
}

func c45Hash(name string) hashring.Hash {
	switch name {
	case "xxh3":
		return nil // default
	case "fold4":
		return func(b []byte) uint64 { return xxh3.Hash(b) % 4 }
	case "const":
		return func(b []byte) uint64 { return 7 }
	case "wrap":
		// three values hugging the wrap-around point of the ring
		return func(b []byte) uint64 { return ^uint64(0) - 1 + xxh3.Hash(b)%3 }
	}
	panic("bad hash " + name)
}

func (g c45Cfg) newRing() *hashring.Ring[string] {
	opts := []hashring.Option{hashring.WithReplicas(g.Replicas), hashring.WithProbes(g.Probes)}
	if h := c45Hash(g.Hash); h != nil {
		opts = append(opts, hashring.WithHash(h))
	}
	return hashring.New[string](opts...)
}

type c45Ev struct {
	Op string // ins rem look
	K  string
	V  int
}

func (e c45Ev) String() string { return fmt.Sprintf("%s:%s:%d", e.Op, e.K, e.V) }

type c45State struct {
	cfg  c45Cfg
	ring *hashring.Ring[string]
	live map[string]string // member -> current value
	// shadow of the ring's hidden bookkeeping (graph-mode key only)
	pending map[string]bool // removed but not yet swept by an effective Lookup
	ghost   map[string]bool // members whose virtual nodes are (still) in the table
	sorted  bool
	// last Lookup performed as an event
	lastKey string
	lastVal string
	lastOK  bool
	hasLast bool
}

func c45Events(nodes int) []c45Ev {
	var evs []c45Ev
	for _, n := range c45Nodes[:nodes] {
		evs = append(evs, c45Ev{Op: "ins", K: n, V: 1}, c45Ev{Op: "ins", K: n, V: 2}, c45Ev{Op: "rem", K: n})
	}
	evs = append(evs, c45Ev{Op: "rem", K: "n9"}) // never inserted
	for _, k := range c45Keys {
		evs = append(evs, c45Ev{Op: "look", K: k})
	}
	return evs
}

func c45Val(n string, v int) string { return fmt.Sprintf("%s#%d", n, v) }

func c45Apply(s *c45State, e c45Ev) {
	s.hasLast = false
	switch e.Op {
	case "ins":
		s.ring.Insert(e.K, c45Val(e.K, e.V))
		s.live[e.K] = c45Val(e.K, e.V)
		if s.pending[e.K] {
			delete(s.pending, e.K)
		} else if !s.ghost[e.K] {
			s.ghost[e.K] = true
			s.sorted = false
		}
	case "rem":
		s.ring.Remove(e.K)
		if _, ok := s.live[e.K]; ok {
			delete(s.live, e.K)
			s.pending[e.K] = true
		}
	case "look":
		s.lastVal, s.lastOK = s.ring.Lookup(e.K)
		s.lastKey, s.hasLast = e.K, true
		if len(s.live) > 0 {
			for k := range s.pending {
				delete(s.ghost, k)
			}
			s.pending = map[string]bool{}
			s.sorted = true
		}
	default:
		panic("bad op")
	}
}

func c45Sorted(m map[string]bool) string {
	ks := make([]string, 0, len(m))
	for k := range m {
		ks = append(ks, k)
	}
	sort.Strings(ks)
	return strings.Join(ks, ",")
}

func c45Live(s *c45State) string {
	ks := make([]string, 0, len(s.live))
	for k, v := range s.live {
		ks = append(ks, k+"="+v)
	}
	sort.Strings(ks)
	return strings.Join(ks, ",")
}

func c45Key(s *c45State) string {
	return fmt.Sprintf("%s|p:%s|g:%s|s:%v|%v:%s:%s:%v", c45Live(s), c45Sorted(s.pending), c45Sorted(s.ghost), s.sorted, s.hasLast, s.lastKey, s.lastVal, s.lastOK)
}

// c45Fresh returns the owner a ring built from scratch from the live set elects (nodes inserted in
// sorted or reversed order).
func c45Fresh(s *c45State, reversed bool, key string) (string, bool) {
	ks := make([]string, 0, len(s.live))
	for k := range s.live {
		ks = append(ks, k)
	}
	sort.Strings(ks)
	if reversed {
		for i, j := 0, len(ks)-1; i < j; i, j = i+1, j-1 {
			ks[i], ks[j] = ks[j], ks[i]
		}
	}
	r := s.cfg.newRing()
	for _, k := range ks {
		r.Insert(k, s.live[k])
	}
	return r.Lookup(key)
}

func c45Check(s *c45State, hist []c45Ev) []hbfs.Fail {
	var fails []hbfs.Fail
	add := func(key, f string, a ...any) {
		fails = append(fails, hbfs.Fail{Key: "C45:" + key, Msg: s.cfg.String() + " live{" + c45Live(s) + "}: " + fmt.Sprintf(f, a...)})
	}
	one := func(tag, key, got string, ok bool) {
		if ok != (len(s.live) > 0) {
			add(tag+"ok-flag", "Lookup(%s) ok=%v with %d live members", key, ok, len(s.live))
			return
		}
		if !ok {
			if got != "" {
				add(tag+"zero-value", "Lookup(%s) on an empty ring returned %q", key, got)
			}
			return
		}
		member := strings.SplitN(got, "#", 2)[0]
		if cur, isLive := s.live[member]; !isLive {
			add(tag+"owner-not-a-member", "Lookup(%s)=%q which is not a current member", key, got)
			return
		} else if cur != got {
			add(tag+"stale-value", "Lookup(%s)=%q but the member's current value is %q", key, got, cur)
			return
		}
		for _, rev := range []bool{false, true} {
			fv, fok := c45Fresh(s, rev, key)
			if !fok || fv != got {
				add(tag+"history-dependent-owner", "Lookup(%s)=%q but a ring built fresh from the live set (reversed=%v) elects %q", key, got, rev, fv)
				return
			}
		}
	}
	// the Lookup that was executed as an event, on the un-normalised ring
	if s.hasLast {
		one("event-lookup:", s.lastKey, s.lastVal, s.lastOK)
	}
	if n := s.ring.Len(); n != len(s.live) {
		add("len", "Len()=%d want %d", n, len(s.live))
	}
	// full sweep (mutates only this throw-away instance; successors are rebuilt from the history)
	for _, k := range c45Keys {
		v, ok := s.ring.Lookup(k)
		one("sweep-lookup:", k, v, ok)
	}
	if n := s.ring.Len(); n != len(s.live) {
		add("len", "Len()=%d want %d after lookups", n, len(s.live))
	}
	return fails
}

func c45Spec(g c45Cfg, depth int, tree bool) *hbfs.Spec[*c45State, c45Ev] {
	evs := c45Events(g.Nodes)
	mode := "graph"
	if tree {
		mode = "tree"
	}
	sp := &hbfs.Spec[*c45State, c45Ev]{
		Name: "ring-" + g.String() + "-" + mode,
		New: func() *c45State {
			return &c45State{cfg: g, ring: g.newRing(), live: map[string]string{}, pending: map[string]bool{}, ghost: map[string]bool{}}
		},
		Apply:    c45Apply,
		Enabled:  func(s *c45State, d int) []c45Ev { return evs },
		Key:      c45Key,
		Check:    c45Check,
		MaxDepth: depth,
		Workers:  6,
		Quiet:    true,
		Nontrivial: func(s *c45State) bool {
			// a lookup against >= 2 live members with removals pending or fresh unsorted inserts
			return len(s.live) >= 2 && (len(s.pending) > 0 || !s.sorted)
		},
		Outcome: func(s *c45State) string {
			if !s.hasLast {
				return ""
			}
			return fmt.Sprintf("%s live=%d pending=%d owner=%s", g.Hash, len(s.live), len(s.pending), strings.SplitN(s.lastVal, "#", 2)[0])
		},
		PanicKey: func(val string, hist []c45Ev) string { return "C45:panic" },
	}
	if tree {
		sp.Key = nil
	}
	return sp
}

func c45Configs(nodes int) []c45Cfg {
	var out []c45Cfg
	for _, h := range []string{"xxh3", "fold4", "const", "wrap"} {
		for r := 1; r <= 3; r++ {
			for p := 1; p <= 3; p++ {
				out = append(out, c45Cfg{Replicas: r, Probes: p, Hash: h, Nodes: nodes})
			}
		}
	}
	return out
}

// ---- large-ring slice: production-sized tables (>= ~1000 virtual nodes) -----------------------------

type c45LargeCfg struct{ Replicas, Probes, Nodes int }

type c45Op struct {
	Op string // nop | ins | rem
	K  string
	V  int
}

func (o c45Op) String() string { return fmt.Sprintf("%s:%s:%d", o.Op, o.K, o.V) }

// c45LargeRun builds the ring (members m00.. inserted, optional warm-up Lookup), then applies batches of membership
// operations, each batch followed by Lookups of every key; every answer must equal a ring built fresh from the live set.
func c45LargeRun(c *vk.Ctx, g c45LargeCfg, warm bool, batches [][]c45Op, keys []string) (lookups int64) {
	r := hashring.New[string](hashring.WithReplicas(g.Replicas), hashring.WithProbes(g.Probes))
	live := map[string]string{}
	for i := 0; i < g.Nodes; i++ {
		k := fmt.Sprintf("m%02d", i)
		r.Insert(k, c45Val(k, 1))
		live[k] = c45Val(k, 1)
	}
	if warm {
		r.Lookup("warmup")
	}
	for bi, b := range batches {
		for _, o := range b {
			switch o.Op {
			case "ins":
				r.Insert(o.K, c45Val(o.K, o.V))
				live[o.K] = c45Val(o.K, o.V)
			case "rem":
				r.Remove(o.K)
				delete(live, o.K)
			}
		}
		// fresh rings over the live set, sorted and reversed insertion order
		names := make([]string, 0, len(live))
		for k := range live {
			names = append(names, k)
		}
		sort.Strings(names)
		f1 := hashring.New[string](hashring.WithReplicas(g.Replicas), hashring.WithProbes(g.Probes))
		f2 := hashring.New[string](hashring.WithReplicas(g.Replicas), hashring.WithProbes(g.Probes))
		for i := range names {
			f1.Insert(names[i], live[names[i]])
			f2.Insert(names[len(names)-1-i], live[names[len(names)-1-i]])
		}
		detail := func(msg string) map[string]any {
			var hs [][]string
			for _, bb := range batches[:bi+1] {
				var h []string
				for _, o := range bb {
					h = append(h, o.String())
				}
				hs = append(hs, h)
			}
			return map[string]any{"large_ring": fmt.Sprintf("replicas=%d probes=%d members=%d warmup=%v", g.Replicas, g.Probes, g.Nodes, warm), "batches": hs, "msg": msg}
		}
		if r.Len() != len(live) {
			c.Violation("C45:large-ring:len", detail(fmt.Sprintf("Len()=%d want %d", r.Len(), len(live))))
		}
		bad, first := 0, ""
		for _, k := range keys {
			got, ok := r.Lookup(k)
			w1, ok1 := f1.Lookup(k)
			w2, ok2 := f2.Lookup(k)
			lookups++
			if ok != ok1 || ok != ok2 || got != w1 || got != w2 {
				if bad == 0 {
					first = fmt.Sprintf("Lookup(%s)=%q,%v but rings built fresh from the same %d members elect %q / %q", k, got, ok, len(live), w1, w2)
				}
				bad++
			} else if ok && live[strings.SplitN(got, "#", 2)[0]] != got {
				c.Violation("C45:large-ring:owner-not-a-current-member", detail(fmt.Sprintf("Lookup(%s)=%q", k, got)))
			}
		}
		if bad > 0 {
			c.Violation("C45:large-ring:history-dependent-owner", detail(fmt.Sprintf("%d of %d keys: %s", bad, len(keys), first)))
			c.Outcome("large ring: owner differs from fresh ring")
			return
		}
		c.Outcome(fmt.Sprintf("large ring: batch %d agrees with fresh ring", bi))
	}
	return
}

func c45Large(c *vk.Ctx) {
	cfgs := []c45LargeCfg{{100, 1, 11}, {100, 1, 12}, {128, 2, 8}, {100, 3, 10}, {10, 10, 110}}
	if c.Quick() {
		cfgs = cfgs[:4]
	}
	var keys []string
	for i := 0; i < c.Pick(48, 256); i++ {
		keys = append(keys, fmt.Sprintf("10.%d.%d.%d", i%7, i/16, i*37%256))
	}
	var runs, lookups int64
	for _, g := range cfgs {
		// full alphabet: remove any member, insert either of two newcomers, re-insert a member with a new value
		full := []c45Op{{Op: "nop"}, {Op: "ins", K: "x1", V: 1}, {Op: "ins", K: "x2", V: 1}, {Op: "ins", K: "m00", V: 2}, {Op: "rem", K: "x1"}}
		for i := 0; i < g.Nodes; i++ {
			if g.Nodes > 16 && i%10 != 3 {
				continue
			}
			full = append(full, c45Op{Op: "rem", K: fmt.Sprintf("m%02d", i)})
		}
		small := []c45Op{{Op: "nop"}, {Op: "ins", K: "x1", V: 1}, {Op: "ins", K: "x2", V: 1}, {Op: "rem", K: "m03"}, {Op: "rem", K: fmt.Sprintf("m%02d", g.Nodes-1)}, {Op: "rem", K: "x1"}, {Op: "ins", K: "m03", V: 2}}
		for _, warm := range []bool{true, false} {
			// one batch of every single and every ordered pair of operations between two rounds of Lookups
			for _, a := range full {
				for _, b := range full {
					if c.Expired() {
						c.Capped("deadline during the large-ring slice")
						return
					}
					lookups += c45LargeRun(c, g, warm, [][]c45Op{{a, b}}, keys)
					runs++
				}
			}
			// two consecutive batches (pairs from a reduced alphabet), Lookups after each
			for _, a := range small {
				for _, b := range small {
					for _, a2 := range small {
						for _, b2 := range small {
							if c.Quick() && (a2.Op == "nop" || b.Op == "nop") {
								continue // quick: skip the combinations already covered by shorter histories
							}
							if c.Expired() {
								c.Capped("deadline during the large-ring slice")
								return
							}
							lookups += c45LargeRun(c, g, warm, [][]c45Op{{a, b}, {a2, b2}}, keys)
							runs++
						}
					}
				}
			}
		}
	}
	c.Add("states", runs)
	c.Add("transitions", lookups)
	c.Extra("large_ring_histories", runs)
	fmt.Printf("enum ring large-ring slice: %d configs, %d histories, %d lookups compared with fresh rings\n", len(cfgs), runs, lookups)
}

func TestVerif_C45(t *testing.T) {
	vk.Run(t, "C45", func(c *vk.Ctx) {
		c.Rule("states = (member -> value, pending-removal set, members with virtual nodes in the table, sorted flag, last event-Lookup result) of the real hashring.Ring[string] " +
			"for each of 36 configurations (replicas 1-3 x probes 1-3 x hash real/folded-to-4-values/constant/wrap-around); transitions = one real Insert (2 value versions) / Remove (incl. absent member) / Lookup " +
			"over members n1..n4 and keys k1..k3, replayed on a fresh ring; non-trivial = >=2 live members with removals pending or unsorted inserts; oracle = fresh ring from the live set (sorted and reversed insertion order); " +
			"large-ring slice (real XXH3, replicas 100/128, 8-12 members = 1000-1200 virtual nodes, with and without warm-up Lookup): every single and every ordered pair of membership operations (remove any member, insert newcomers, re-insert with a new value) applied between Lookups, and every two consecutive such batches from a 7-operation alphabet, each followed by Lookups of a fixed key set compared with fresh rings")
		c.Assume("graph-mode key is a black-box shadow of the ring's hidden bookkeeping; tree mode (no merging) is run as well and does not rely on it")
		if rf := c.ReplayFile(); rf != "" {
			var d struct {
				Spec    string
				History []string
			}
			if err := vk.LoadReplay(rf, &d); err != nil {
				c.ToolError(err.Error())
				return
			}
			if d.Spec == "" {
				// large-ring slice violations carry their batches; the slice is cheap enough to re-enumerate
				c45Large(c)
				return
			}
			for _, g := range append(c45Configs(3), c45Configs(4)...) {
				sp := c45Spec(g, 99, false)
				if !strings.HasPrefix(d.Spec, "ring-"+g.String()+"-") {
					continue
				}
				fails, err := hbfs.Replay(sp, d.History)
				if err != nil {
					c.ToolError(err.Error())
				}
				for _, f := range fails {
					c.Violation(f.Key, map[string]any{"spec": d.Spec, "history": d.History, "msg": f.Msg})
				}
				c.Add("states", 1)
				c.Add("transitions", int64(len(d.History)))
				return
			}
			c.ToolError("replay: unknown spec " + d.Spec)
			return
		}
		c.Sample(map[string]any{"config": "r2-p2-fold4-4n", "history": []string{"ins:n1:1", "ins:n2:1", "look:k1:0", "rem:n1:0", "ins:n3:2", "ins:n1:2", "look:k2:0"},
			"oracle": "Lookup(k2) must equal Lookup(k2) on fresh rings built from {n1#2,n2#1,n3#2} in sorted and reversed order"})
		var gs, gt int64
		fix := true
		// quick: 3 members for all 36 configurations + 4 members for replicas=probes=2; thorough: 4 members everywhere
		cfgs := c45Configs(4)
		if c.Quick() {
			cfgs = c45Configs(3)
			for _, g := range c45Configs(4) {
				if g.Replicas == 2 && g.Probes == 2 {
					cfgs = append(cfgs, g)
				}
			}
		}
		for _, g := range cfgs {
			st := hbfs.Explore(c, c45Spec(g, 40, false))
			gs += st.States
			gt += st.Transitions
			fix = fix && st.Complete && st.Depth < 40
		}
		fmt.Printf("hbfs ring graph mode: %d configs, states=%d transitions=%d all-fixpoints=%v\n", len(cfgs), gs, gt, fix)
		c.Extra("graph_fixpoint_all_configs", fix)
		var ts, tt int64
		td := c.Pick(4, 5)
		for _, g := range c45Configs(4) {
			if g.Replicas != 2 || (g.Probes != 2 && c.Quick()) {
				continue
			}
			st := hbfs.Explore(c, c45Spec(g, td, true))
			ts += st.States
			tt += st.Transitions
		}
		fmt.Printf("hbfs ring tree mode depth %d: states=%d transitions=%d\n", td, ts, tt)
		c45Large(c)
	})
}

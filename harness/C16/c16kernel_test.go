package ipsets

// Line-granular model of the kernel's ipset subsystem + the `ipset` command line, used as the
// environment for the REAL IPSets object (bound through its cmdFactory shim). Everything is
// synchronous and deterministic; each executed restore line / destroy is reported to an observer
// so that the harness can look at every intermediate kernel state.
//
// Kernel rules modelled (ip_set_core.c semantics): create fails if the name exists; add fails if
// the set is missing, the member is present (no -exist) or the set is full; `del --exist` fails
// only if the set is missing; swap needs both sets and equal type+family, it exchanges contents
// and header while references stay with the NAME; destroy fails if missing or referenced.

import (
	"errors"
	"fmt"
	"io"
	"regexp"
	"sort"
	"strconv"
	"strings"
)

var errC16Injected = errors.New("injected command failure")
var errC16Exit = errors.New("exit status 1")

var c16TempRe = regexp.MustCompile(`cali4t\d+`)

// c16Norm replaces concrete temporary set names by a wildcard so that fault targets are stable
// under the (uncontrolled) order in which Felix allocates temporary names.
func c16Norm(s string) string { return c16TempRe.ReplaceAllString(s, "cali4t*") }

type c16Set struct {
	Type    IPSetType
	Family  string
	MaxElem int
	Members map[string]bool
}

func (x *c16Set) clone() *c16Set {
	y := &c16Set{Type: x.Type, Family: x.Family, MaxElem: x.MaxElem, Members: map[string]bool{}}
	for m := range x.Members {
		y.Members[m] = true
	}
	return y
}

func c16Sorted(m map[string]bool) []string {
	out := make([]string, 0, len(m))
	for k := range m {
		out = append(out, k)
	}
	sort.Strings(out)
	return out
}

func (x *c16Set) render() string {
	return fmt.Sprintf("%s/%s/%d{%s}", x.Type, x.Family, x.MaxElem, strings.Join(c16Sorted(x.Members), ","))
}

// c16Fault says: the Occ-th command (within one apply cycle) whose signature is Sig misbehaves.
//
//	list -name only: vanish (listing is fine, then another actor destroys the reported set named in Line)
//	list:    pipe | start | rc (no output, bad exit) | trunc (N lines then read error, bad exit) | late (full output, bad exit)
//	restore: pipe | start | line (process dies when it reaches Line; earlier lines applied, all writes accepted)
//	         | write (the write of Line fails with EPIPE; earlier lines applied; process exits non-zero) | late (all applied, bad exit)
//	         | wlost (the write of Line fails with EPIPE because the process died earlier: of the lines the pipe
//	           had accepted only the first N were executed, the rest was merely buffered and is lost)
//	destroy: early (nothing happens, error) | late (destroyed, error reported)
type c16Fault struct {
	Sig  string `json:"sig"`
	Occ  int    `json:"occ"`
	Mode string `json:"mode"`
	Line string `json:"line,omitempty"`
	N    int    `json:"n,omitempty"`
	used bool
}

type c16RecCmd struct {
	Sig     string
	Occ     int
	Kind    string
	Idx     int
	NLines  int      // list: number of output lines of the fault-free run
	Lines   []string // restore: normalised lines written (incl. COMMIT)
	Names   []string // list -name: normalised names of the Felix-owned sets it reported
	Faulted string
}

type c16Kernel struct {
	sets map[string]*c16Set
	refs map[string]bool

	occ    map[string]int
	ncmd   int
	faults []*c16Fault
	fired  int
	rec    *[]*c16RecCmd

	onStep    func(what string)
	onDestroy func(name string, failed bool)
	// onRestoreFail reports the sets that a failing `ipset restore` had created before it failed
	onRestoreFail func(created []string)
	// onVanish reports a set that another actor destroyed right after `ipset list -name` reported it
	onVanish func(name string)
	trace    []string // human readable command trace of the current cycle
}

func newC16Kernel() *c16Kernel {
	return &c16Kernel{sets: map[string]*c16Set{}, refs: map[string]bool{}, occ: map[string]int{}}
}

func (k *c16Kernel) arm(fs []c16Fault) {
	k.occ = map[string]int{}
	k.ncmd = 0
	k.faults = nil
	k.trace = nil
	for _, f := range fs {
		f := f
		f.used = false
		k.faults = append(k.faults, &f)
	}
}

func c16KernelMember(t IPSetType, m string) string {
	if t == IPSetTypeHashNet {
		return strings.TrimSuffix(m, "/32")
	}
	return m
}

// execLine executes one `ipset restore` line; returns the ipset error message or "".
func (k *c16Kernel) execLine(line string) string {
	p := strings.Split(line, " ")
	switch p[0] {
	case "create":
		// create NAME TYPE family F maxelem N
		if len(p) != 7 || p[3] != "family" || p[5] != "maxelem" {
			return "Syntax error: unsupported create syntax in model: " + line
		}
		if _, ok := k.sets[p[1]]; ok {
			return "Set cannot be created: set with the same name already exists"
		}
		if len(p[1]) > MaxIPSetNameLength {
			return "Syntax error: setname too long"
		}
		n, err := strconv.Atoi(p[6])
		if err != nil {
			return "Syntax error: maxelem"
		}
		if !IPSetType(p[2]).IsValid() {
			return "Syntax error: unknown type"
		}
		k.sets[p[1]] = &c16Set{Type: IPSetType(p[2]), Family: p[4], MaxElem: n, Members: map[string]bool{}}
	case "add":
		if len(p) != 3 {
			return "Syntax error: add"
		}
		s, ok := k.sets[p[1]]
		if !ok {
			return "The set with the given name does not exist"
		}
		m := c16KernelMember(s.Type, p[2])
		if s.Members[m] {
			return "Element cannot be added to the set: it's already added"
		}
		if len(s.Members) >= s.MaxElem {
			return "Hash is full, cannot add more elements"
		}
		s.Members[m] = true
	case "del":
		if len(p) != 4 || p[3] != "--exist" {
			return "Syntax error: del"
		}
		s, ok := k.sets[p[1]]
		if !ok {
			return "The set with the given name does not exist"
		}
		delete(s.Members, c16KernelMember(s.Type, p[2]))
	case "swap":
		if len(p) != 3 {
			return "Syntax error: swap"
		}
		a, ok1 := k.sets[p[1]]
		b, ok2 := k.sets[p[2]]
		if !ok1 || !ok2 {
			return "The set with the given name does not exist"
		}
		if a.Type != b.Type || a.Family != b.Family {
			return "The sets cannot be swapped: their type does not match"
		}
		k.sets[p[1]], k.sets[p[2]] = b, a
	case "destroy":
		if len(p) != 2 {
			return "Syntax error: destroy"
		}
		return k.destroy(p[1])
	case "COMMIT":
		return ""
	default:
		return "Syntax error: unknown command " + p[0]
	}
	if k.onStep != nil {
		k.onStep(line)
	}
	return ""
}

func (k *c16Kernel) destroy(name string) string {
	if _, ok := k.sets[name]; !ok {
		if k.onDestroy != nil {
			k.onDestroy(name, true)
		}
		return "The set with the given name does not exist"
	}
	if k.refs[name] {
		if k.onDestroy != nil {
			k.onDestroy(name, true)
		}
		return "Set cannot be destroyed: it is in use by a kernel component"
	}
	delete(k.sets, name)
	if k.onDestroy != nil {
		k.onDestroy(name, false)
	}
	if k.onStep != nil {
		k.onStep("destroy " + name)
	}
	return ""
}

// ---- the command shim -------------------------------------------------------------------------

type c16Cmd struct {
	k      *c16Kernel
	args   []string
	sig    string
	fault  *c16Fault
	rec    *c16RecCmd
	stderr io.Writer
	stdout io.Writer
	out    *c16Stdout
	in     *c16Stdin
	exit   error
}

func (k *c16Kernel) newCmd(name string, arg ...string) CmdIface {
	if name != "ipset" || len(arg) == 0 {
		panic("c16 kernel: unexpected command " + name + " " + strings.Join(arg, " "))
	}
	c := &c16Cmd{k: k, args: arg}
	switch arg[0] {
	case "list", "destroy":
		if len(arg) != 2 {
			panic("c16 kernel: unexpected args " + strings.Join(arg, " "))
		}
		c.sig = arg[0] + " " + c16Norm(arg[1])
	case "restore":
		if len(arg) != 1 {
			panic("c16 kernel: unexpected args " + strings.Join(arg, " "))
		}
		c.sig = "restore"
	default:
		panic("c16 kernel: unexpected ipset sub-command " + arg[0])
	}
	occ := k.occ[c.sig]
	k.occ[c.sig]++
	for _, f := range k.faults {
		if !f.used && f.Sig == c.sig && f.Occ == occ {
			c.fault = f
			f.used = true
			break
		}
	}
	if k.rec != nil {
		c.rec = &c16RecCmd{Sig: c.sig, Occ: occ, Kind: arg[0], Idx: k.ncmd}
		*k.rec = append(*k.rec, c.rec)
	}
	k.ncmd++
	t := strings.Join(arg, " ")
	if c.fault != nil {
		t += " [FAULT " + c.fault.Mode + "]"
	}
	k.trace = append(k.trace, t)
	return c
}

func (c *c16Cmd) mode() string {
	if c.fault == nil {
		return ""
	}
	return c.fault.Mode
}

func (c *c16Cmd) fire() {
	c.k.fired++
	if c.rec != nil {
		c.rec.Faulted = c.fault.Mode
	}
}

func (c *c16Cmd) SetStdin(io.Reader)    { panic("c16 kernel: SetStdin not modelled") }
func (c *c16Cmd) SetStdout(w io.Writer) { c.stdout = w }
func (c *c16Cmd) SetStderr(w io.Writer) { c.stderr = w }
func (c *c16Cmd) Output() ([]byte, error) {
	panic("c16 kernel: Output not modelled")
}

func (c *c16Cmd) errOut(msg string) {
	if c.stderr != nil {
		_, _ = c.stderr.Write([]byte("ipset v7.11: " + msg + "\n"))
	}
}

func (c *c16Cmd) StdinPipe() (WriteCloserFlusher, error) {
	if c.args[0] != "restore" {
		panic("c16 kernel: stdin pipe on " + c.sig)
	}
	if c.mode() == "pipe" {
		c.fire()
		return nil, errC16Injected
	}
	c.in = &c16Stdin{c: c}
	return c.in, nil
}

func (c *c16Cmd) StdoutPipe() (io.ReadCloser, error) {
	if c.args[0] != "list" {
		panic("c16 kernel: stdout pipe on " + c.sig)
	}
	if c.mode() == "pipe" {
		c.fire()
		return nil, errC16Injected
	}
	c.out = &c16Stdout{}
	return c.out, nil
}

func (c *c16Cmd) Start() error {
	if c.mode() == "start" {
		c.fire()
		return errC16Injected
	}
	if c.args[0] == "list" {
		c.runList()
	}
	return nil
}

func (c *c16Cmd) Wait() error {
	switch c.args[0] {
	case "list":
		return c.exit
	case "restore":
		return c.runRestore()
	}
	panic("c16 kernel: Wait on " + c.sig)
}

func (c *c16Cmd) runList() {
	k := c.k
	var lines []string
	natural := true
	if c.args[1] == "-name" {
		for n := range k.sets {
			lines = append(lines, n)
		}
		sort.Strings(lines)
	} else if s, ok := k.sets[c.args[1]]; !ok {
		natural = false
		if c.mode() == "rc" {
			// a failure that is NOT the recognisable "does not exist" one
			c.fire()
			c.errOut("Kernel error received: Resource temporarily unavailable")
		} else {
			c.errOut("The set with the given name does not exist")
		}
		c.exit = errC16Exit
	} else {
		refs := 0
		if k.refs[c.args[1]] {
			refs = 1
		}
		lines = append(lines,
			"Name: "+c.args[1],
			"Type: "+string(s.Type),
			"Revision: 4",
			fmt.Sprintf("Header: family %s hashsize 1024 maxelem %d", s.Family, s.MaxElem),
			"Size in memory: 224",
			fmt.Sprintf("References: %d", refs),
			fmt.Sprintf("Number of entries: %d", len(s.Members)),
			"Members:")
		lines = append(lines, c16Sorted(s.Members)...)
	}
	if c.rec != nil && natural {
		c.rec.NLines = len(lines)
		if c.args[1] == "-name" {
			for _, n := range lines {
				if strings.HasPrefix(n, "cali4") || strings.HasPrefix(n, "felix-") {
					c.rec.Names = append(c.rec.Names, c16Norm(n))
				}
			}
		}
	}
	if natural && c.mode() == "vanish" && c.args[1] == "-name" {
		// the listing is complete and correct; before Felix gets to look at the set itself, another
		// actor (having flushed the rules that used it) destroys one of the sets just reported
		for _, n := range lines {
			if c16Norm(n) == c.fault.Line {
				c.fire()
				delete(k.sets, n)
				delete(k.refs, n)
				if k.onVanish != nil {
					k.onVanish(n)
				}
				break
			}
		}
	}
	if natural {
		switch c.mode() {
		case "rc":
			c.fire()
			lines = nil
			c.errOut("Kernel error received: Resource temporarily unavailable")
			c.exit = errC16Exit
		case "trunc":
			if c.fault.N < len(lines) {
				c.fire()
				lines = lines[:c.fault.N]
				c.out.readErr = errC16Injected
				c.exit = errC16Exit
			}
		case "late":
			c.fire()
			c.errOut("Kernel error received: Resource temporarily unavailable")
			c.exit = errC16Exit
		}
	}
	if c.out != nil {
		for _, l := range lines {
			c.out.data = append(c.out.data, []byte(l+"\n")...)
		}
	}
}

type c16Stdout struct {
	data    []byte
	readErr error
}

func (o *c16Stdout) Read(p []byte) (int, error) {
	if len(o.data) > 0 {
		n := copy(p, o.data)
		o.data = o.data[n:]
		return n, nil
	}
	if o.readErr != nil {
		return 0, o.readErr
	}
	return 0, io.EOF
}
func (o *c16Stdout) Close() error { return nil }

type c16Stdin struct {
	c      *c16Cmd
	lines  []string
	broken bool
}

func (w *c16Stdin) Write(p []byte) (int, error) {
	if w.broken {
		return 0, io.ErrClosedPipe
	}
	for _, line := range strings.Split(strings.TrimSuffix(string(p), "\n"), "\n") {
		if w.c.rec != nil {
			w.c.rec.Lines = append(w.c.rec.Lines, c16Norm(line))
		}
		if (w.c.mode() == "write" || w.c.mode() == "wlost") && c16Norm(line) == w.c.fault.Line {
			w.c.fire()
			w.broken = true
			if w.c.mode() == "wlost" {
				// the child died earlier: what the pipe had accepted so far was only buffered and
				// all but the first N lines are lost; the broken pipe surfaces only now
				if w.c.fault.N < len(w.lines) {
					w.lines = w.lines[:w.c.fault.N]
				}
			}
			return 0, io.ErrClosedPipe
		}
		w.lines = append(w.lines, line)
	}
	return len(p), nil
}
func (w *c16Stdin) Flush() error { return nil }
func (w *c16Stdin) Close() error { return nil }

func (c *c16Cmd) runRestore() (err error) {
	if c.in == nil {
		return errC16Exit
	}
	var created []string
	defer func() {
		if err != nil && c.k.onRestoreFail != nil {
			var still []string
			for _, n := range created {
				if _, ok := c.k.sets[n]; ok {
					still = append(still, n)
				}
			}
			c.k.onRestoreFail(still)
		}
	}()
	for _, line := range c.in.lines {
		if line == "" {
			continue
		}
		if c.mode() == "line" && c16Norm(line) == c.fault.Line {
			c.fire()
			c.errOut("Error in line: injected failure")
			return errC16Exit
		}
		if msg := c.k.execLine(line); msg != "" {
			c.k.trace = append(c.k.trace, "  restore failed at `"+line+"`: "+msg)
			c.errOut("Error in line: " + msg)
			return errC16Exit
		}
		if p := strings.Split(line, " "); p[0] == "create" {
			created = append(created, p[1])
		}
	}
	if c.in.broken {
		return errC16Exit
	}
	if c.mode() == "late" {
		c.fire()
		return errC16Exit
	}
	return nil
}

func (c *c16Cmd) CombinedOutput() ([]byte, error) {
	if c.args[0] != "destroy" {
		panic("c16 kernel: CombinedOutput on " + c.sig)
	}
	if c.mode() == "early" {
		c.fire()
		if c.k.onDestroy != nil {
			c.k.onDestroy(c.args[1], true)
		}
		return []byte("ipset v7.11: Kernel error received: Resource temporarily unavailable\n"), errC16Exit
	}
	if msg := c.k.destroy(c.args[1]); msg != "" {
		return []byte("ipset v7.11: " + msg + "\n"), errC16Exit
	}
	if c.mode() == "late" {
		c.fire()
		return []byte("ipset v7.11: Kernel error received: Resource temporarily unavailable\n"), errC16Exit
	}
	return nil, nil
}

// c16FaultPoints lists every way a recorded command can be made to fail.
func c16FaultPoints(r *c16RecCmd) []c16Fault {
	var out []c16Fault
	f := func(mode, line string, n int) {
		out = append(out, c16Fault{Sig: r.Sig, Occ: r.Occ, Mode: mode, Line: line, N: n})
	}
	switch r.Kind {
	case "list":
		f("pipe", "", 0)
		f("start", "", 0)
		f("rc", "", 0)
		if r.NLines > 0 || r.Sig == "list -name" {
			f("late", "", 0)
		}
		for i := 0; i < r.NLines; i++ {
			f("trunc", "", i)
		}
		for _, n := range r.Names {
			f("vanish", n, 0)
		}
	case "restore":
		f("pipe", "", 0)
		f("start", "", 0)
		seen := map[string]bool{}
		for _, l := range r.Lines {
			if seen[l] {
				continue
			}
			seen[l] = true
			if l != "COMMIT" {
				f("line", l, 0)
			}
			f("write", l, 0)
			// same broken pipe, but the child had died before executing anything it was sent (offered
			// for every line: which set is written first is not under the harness's control)
			f("wlost", l, 0)
		}
		f("late", "", 0)
	case "destroy":
		f("early", "", 0)
		f("late", "", 0)
	}
	return out
}

package ipsets

import (
	"encoding/json"
	"fmt"
	"os"
	"testing"
	"time"

	"github.com/sirupsen/logrus"
)

// TestVerifDbg_C16 replays the history in $C16_DBG (JSON list of rendered events, or a replay file
// path) step by step and prints the command trace and state key; a debugging aid, never run by vcheck.
func TestVerifDbg_C16(t *testing.T) {
	src := os.Getenv("C16_DBG")
	if src == "" {
		t.Skip("no C16_DBG")
	}
	logrus.SetLevel(logrus.PanicLevel)
	var hist []string
	if b, err := os.ReadFile(src); err == nil {
		var w struct{ Detail struct{ History []string } }
		if err := json.Unmarshal(b, &w); err != nil {
			t.Fatal(err)
		}
		hist = w.Detail.History
	} else if err := json.Unmarshal([]byte(src), &hist); err != nil {
		t.Fatal(err)
	}
	cfg := c16Cfg{Step: BackgroundResyncTimeBudget, MaxFaults: 1, Filter: true}
	if os.Getenv("C16_STEP0") != "" {
		cfg.Step = 0 * time.Second
	}
	s := c16NewState(cfg)
	for _, h := range hist {
		var e c16Ev
		if err := json.Unmarshal([]byte(h), &e); err != nil {
			t.Fatal(err)
		}
		c16Apply(s, e)
		fmt.Printf("== %s\n   cmds: %q\n   key: %s\n   bad: %v\n", h, s.k.trace, s.key, s.bad)
	}
	s.dbg = true
	s.k.onStep = func(w string) { fmt.Println("     kernel:", w); s.onStep(w) }
	for _, f := range c16Check(s, make([]c16Ev, len(hist))) {
		fmt.Printf("FAIL %s: %s\n", f.Key, f.Msg)
	}
	fmt.Printf("final key: %s\n", s.computeKey())
}

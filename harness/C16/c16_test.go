package ipsets

// C16 — IP set sync converges and never breaks rules that use a set.
//
// Shape H (explicit-state search with fault enumeration): the REAL ipsets.IPSets object is driven
// through its cmdFactory/sleep/timeNow shims against a line-granular model of the kernel's ipset
// subsystem (c16kernel_test.go). One "cycle" event is what int_dataplane.apply() does for IP sets:
// [QueueResync] -> ApplyUpdates -> (tables are programmed: references move to exactly the desired
// sets) -> ApplyDeletions. A fault is part of the cycle event: "the n-th `ipset list X` / `ipset
// restore` / `ipset destroy X` of this cycle fails in mode m (at line L)"; the menu of fault points
// is discovered by a dry run of the same cycle on a clone, so every command and every restore
// line / list-output line of every reachable state gets its turn.
//
// In-package so that the state key contains Felix's internal view (delta trackers, dirty set,
// resync queue tiers, resync flags, temp-name counter) next to the kernel model and desired state.

import (
	"encoding/json"
	"fmt"
	"os"
	"regexp"
	"sort"
	"strconv"
	"strings"
	"testing"
	"time"

	"github.com/sirupsen/logrus"

	"github.com/projectcalico/calico/lib/logrusr"
	"github.com/projectcalico/calico/libcalico-go/lib/set"
	"github.com/projectcalico/calico/zzverif/hbfs"
	"github.com/projectcalico/calico/zzverif/vk"
)

type c16Ev struct {
	Op     string     `json:"op"`
	ID     string     `json:"id,omitempty"`
	Max    int        `json:"max,omitempty"`
	M      []string   `json:"m,omitempty"`
	Init   string     `json:"init,omitempty"`
	Resync bool       `json:"resync,omitempty"`
	Faults []c16Fault `json:"faults,omitempty"`
	Filter []string   `json:"filter,omitempty"`
	NoFilt bool       `json:"nofilter,omitempty"`
}

func (e c16Ev) String() string { return vk.JSON(e) }

type c16Want struct {
	Max int
	M   map[string]bool
}

type c16Cfg struct {
	Step      time.Duration // how much the logical clock advances per timeNow() call
	MaxFaults int
	Filter    bool // SetFilter events enabled
	Reduced   bool // reduced fault menu (list truncation only at 3 representative positions)
}

var c16Types = map[string]IPSetType{"a": IPSetTypeHashIP, "b": IPSetTypeHashNet}

type c16State struct {
	cfg     c16Cfg
	k       *c16Kernel
	ips     *IPSets
	vc      *IPVersionConfig
	want    map[string]c16Want
	filter  map[string]bool // nil = no filter; by set ID
	foreign map[string]string
	hist    []c16Ev

	drift     map[string]bool // kernel names changed behind Felix's back and not yet re-read
	resyncReq bool            // a resync was requested after the last external change
	delFailed map[string]bool
	// sets created by a restore that later failed (and not re-read by Felix since)
	restoreLeak map[string]bool

	now    time.Time
	sleeps int

	// per-cycle
	old       map[string]map[string]bool
	muts      int
	where     string
	lastOut   string
	nontriv   bool
	key       string
	bad       []hbfs.Fail
	badSeen   map[string]bool
	lastCmds  []string
	dbg       bool
	evOut     string // outcome / non-triviality of the EVENT (the probes of Check overwrite lastOut/nontriv)
	evNontriv bool
}

func (s *c16State) fail(key, f string, a ...any) {
	key = "C16:" + key
	if s.badSeen[key] {
		return
	}
	s.badSeen[key] = true
	s.bad = append(s.bad, hbfs.Fail{Key: key, Msg: fmt.Sprintf(f, a...) + " [during " + s.where + "; commands: " + strings.Join(s.k.trace, " ; ") + "]"})
}

func c16NewState(cfg c16Cfg) *c16State {
	s := &c16State{
		cfg:         cfg,
		k:           newC16Kernel(),
		want:        map[string]c16Want{},
		foreign:     map[string]string{},
		drift:       map[string]bool{},
		delFailed:   map[string]bool{},
		restoreLeak: map[string]bool{},
		badSeen:     map[string]bool{},
		now:         time.Unix(1_700_000_000, 0),
		where:       "setup",
	}
	s.vc = NewIPVersionConfig(IPFamilyV4, "cali", []string{"felix-", "cali"}, []string{"felix-masq-ipam-pools", "felix-all-ipam-pools"})
	s.k.onStep = s.onStep
	s.k.onDestroy = s.onDestroy
	s.k.onVanish = func(name string) {
		delete(s.old, name)
		s.ext(name)
	}
	s.k.onRestoreFail = func(created []string) {
		for _, n := range created {
			s.restoreLeak[n] = true
		}
	}
	s.newFelix()
	return s
}

func (s *c16State) newFelix() {
	s.ips = NewIPSetsWithShims(s.vc, logrusr.NewSummarizer("c16"), s.k.newCmd,
		func(d time.Duration) { s.sleeps++ },
		func() time.Time { t := s.now; s.now = s.now.Add(s.cfg.Step); return t })
	s.resyncReq = true
}

func (s *c16State) name(id string) string { return s.vc.NameForMainIPSet(id) }

func (s *c16State) idNeeded(id string) bool {
	if _, ok := s.want[id]; !ok {
		return false
	}
	return s.filter == nil || s.filter[id]
}

// neededNames = kernel names of the sets that must exist.
func (s *c16State) neededNames() map[string]string {
	out := map[string]string{}
	for id := range s.want {
		if s.idNeeded(id) {
			out[s.name(id)] = id
		}
	}
	return out
}

func (s *c16State) wantKernelMembers(id string) map[string]bool {
	out := map[string]bool{}
	for m := range s.want[id].M {
		out[c16KernelMember(c16Types[id], m)] = true
	}
	return out
}

// ---- intermediate-state oracle: called after EVERY kernel mutation made by Felix ----------------

func (s *c16State) onStep(what string) {
	s.muts++
	if p := strings.Split(what, " "); p[0] == "create" {
		// a new set under an old name is a new set: earlier failed destroys of that name don't count
		delete(s.delFailed, p[1])
	} else if p[0] == "destroy" {
		delete(s.restoreLeak, p[1])
	}
	needed := s.neededNames()
	for name, old := range s.old {
		id, ok := needed[name]
		if !ok {
			continue
		}
		cur, ok := s.k.sets[name]
		if !ok {
			s.fail("in-use-set-vanished", "set %s is referenced by rules and still desired but does not exist after `%s`", name, what)
			continue
		}
		nw := s.wantKernelMembers(id)
		for m := range old {
			if nw[m] && !cur.Members[m] {
				s.fail("in-use-set-exposed-partial-contents", "in-use set %s lost member %s (present before AND desired after) after `%s`: now %s", name, m, what, cur.render())
			}
		}
		for m := range cur.Members {
			if !old[m] && !nw[m] {
				s.fail("in-use-set-exposed-alien-member", "in-use set %s shows member %s (neither present before nor desired) after `%s`", name, m, what)
			}
		}
	}
}

func (s *c16State) onDestroy(name string, failed bool) {
	if _, ok := s.neededNames()[name]; ok {
		s.fail("destroy-of-desired-set", "`ipset destroy %s` issued while the set is desired (failed=%v)", name, failed)
	}
	if failed {
		s.delFailed[name] = true
	}
}

// ---- end-state oracles ----------------------------------------------------------------------------

func (s *c16State) checkDesired(where string) {
	for name, id := range s.neededNames() {
		if s.drift[name] {
			continue
		}
		k, ok := s.k.sets[name]
		if !ok {
			s.fail(where+":desired-set-missing", "desired set %s (%s) is not in the kernel; kernel=%s", name, id, s.kernelString())
			continue
		}
		w := s.want[id]
		if k.Type != c16Types[id] || k.Family != "inet" || k.MaxElem != w.Max {
			s.fail(where+":desired-set-wrong-params", "set %s has %s want type %s maxelem %d", name, k.render(), c16Types[id], w.Max)
		}
		wm := s.wantKernelMembers(id)
		if strings.Join(c16Sorted(wm), ",") != strings.Join(c16Sorted(k.Members), ",") {
			s.fail(where+":desired-set-wrong-members", "set %s has members %v want %v", name, c16Sorted(k.Members), c16Sorted(wm))
		}
	}
}

func (s *c16State) checkForeign(where string) {
	for name, r := range s.foreign {
		k, ok := s.k.sets[name]
		if !ok {
			s.fail("foreign-set-touched", "%s: set %s (not Felix's) was destroyed", where, name)
		} else if k.render() != r {
			s.fail("foreign-set-touched", "%s: set %s (not Felix's) changed from %s to %s", where, name, r, k.render())
		}
	}
	for name := range s.k.sets {
		if _, ok := s.foreign[name]; !ok && !s.vc.OwnsIPSet(name) {
			s.fail("foreign-set-touched", "%s: set %s appeared outside Felix's name space", where, name)
		}
	}
}

func (s *c16State) checkNoStale(where string, tolerateDelFailed bool) {
	needed := s.neededNames()
	for name := range s.k.sets {
		if !s.vc.OwnsIPSet(name) {
			continue
		}
		if _, ok := needed[name]; ok {
			continue
		}
		if tolerateDelFailed && s.delFailed[name] {
			continue
		}
		kind := "main"
		if s.vc.IsTempIPSetName(name) {
			kind = "temp"
		}
		meta, known := s.ips.setNameToProgrammedMetadata.Dataplane().Get(name)
		switch {
		case !known && s.restoreLeak[name]:
			// created by an `ipset restore` that then failed; Felix kept no record of it
			s.fail(kind+"-set-created-by-failed-restore-then-forgotten:"+where, "Felix-owned set %s is not desired but still in the kernel after the sync went quiet; kernel=%s", name, s.kernelString())
			continue
		case !known:
			kind += "-set-unknown-to-felix"
		case meta.DeleteFailed && !s.delFailed[name]:
			// Felix skips it as "delete failed" although no destroy of it was ever attempted
			s.fail(kind+"-set-marked-delete-failed-without-any-failed-destroy:"+where, "Felix-owned set %s is not desired but still in the kernel after the sync went quiet; kernel=%s", name, s.kernelString())
			continue
		default:
			kind += "-set-known-to-felix"
		}
		s.fail(where+":stale-"+kind, "Felix-owned set %s is not desired but still in the kernel after the sync went quiet; kernel=%s", name, s.kernelString())
	}
}

func (s *c16State) felixIdle() bool {
	return s.ips.resyncQueue.Len() == 0 && !s.ips.bgResyncRequested && !s.ips.fullResyncRequired
}

// cycle = what int_dataplane.apply() does for one IPSets instance.
func (s *c16State) cycle(resync bool, faults []c16Fault, where string) bool {
	s.where = where
	s.k.arm(faults)
	s.muts = 0
	if resync {
		s.ips.QueueResync()
		s.resyncReq = true
	}
	s.old = map[string]map[string]bool{}
	needed := s.neededNames()
	for name := range s.k.refs {
		if _, ok := needed[name]; ok {
			if k, ok := s.k.sets[name]; ok {
				s.old[name] = k.clone().Members
			}
		}
	}
	sl := s.sleeps
	s.ips.ApplyUpdates(nil)
	// tables are programmed now: every desired set must be usable by the rules, and the rules
	// reference exactly the desired sets from here on.
	s.checkDesired(where + ":tables-step")
	s.k.refs = map[string]bool{}
	for name := range needed {
		if k, ok := s.k.sets[name]; ok {
			s.k.refs[name] = true
			if _, have := s.old[name]; !have {
				s.old[name] = k.clone().Members
			}
		}
	}
	resched := s.ips.ApplyDeletions()
	s.checkDesired(where + ":after-apply")
	s.checkForeign(where)
	if len(s.drift) > 0 && s.resyncReq && s.felixIdle() {
		s.drift = map[string]bool{}
	}
	mb := s.muts
	if mb > 2 {
		mb = 2
	}
	fm := ""
	for _, f := range faults {
		fm += f.Mode + "@" + strings.SplitN(f.Sig, " ", 2)[0] + ","
	}
	s.lastOut = fmt.Sprintf("cycle resync=%v faults=%s fired=%d retries=%d muts=%d resched=%v", resync, fm, s.k.fired, s.sleeps-sl, mb, resched)
	s.nontriv = s.muts > 0 || s.k.fired > 0
	s.k.fired = 0
	s.lastCmds = s.k.trace
	if s.dbg {
		fmt.Printf("     -- %s cycle done: resched=%v cmds=%q\n        key=%s\n", where, resched, s.k.trace, s.computeKey())
	}
	return resched
}

func (s *c16State) quiesce(resync bool, where string) {
	for i := 0; i < 24; i++ {
		if !s.cycle(resync && i == 0, nil, where) {
			return
		}
	}
	s.fail(where+":never-quiet", "ApplyDeletions still asks to be rescheduled after 24 fault-free cycles; kernel=%s", s.kernelString())
}

// ---- events -------------------------------------------------------------------------------------------

func (s *c16State) ext(name string) {
	s.drift[name] = true
	s.resyncReq = false
}

func (s *c16State) setWant(id string, max int, m []string) {
	w := c16Want{Max: max, M: map[string]bool{}}
	for _, x := range m {
		w.M[x] = true
	}
	s.want[id] = w
	s.ips.AddOrReplaceIPSet(IPSetMetadata{SetID: id, Type: c16Types[id], MaxSize: max}, m)
}

func (s *c16State) applyFilter() {
	if s.filter == nil {
		s.ips.SetFilter(nil)
		return
	}
	f := set.New[string]()
	for id := range s.filter {
		f.Add(s.name(id))
	}
	s.ips.SetFilter(f)
}

func c16Apply(s *c16State, e c16Ev) {
	s.hist = append(s.hist, e)
	s.where = e.Op
	s.nontriv = false
	s.lastOut = e.Op
	k := s.k
	switch e.Op {
	case "init":
		put := func(name string, t IPSetType, fam string, max int, m ...string) {
			x := &c16Set{Type: t, Family: fam, MaxElem: max, Members: map[string]bool{}}
			for _, mm := range m {
				x.Members[mm] = true
			}
			k.sets[name] = x
		}
		put("foreign", IPSetTypeHashIP, "inet", 65536, "1.1.1.1")
		put("cali6t0", IPSetTypeHashIP, "inet6", 4, "fe80::1")
		put("cali60a", IPSetTypeHashIP, "inet6", 4)
		put("calico", IPSetTypeHashNet, "inet", 4, "10.0.0.0/8")
		put("xcali40a", IPSetTypeHashIP, "inet", 4, "10.0.0.1")
		for n, x := range k.sets {
			s.foreign[n] = x.render()
		}
		if strings.Contains(e.Init, "stale") {
			put("cali40a", IPSetTypeHashIP, "inet", 8, "10.0.0.2", "10.0.0.9")
			put("cali4t0", IPSetTypeHashIP, "inet", 4, "10.0.0.1")
			put("cali40zz", IPSetTypeHashNet, "inet", 4, "10.9.0.0/16")
			put("felix-masq-ipam-pools", IPSetTypeHashNet, "inet", 65536)
			// rules of the previous Felix still reference its main sets
			k.refs["cali40a"] = true
			k.refs["cali40zz"] = true
			for _, n := range []string{"cali40a", "cali4t0", "cali40zz", "felix-masq-ipam-pools"} {
				s.drift[n] = true
			}
		}
		if strings.Contains(e.Init, "want") {
			s.setWant("a", 4, []string{"10.0.0.1"})
			s.setWant("b", 4, []string{"10.0.0.0/24"})
		}
		if strings.Contains(e.Init, "synced") {
			s.cycle(false, nil, "init")
		}
		if strings.Contains(e.Init, "pending") {
			// both sets are programmed and both have a member change waiting: the next restore is a
			// multi-set batch that is NOT covered by the start-of-day full resync
			s.want["a"].M["10.0.0.2"] = true
			s.ips.AddMembers("a", []string{"10.0.0.2"})
			s.want["b"].M["10.0.0.1/32"] = true
			s.ips.AddMembers("b", []string{"10.0.0.1/32"})
		}
		if strings.Contains(e.Init, "filter-b") {
			// set a is programmed and then filtered out: still in the kernel, no longer needed
			s.filter = map[string]bool{"b": true}
			s.applyFilter()
		}
	case "set":
		s.setWant(e.ID, e.Max, e.M)
	case "addm":
		for _, m := range e.M {
			s.want[e.ID].M[m] = true
		}
		s.ips.AddMembers(e.ID, e.M)
	case "delm":
		for _, m := range e.M {
			delete(s.want[e.ID].M, m)
		}
		s.ips.RemoveMembers(e.ID, e.M)
	case "rm":
		delete(s.want, e.ID)
		s.ips.RemoveIPSet(e.ID)
	case "filter":
		if e.NoFilt {
			s.filter = nil
		} else {
			s.filter = map[string]bool{}
			for _, id := range e.Filter {
				s.filter[id] = true
			}
		}
		s.applyFilter()
	case "restart":
		// a new Felix on the same kernel: the calculation graph re-sends the whole desired state
		// before the first apply.
		s.newFelix()
		if s.filter != nil {
			s.applyFilter()
		}
		ids := make([]string, 0, len(s.want))
		for id := range s.want {
			ids = append(ids, id)
		}
		sort.Strings(ids)
		for _, id := range ids {
			w := s.want[id]
			s.ips.AddOrReplaceIPSet(IPSetMetadata{SetID: id, Type: c16Types[id], MaxSize: w.Max}, c16Sorted(w.M))
		}
	case "x-del": // somebody deletes a member
		// (all outside changes are total functions: under a different map-iteration order inside
		// Felix a replay of the same history may find the set already gone)
		n := s.name(e.ID)
		if x, ok := k.sets[n]; ok {
			delete(x.Members, e.M[0])
			s.ext(n)
		}
	case "x-add": // somebody adds a member
		n := s.name(e.ID)
		if x, ok := k.sets[n]; ok {
			x.Members[e.M[0]] = true
			s.ext(n)
		}
	case "x-destroy": // somebody flushes the rules and destroys the set
		n := s.name(e.ID)
		delete(k.sets, n)
		delete(k.refs, n)
		s.ext(n)
	case "x-param": // somebody re-creates the set with another maxelem (same contents)
		n := s.name(e.ID)
		if x, ok := k.sets[n]; ok {
			x = x.clone()
			x.MaxElem = 16
			k.sets[n] = x
			delete(k.refs, n)
			s.ext(n)
		}
	case "x-temp": // a stale temporary set sits exactly at the name Felix will pick next
		n := s.vc.NameForTempIPSet(s.ips.nextTempIPSetIdx)
		k.sets[n] = &c16Set{Type: IPSetTypeHashIP, Family: "inet", MaxElem: 4, Members: map[string]bool{"10.0.0.7": true}}
		s.ext(n)
	case "x-stale": // a main set of an earlier Felix appears
		k.sets["cali40zz"] = &c16Set{Type: IPSetTypeHashNet, Family: "inet", MaxElem: 4, Members: map[string]bool{"10.9.0.0/16": true}}
		s.ext("cali40zz")
	case "cycle":
		s.cycle(e.Resync, e.Faults, "cycle")
	default:
		panic("bad op " + e.Op)
	}
	s.key = s.computeKey()
	s.evOut, s.evNontriv = s.lastOut, s.nontriv
}

func c16Replay(cfg c16Cfg, hist []c16Ev) *c16State {
	s := c16NewState(cfg)
	for _, e := range hist {
		c16Apply(s, e)
	}
	return s
}

// dryRun discovers the commands the given cycle would issue from state s (on a clone).
func c16DryRun(s *c16State, resync bool, faults []c16Fault) (rec []*c16RecCmd) {
	_ = vk.Catch(func() error {
		cl := c16Replay(s.cfg, s.hist)
		cl.k.rec = &rec
		cl.cycle(resync, faults, "dry-run")
		return nil
	})
	return rec
}

func c16Reduce(pts []c16Fault, r *c16RecCmd) []c16Fault {
	// keep truncation before the header, just before "Members:" and after the first member
	var out []c16Fault
	for _, p := range pts {
		if p.Mode == "trunc" && r.Sig != "list -name" && !(p.N == 2 || p.N == 7 || p.N == 9) {
			continue
		}
		if p.Mode == "trunc" && r.Sig == "list -name" && !(p.N == 0 || p.N == r.NLines-1) {
			continue
		}
		out = append(out, p)
	}
	return out
}

func c16Enabled(s *c16State, depth int) []c16Ev {
	if depth == 0 {
		inits := []c16Ev{{Op: "init", Init: "clean"}, {Op: "init", Init: "clean+want"}, {Op: "init", Init: "stale"}, {Op: "init", Init: "stale+want"},
			{Op: "init", Init: "clean+want+synced+pending"}}
		if s.cfg.Filter {
			inits = append(inits, c16Ev{Op: "init", Init: "clean+want+synced+filter-b"})
		}
		return inits
	}
	var evs []c16Ev
	add := func(e c16Ev) { evs = append(evs, e) }
	// desired-state changes
	add(c16Ev{Op: "set", ID: "a", Max: 4, M: []string{"10.0.0.1"}})
	add(c16Ev{Op: "set", ID: "a", Max: 4, M: []string{"10.0.0.1", "10.0.0.2"}})
	add(c16Ev{Op: "set", ID: "a", Max: 8, M: []string{"10.0.0.1"}})
	add(c16Ev{Op: "set", ID: "a", Max: 8, M: []string{"10.0.0.2"}})
	add(c16Ev{Op: "set", ID: "a", Max: 4})
	add(c16Ev{Op: "set", ID: "b", Max: 4, M: []string{"10.0.0.0/24"}})
	add(c16Ev{Op: "set", ID: "b", Max: 4, M: []string{"10.0.0.0/24", "10.0.0.1/32"}})
	add(c16Ev{Op: "set", ID: "b", Max: 8, M: []string{"10.0.0.1/32"}})
	if _, ok := s.want["a"]; ok {
		add(c16Ev{Op: "addm", ID: "a", M: []string{"10.0.0.1"}})
		add(c16Ev{Op: "addm", ID: "a", M: []string{"10.0.0.2"}})
		add(c16Ev{Op: "delm", ID: "a", M: []string{"10.0.0.1"}})
		add(c16Ev{Op: "delm", ID: "a", M: []string{"10.0.0.2"}})
		add(c16Ev{Op: "rm", ID: "a"})
	}
	if _, ok := s.want["b"]; ok {
		add(c16Ev{Op: "addm", ID: "b", M: []string{"10.0.0.1/32"}})
		add(c16Ev{Op: "delm", ID: "b", M: []string{"10.0.0.0/24"}})
		add(c16Ev{Op: "rm", ID: "b"})
	}
	if s.cfg.Filter {
		if s.filter != nil {
			add(c16Ev{Op: "filter", NoFilt: true})
		}
		add(c16Ev{Op: "filter", Filter: []string{"a"}})
		add(c16Ev{Op: "filter", Filter: []string{}})
	}
	add(c16Ev{Op: "restart"})
	// the world
	if x, ok := s.k.sets["cali40a"]; ok {
		if x.Members["10.0.0.1"] {
			add(c16Ev{Op: "x-del", ID: "a", M: []string{"10.0.0.1"}})
		}
		if !x.Members["10.0.0.2"] {
			add(c16Ev{Op: "x-add", ID: "a", M: []string{"10.0.0.2"}})
		}
		add(c16Ev{Op: "x-destroy", ID: "a"})
		if x.MaxElem != 16 {
			add(c16Ev{Op: "x-param", ID: "a"})
		}
	}
	if x, ok := s.k.sets["cali40b"]; ok {
		if !x.Members["10.7.0.0/16"] {
			add(c16Ev{Op: "x-add", ID: "b", M: []string{"10.7.0.0/16"}})
		}
		add(c16Ev{Op: "x-destroy", ID: "b"})
	}
	if _, ok := s.k.sets[s.vc.NameForTempIPSet(s.ips.nextTempIPSetIdx)]; !ok {
		add(c16Ev{Op: "x-temp"})
	}
	if _, ok := s.k.sets["cali40zz"]; !ok {
		add(c16Ev{Op: "x-stale"})
	}
	// apply cycles, without and with every single fault (and pairs, if configured)
	for _, resync := range []bool{false, true} {
		add(c16Ev{Op: "cycle", Resync: resync})
		if s.cfg.MaxFaults < 1 {
			continue
		}
		rec := c16DryRun(s, resync, nil)
		for _, r := range rec {
			pts := c16FaultPoints(r)
			if s.cfg.Reduced {
				pts = c16Reduce(pts, r)
			}
			for _, f1 := range pts {
				add(c16Ev{Op: "cycle", Resync: resync, Faults: []c16Fault{f1}})
				if s.cfg.MaxFaults < 2 {
					continue
				}
				rec2 := c16DryRun(s, resync, []c16Fault{f1})
				for _, r2 := range rec2 {
					if r2.Idx <= r.Idx || r2.Faulted != "" {
						continue
					}
					for _, f2 := range c16Reduce(c16FaultPoints(r2), r2) {
						add(c16Ev{Op: "cycle", Resync: resync, Faults: []c16Fault{f1, f2}})
					}
				}
			}
		}
	}
	return evs
}

// ---- canonical key --------------------------------------------------------------------------------------

var c16TempNumRe = regexp.MustCompile(`^cali4t(\d+)$`)

func (s *c16State) tn(name string) string {
	if m := c16TempNumRe.FindStringSubmatch(name); m != nil {
		n, _ := strconv.Atoi(m[1])
		return fmt.Sprintf("T%+d", n-int(s.ips.nextTempIPSetIdx))
	}
	return name
}

func (s *c16State) kernelString() string {
	var parts []string
	for n, x := range s.k.sets {
		if _, f := s.foreign[n]; f {
			continue
		}
		r := ""
		if s.k.refs[n] {
			r = "*"
		}
		parts = append(parts, s.tn(n)+r+"="+x.render())
	}
	sort.Strings(parts)
	return strings.Join(parts, " ")
}

func c16Meta(m dataplaneMetadata) string {
	return fmt.Sprintf("%s/%d/%d-%d/%v/%v", m.Type, m.MaxSize, m.RangeMin, m.RangeMax, m.DeleteFailed, m.ListFailed)
}

func (s *c16State) computeKey() string {
	ips := s.ips
	var b strings.Builder
	b.WriteString("K:" + s.kernelString())
	// foreign sets are compared in every state; their (constant) contents are not part of the key
	var w []string
	for id, x := range s.want {
		w = append(w, fmt.Sprintf("%s/%d{%s}", id, x.Max, strings.Join(c16Sorted(x.M), ",")))
	}
	sort.Strings(w)
	b.WriteString("|W:" + strings.Join(w, " "))
	if s.filter != nil {
		b.WriteString("|F:" + strings.Join(c16Sorted(s.filter), ","))
	}
	b.WriteString("|D:" + strings.Join(c16Sorted(s.drift), ","))
	b.WriteString(fmt.Sprintf("|rq:%v", s.resyncReq))
	var df []string
	for n := range s.delFailed {
		if _, ok := s.k.sets[n]; ok {
			df = append(df, s.tn(n))
		}
	}
	sort.Strings(df)
	b.WriteString("|df:" + strings.Join(df, ","))
	// Felix's view
	var p []string
	for n, m := range ips.setNameToAllMetadata {
		p = append(p, s.tn(n)+"="+c16Meta(m))
	}
	sort.Strings(p)
	b.WriteString("|all:" + strings.Join(p, " "))
	p = nil
	ips.setNameToProgrammedMetadata.Desired().Iter(func(n string, m dataplaneMetadata) { p = append(p, s.tn(n)+"="+c16Meta(m)) })
	sort.Strings(p)
	b.WriteString("|des:" + strings.Join(p, " "))
	p = nil
	ips.setNameToProgrammedMetadata.Dataplane().Iter(func(n string, m dataplaneMetadata) { p = append(p, s.tn(n)+"="+c16Meta(m)) })
	sort.Strings(p)
	b.WriteString("|dp:" + strings.Join(p, " "))
	p = nil
	for n, t := range ips.mainSetNameToMembers {
		var d, k []string
		t.Desired().Iter(func(m IPSetMember) { d = append(d, m.String()) })
		t.Dataplane().Iter(func(m IPSetMember) { k = append(k, m.String()) })
		sort.Strings(d)
		sort.Strings(k)
		p = append(p, fmt.Sprintf("%s=[%s]/[%s]", s.tn(n), strings.Join(d, ","), strings.Join(k, ",")))
	}
	sort.Strings(p)
	b.WriteString("|mem:" + strings.Join(p, " "))
	p = nil
	for n := range ips.ipSetsWithDirtyMembers.All() {
		p = append(p, s.tn(n))
	}
	sort.Strings(p)
	b.WriteString("|dirty:" + strings.Join(p, ","))
	b.WriteString("|must:")
	for e := ips.resyncQueue.must.Front(); e != nil; e = e.Next() {
		b.WriteString(s.tn(e.Value.(string)) + ",")
	}
	b.WriteString("|bg:")
	for e := ips.resyncQueue.background.Front(); e != nil; e = e.Next() {
		b.WriteString(s.tn(e.Value.(string)) + ",")
	}
	b.WriteString(fmt.Sprintf("|flags:%v,%v", ips.bgResyncRequested, ips.fullResyncRequired))
	if ips.neededIPSetNames != nil {
		p = nil
		for n := range ips.neededIPSetNames.All() {
			p = append(p, n)
		}
		sort.Strings(p)
		b.WriteString("|needed:" + strings.Join(p, ","))
	}
	return b.String()
}

// ---- the check run in every reached state ------------------------------------------------------------------

func c16Check(s *c16State, hist []c16Ev) []hbfs.Fail {
	if len(hist) == 0 {
		return nil
	}
	// Probe A: no more faults, no more outside interference, NO resync: Felix's own bookkeeping must
	// be enough to get (and keep) its sets right. Only asked when nothing changed behind its back.
	if len(s.drift) == 0 {
		s.quiesce(false, "probe-no-resync")
		s.checkDesired("probe-no-resync:quiet")
		// a set whose destroy failed is deliberately left until the next resync
		s.checkNoStale("probe-no-resync", true)
	}
	// Probe B: one resync request, then fault-free cycles until quiet: from ANY reachable state the
	// kernel must end up with exactly the desired Felix sets and the foreign sets as they were.
	s.quiesce(true, "probe-resync")
	if len(s.drift) > 0 {
		s.fail("probe-resync:harness", "harness bookkeeping: drift not cleared after a full fault-free resync (queue=%d)", s.ips.resyncQueue.Len())
	}
	s.checkDesired("probe-resync:quiet")
	s.checkNoStale("probe-resync", false)
	s.checkForeign("probe-resync")
	return s.bad
}

var c16HexRe = regexp.MustCompile(`0x[0-9a-f]+`)

func c16PanicKey(val string, hist []c16Ev) string {
	if strings.Contains(val, "multiple retries") {
		return "C16:apply-gave-up-after-retries"
	}
	first := strings.SplitN(val, "\n", 2)[0]
	first = c16HexRe.ReplaceAllString(first, "0x?")
	if len(first) > 120 {
		first = first[:120]
	}
	return "C16:panic:" + first
}

func c16Spec(cfg c16Cfg, depth int, tree bool) *hbfs.Spec[*c16State, c16Ev] {
	mode := "graph"
	if tree {
		mode = "tree"
	}
	sp := &hbfs.Spec[*c16State, c16Ev]{
		Name:       fmt.Sprintf("ipsets-%s-step%dms-f%d-d%d", mode, cfg.Step/time.Millisecond, cfg.MaxFaults, depth),
		New:        func() *c16State { return c16NewState(cfg) },
		Apply:      c16Apply,
		Enabled:    c16Enabled,
		Check:      c16Check,
		Key:        func(s *c16State) string { return s.key },
		Nontrivial: func(s *c16State) bool { return s.evNontriv },
		Outcome:    func(s *c16State) string { return s.evOut },
		PanicKey:   c16PanicKey,
		MaxDepth:   depth,
		Workers:    6,
	}
	if tree {
		sp.Key = nil
	}
	return sp
}

func TestVerif_C16(t *testing.T) {
	logrus.SetLevel(logrus.PanicLevel)
	logrus.SetOutput(c16Discard{})
	vk.Run(t, "C16", func(c *vk.Ctx) {
		c.Rule("states = (kernel ipset model incl. rule references, desired sets, Felix's internal trackers/dirty set/resync-queue tiers/flags) over 2 set IDs (hash:ip a, hash:net b), 2 members each, maxelem {4,8}, 5 starting states (foreign sets only / plus stale Felix main+temp+legacy sets, each with or without an initial desired state); " +
			"transitions = one API call, one outside change to the kernel, a restart, or one apply cycle [QueueResync]+ApplyUpdates+tables+ApplyDeletions of the real IPSets with at most N injected command failures, fault points enumerated per state by a dry run (every command x every failure mode x every restore line / list-output line); " +
			"in every state two fault-free continuation probes (without and with resync) are run to quiescence; non-trivial = a cycle that changed the kernel or hit a fault")
		c.Assume("kernel ipset semantics are those of the harness model (create/add/del --exist/swap/destroy incl. destroy-refused-while-referenced, swap needs equal type); the set type of a given set ID never changes (the kernel cannot swap sets of different types, Felix encodes the type in the name)")
		c.Assume("rules reference exactly the desired sets that exist after each ApplyUpdates (the create-before-tables / delete-after-tables order of int_dataplane.apply is taken as given)")
		c.Assume("Go map iteration order inside Felix (order of list/restore lines for several dirty sets) is not controlled: each execution sees one arbitrary order; fault targets are identified by command text, not position, so they are stable under reordering")
		c.Assume("a set whose `ipset destroy` failed may stay until the next resync (documented behaviour); demanded gone only after a resync")
		quickCfg := c16Cfg{Step: BackgroundResyncTimeBudget, MaxFaults: 1, Reduced: true}
		if rf := c.ReplayFile(); rf != "" {
			var d struct {
				Spec    string
				History []string
			}
			if err := vk.LoadReplay(rf, &d); err != nil {
				c.ToolError(err.Error())
				return
			}
			cfg := quickCfg
			if strings.Contains(d.Spec, "-step0ms") {
				cfg.Step = 0
			}
			if strings.Contains(d.Spec, "-f2-") {
				cfg.MaxFaults = 2
			}
			cfg.Filter = true
			cfg.Reduced = false
			// (hbfs.Replay would run Check — whose probes drive the instance further — between the
			// steps; replay every prefix on a fresh instance instead, exactly as the explorer does)
			var fails []hbfs.Fail
			var evs []c16Ev
			for _, h := range d.History {
				var e c16Ev
				if err := json.Unmarshal([]byte(h), &e); err != nil {
					c.ToolError("bad event in replay file: " + err.Error())
					return
				}
				evs = append(evs, e)
			}
			for i := 1; i <= len(evs); i++ {
				if err := vk.Catch(func() error {
					fails = append(fails, c16Check(c16Replay(cfg, evs[:i]), evs[:i])...)
					return nil
				}); err != nil {
					fails = append(fails, hbfs.Fail{Key: c16PanicKey(err.Error(), nil), Msg: err.Error()})
					break
				}
			}
			for _, f := range fails {
				c.Violation(f.Key, map[string]any{"spec": d.Spec, "history": d.History, "msg": f.Msg})
			}
			c.Add("states", 1)
			c.Add("transitions", int64(len(d.History)))
			return
		}
		// a written-out explored case
		if err := vk.Catch(func() error {
			s := c16NewState(quickCfg)
			h := []c16Ev{{Op: "init", Init: "stale+want"}, {Op: "cycle"}, {Op: "set", ID: "a", Max: 8, M: []string{"10.0.0.2"}}}
			for _, e := range h {
				c16Apply(s, e)
			}
			rec := c16DryRun(s, false, nil)
			var pts []c16Fault
			for _, r := range rec {
				pts = append(pts, c16FaultPoints(r)...)
			}
			ev := c16Ev{Op: "cycle", Faults: []c16Fault{{Sig: "restore", Occ: 0, Mode: "line", Line: "swap cali40a cali4t*"}}}
			c16Apply(s, ev)
			c.Sample(map[string]any{"history": []string{h[0].String(), h[1].String(), h[2].String(), ev.String()},
				"commands_issued_by_last_cycle": s.lastCmds, "kernel_after": s.kernelString(), "fault_points_of_that_cycle": len(pts)})
			return nil
		}); err != nil {
			c.Violation(c16PanicKey(err.Error(), nil), map[string]any{"where": "sample history", "panic": err.Error()})
		}
		if c.Quick() {
			hbfs.Explore(c, c16Spec(quickCfg, 4, false))
			cfg := quickCfg
			cfg.Step = 0
			cfg.Filter = true
			cfg.MaxFaults = 0
			hbfs.Explore(c, c16Spec(cfg, 4, false))
			// two failures inside one apply cycle (e.g. a multi-set restore fails and a re-read of the
			// retry fails too), from every starting state
			two := quickCfg
			two.MaxFaults = 2
			hbfs.Explore(c, c16Spec(two, 2, false))
		} else {
			// small explorations first, so that a deadline hit on a loaded machine cuts the big ones
			cfg := c16Cfg{Step: BackgroundResyncTimeBudget, MaxFaults: 1, Reduced: true}
			hbfs.Explore(c, c16Spec(cfg, 3, true))
			cfg = c16Cfg{Step: BackgroundResyncTimeBudget, MaxFaults: 2, Reduced: true}
			hbfs.Explore(c, c16Spec(cfg, 3, false))
			cfg = c16Cfg{Step: BackgroundResyncTimeBudget, MaxFaults: 1, Filter: true}
			hbfs.Explore(c, c16Spec(cfg, 5, false))
			cfg = c16Cfg{Step: 0, MaxFaults: 1, Filter: true, Reduced: true}
			hbfs.Explore(c, c16Spec(cfg, 5, false))
		}
	})
}

type c16Discard struct{}

func (c16Discard) Write(p []byte) (int, error) { return len(p), nil }

var _ = os.Stderr

package windataplane

import (
	"fmt"
	"net"
	"net/netip"
	"regexp"
	"sort"
	"strconv"
	"strings"
	"sync"
	"testing"

	"github.com/sirupsen/logrus"

	"github.com/projectcalico/calico/felix/dataplane/windows/hns"
	winipsets "github.com/projectcalico/calico/felix/dataplane/windows/ipsets"
	"github.com/projectcalico/calico/felix/dataplane/windows/policysets"
	"github.com/projectcalico/calico/felix/proto"
	"github.com/projectcalico/calico/felix/types"
	"github.com/projectcalico/calico/libcalico-go/lib/set"
	"github.com/projectcalico/calico/zzverif/refpol"
	"github.com/projectcalico/calico/zzverif/vk"
)

// C30: Windows rule flattening preserves policy verdicts for supported rules.
//
// Real code: windows ipsets cache -> policysets.PolicySets (AddOrReplacePolicySet / protoRuleToHnsRules /
// GetPolicySetRules) driven through the real policyManager and endpointManager (tier assembly,
// flattenTiers, rewritePriorities) -> the hns.ACLPolicy list that would be applied to the endpoint.
// That list is interpreted as HNS would (lowest priority number first, first match decides) and compared
// with the reference policy evaluator (engine/refpol) on every packet of a small packet universe.

const c30EpIP = "10.0.0.2"

type c30HNS struct{}

func (c30HNS) GetHNSSupportedFeatures() hns.HNSSupportedFeatures {
	return hns.HNSSupportedFeatures{Acl: hns.HNSAclFeatures{AclAddressLists: true, AclNoHostRulePriority: true, AclPortRanges: true, AclRuleId: true}}
}

func (c30HNS) HNSListEndpointRequest() ([]hns.HNSEndpoint, error) {
	st := hns.EndpointState(0)
	for i := 0; i < 6; i++ {
		if hns.EndpointState(i).String() == "Attached" {
			st = hns.EndpointState(i)
		}
	}
	return []hns.HNSEndpoint{{Id: "ep-1", Name: "ep", VirtualNetworkName: "Calico", IPAddress: net.ParseIP(c30EpIP), State: st}}, nil
}

type c30Reader struct{}

func (c30Reader) ReadData() ([]byte, error) { return nil, policysets.ErrNoRuleSpecified }

// ---- rule shapes (direction-neutral: "remote" is the peer, "local" is the endpoint) ----

type c30Shape struct {
	Name       string
	Proto      string // "", "tcp", "udp#" (udp by number)
	RemoteNets []string
	RemoteSets []string
	LocalNets  []string
	LocalSets  []string
	DstPorts   []*proto.PortRange
	SrcPorts   []*proto.PortRange
	DstIPPort  []string // only for outbound rules
	MultiSet   bool     // several IP set ids in one field
	EgressOnly bool
}

func c30PR(a, b int32) *proto.PortRange { return &proto.PortRange{First: a, Last: b} }

func c30Shapes() []c30Shape {
	return []c30Shape{
		{Name: "any"},
		{Name: "tcp", Proto: "tcp"},
		{Name: "udp(17)", Proto: "udp#"},
		{Name: "remote-net1", RemoteNets: []string{"10.0.1.0/24"}},
		{Name: "remote-net2", RemoteNets: []string{"10.0.1.0/24", "10.0.2.0/24"}},
		{Name: "remote-net3", RemoteNets: []string{"10.0.1.0/24", "10.0.2.0/24", "172.16.0.0/16"}},
		{Name: "remote-net-v4v6", RemoteNets: []string{"10.0.2.0/24", "fe80::/64"}},
		{Name: "remote-net-v6only", RemoteNets: []string{"fe80::/64"}},
		{Name: "remote-setA", RemoteSets: []string{"A"}},
		{Name: "remote-setA+net1", RemoteSets: []string{"A"}, RemoteNets: []string{"10.0.1.0/24"}},
		{Name: "remote-setB+net(10.0.2/24)", RemoteSets: []string{"B"}, RemoteNets: []string{"10.0.2.0/24"}},
		{Name: "local-net-hit", LocalNets: []string{"10.0.0.0/24"}},
		{Name: "local-net-miss", LocalNets: []string{"10.0.5.0/24"}},
		{Name: "local-setL", LocalSets: []string{"L"}},
		{Name: "tcp-dport80", Proto: "tcp", DstPorts: []*proto.PortRange{c30PR(80, 80)}},
		{Name: "tcp-dport80,81-82", Proto: "tcp", DstPorts: []*proto.PortRange{c30PR(80, 80), c30PR(81, 82)}},
		{Name: "tcp-dport80,81,83+remote-net2", Proto: "tcp", DstPorts: []*proto.PortRange{c30PR(80, 80), c30PR(81, 81), c30PR(83, 83)}, RemoteNets: []string{"10.0.1.0/24", "10.0.2.0/24"}},
		{Name: "udp-sport1000", Proto: "udp", SrcPorts: []*proto.PortRange{c30PR(1000, 1000)}},
		{Name: "tcp-sport1000,3000-dport80", Proto: "tcp", SrcPorts: []*proto.PortRange{c30PR(1000, 1000), c30PR(3000, 3000)}, DstPorts: []*proto.PortRange{c30PR(80, 80)}},
		{Name: "remote-setB+local-net-hit+tcp", Proto: "tcp", RemoteSets: []string{"B"}, LocalNets: []string{"10.0.0.0/24"}},
		{Name: "dst-ipport-setP", DstIPPort: []string{"P"}, EgressOnly: true},
		{Name: "remote-setA,B", RemoteSets: []string{"A", "B"}, MultiSet: true},
		{Name: "tcp-dport83", Proto: "tcp", DstPorts: []*proto.PortRange{c30PR(83, 83)}},
		{Name: "tcp-dport81-83", Proto: "tcp", DstPorts: []*proto.PortRange{c30PR(81, 83)}},
	}
}

var c30Actions = []string{"allow", "deny", "pass"}

type c30RuleSpec struct {
	Shape  int
	Action int
}

func (g *c30Gen) rule(rs c30RuleSpec, inbound bool, id string) *proto.Rule {
	sh := g.shapes[rs.Shape]
	r := &proto.Rule{Action: c30Actions[rs.Action], RuleId: id}
	switch sh.Proto {
	case "tcp":
		r.Protocol = &proto.Protocol{NumberOrName: &proto.Protocol_Name{Name: "tcp"}}
	case "udp":
		r.Protocol = &proto.Protocol{NumberOrName: &proto.Protocol_Name{Name: "udp"}}
	case "udp#":
		r.Protocol = &proto.Protocol{NumberOrName: &proto.Protocol_Number{Number: 17}}
	}
	if inbound {
		r.SrcNet, r.SrcIpSetIds, r.DstNet, r.DstIpSetIds = sh.RemoteNets, sh.RemoteSets, sh.LocalNets, sh.LocalSets
	} else {
		r.DstNet, r.DstIpSetIds, r.SrcNet, r.SrcIpSetIds = sh.RemoteNets, sh.RemoteSets, sh.LocalNets, sh.LocalSets
		r.DstIpPortSetIds = sh.DstIPPort
	}
	r.DstPorts, r.SrcPorts = sh.DstPorts, sh.SrcPorts
	return r
}

// ---- IP set contents ----

type c30Sets struct {
	Name    string
	Members map[string][]string
}

func c30SetVariants() []c30Sets {
	p := []string{"10.0.9.9,tcp:80", "10.0.9.8,tcp:80", "10.0.9.9,udp:53"}
	return []c30Sets{
		{"V0", map[string][]string{"A": {"10.0.1.1/32"}, "B": {"10.0.2.1/32", "10.0.3.1/32"}, "L": {"10.0.0.2/32"}, "P": p}},
		{"V1", map[string][]string{"A": {"10.0.1.0/25", "10.0.3.1/32"}, "B": {"10.0.1.1/32"}, "L": {"10.0.0.0/24"}, "P": p[:1]}},
		{"V2", map[string][]string{"A": {}, "B": {"10.0.2.1/32"}, "L": {}, "P": {}}},
		{"V3", map[string][]string{"A": {"10.0.1.1/32", "10.0.1.200/32", "10.0.2.1/32"}, "B": {"10.0.1.200/32", "10.0.2.1/32"}, "L": {"10.0.0.3/32"}, "P": p}},
	}
}

// ---- tier layouts ----

type c30Tier struct {
	Name          string
	DefaultAction string
	Policies      [][]c30RuleSpec
}

type c30Case struct {
	Layout  string
	Tiers   []c30Tier
	Profile []c30RuleSpec
	Inbound bool
	Chunk   int
	Sets    int
}

type c30Gen struct {
	shapes []c30Shape
	sets   []c30Sets
	nMain  int            // shapes[:nMain] take part in the main product
	bShape map[string]int // boundary shapes: "<field>/<n>" -> index into shapes
	bSets  map[int]int    // list length -> index of the IP-set variant holding set Z with that many members
}

var c30BoundaryFields = []string{"remote-nets", "remote-set", "local-nets", "dst-ports", "src-ports"}

// c30AddrList: n distinct /32s; the given hit address is first, hit2 (if any) last, fillers in between.
func c30AddrList(n int, hit, hit2 string) []string {
	var out []string
	for i := 0; i < n; i++ {
		switch {
		case i == 0 && hit != "":
			out = append(out, hit+"/32")
		case i == n-1 && hit2 != "":
			out = append(out, hit2+"/32")
		default:
			out = append(out, fmt.Sprintf("10.2.%d.%d/32", i/250, i%250+1))
		}
	}
	return out
}

func c30PortList(n int, first, last int32) []*proto.PortRange {
	var out []*proto.PortRange
	for i := 0; i < n; i++ {
		switch {
		case i == 0:
			out = append(out, c30PR(first, first))
		case i == n-1:
			out = append(out, c30PR(last, last))
		default:
			out = append(out, c30PR(int32(10000+i), int32(10000+i)))
		}
	}
	return out
}

// addBoundaryShapes adds, for every list-valued match field and every length n, a rule shape whose list has
// exactly n entries (the packets' addresses/ports sit at the first and last position), plus an IP-set variant
// holding set Z with n members.
func (g *c30Gen) addBoundaryShapes(lengths []int) {
	g.nMain = len(g.shapes)
	g.bShape, g.bSets = map[string]int{}, map[int]int{}
	for _, n := range lengths {
		base := c30SetVariants()[0]
		m := map[string][]string{}
		for k, v := range base.Members {
			m[k] = v
		}
		m["Z"] = c30AddrList(n, "10.0.1.1", "10.0.2.1")
		g.bSets[n] = len(g.sets)
		g.sets = append(g.sets, c30Sets{fmt.Sprintf("VB%d", n), m})
		for _, f := range c30BoundaryFields {
			sh := c30Shape{Name: fmt.Sprintf("%s[%d entries]", f, n)}
			switch f {
			case "remote-nets":
				sh.RemoteNets = c30AddrList(n, "10.0.1.1", "10.0.2.1")
			case "remote-set":
				sh.RemoteSets = []string{"Z"}
			case "local-nets":
				sh.LocalNets = c30AddrList(n, "", c30EpIP) // the endpoint's address is the LAST entry
			case "dst-ports":
				sh.Proto, sh.DstPorts = "tcp", c30PortList(n, 80, 83)
			case "src-ports":
				sh.Proto, sh.SrcPorts = "tcp", c30PortList(n, 1000, 3000)
			}
			g.bShape[fmt.Sprintf("%s/%d", f, n)] = len(g.shapes)
			g.shapes = append(g.shapes, sh)
		}
	}
}

func (g *c30Gen) describe(cs c30Case) map[string]any {
	rs := func(l []c30RuleSpec) []string {
		var out []string
		for _, r := range l {
			out = append(out, c30Actions[r.Action]+" "+g.shapes[r.Shape].Name)
		}
		return out
	}
	var tiers []map[string]any
	for _, t := range cs.Tiers {
		var pols [][]string
		for _, p := range t.Policies {
			pols = append(pols, rs(p))
		}
		tiers = append(tiers, map[string]any{"tier": t.Name, "defaultAction": t.DefaultAction, "policies": pols})
	}
	dir := "outbound"
	if cs.Inbound {
		dir = "inbound"
	}
	sets := map[string]any{}
	for k, v := range g.sets[cs.Sets].Members {
		if len(v) > 8 {
			sets[k] = fmt.Sprintf("%d members: %s ... %s", len(v), strings.Join(v[:3], ","), v[len(v)-1])
		} else {
			sets[k] = v
		}
	}
	return map[string]any{"layout": cs.Layout, "tiers": tiers, "profile": rs(cs.Profile), "direction": dir, "chunk_size": cs.Chunk,
		"ipsets": sets, "endpoint_ip": c30EpIP}
}

// ---- packets ----

type c30Pkt struct {
	Remote       string
	Proto        int
	SPort, DPort int
}

func c30Packets() []c30Pkt {
	var out []c30Pkt
	for _, ra := range []string{"10.0.1.1", "10.0.1.200", "10.0.2.1", "10.0.3.1", "172.16.0.1", "10.0.9.9"} {
		for _, pr := range []int{6, 17} {
			for _, dp := range []int{80, 81, 83, 53} {
				for _, sp := range []int{1000, 3000} {
					out = append(out, c30Pkt{ra, pr, sp, dp})
				}
			}
		}
		out = append(out, c30Pkt{ra, 1, 0, 0})
	}
	return out
}

// ---- HNS ACL interpreter ----

func c30AddrIn(list string, a netip.Addr) (bool, error) {
	for _, s := range strings.Split(list, ",") {
		s = strings.TrimSpace(s)
		if strings.Contains(s, "/") {
			p, err := netip.ParsePrefix(s)
			if err != nil {
				return false, fmt.Errorf("bad address %q", s)
			}
			if p.Contains(a) {
				return true, nil
			}
		} else {
			x, err := netip.ParseAddr(s)
			if err != nil {
				return false, fmt.Errorf("bad address %q", s)
			}
			if x == a {
				return true, nil
			}
		}
	}
	return false, nil
}

func c30PortIn(list string, port int) (bool, error) {
	for _, s := range strings.Split(list, ",") {
		s = strings.TrimSpace(s)
		lo, hi := s, s
		if i := strings.Index(s, "-"); i >= 0 {
			lo, hi = s[:i], s[i+1:]
		}
		l, e1 := strconv.Atoi(lo)
		h, e2 := strconv.Atoi(hi)
		if e1 != nil || e2 != nil {
			return false, fmt.Errorf("bad port %q", s)
		}
		if port >= l && port <= h {
			return true, nil
		}
	}
	return false, nil
}

func c30ACLMatches(r *hns.ACLPolicy, local, remote netip.Addr, protoNum, localPort, remotePort int) (bool, error) {
	if r.Protocol != 256 && int(r.Protocol) != protoNum {
		return false, nil
	}
	if r.LocalAddresses != "" {
		if ok, err := c30AddrIn(r.LocalAddresses, local); err != nil || !ok {
			return false, err
		}
	}
	if r.RemoteAddresses != "" {
		if ok, err := c30AddrIn(r.RemoteAddresses, remote); err != nil || !ok {
			return false, err
		}
	}
	hasPorts := protoNum == 6 || protoNum == 17
	if r.LocalPorts != "" {
		if !hasPorts {
			return false, nil
		}
		if ok, err := c30PortIn(r.LocalPorts, localPort); err != nil || !ok {
			return false, err
		}
	}
	if r.RemotePorts != "" {
		if !hasPorts {
			return false, nil
		}
		if ok, err := c30PortIn(r.RemotePorts, remotePort); err != nil || !ok {
			return false, err
		}
	}
	return true, nil
}

// ---- one case through the real pipeline ----

type c30Built struct {
	rules  []*hns.ACLPolicy // Switch rules of the direction under test, sorted by priority (stable)
	direct []*hns.ACLPolicy // single-tier cases: GetPolicySetRules output for that tier (before flattening / priority rewrite)
	err    string
	key    string
}

func (g *c30Gen) runPipeline(cs c30Case) (b c30Built) {
	ipc := winipsets.NewIPSets(winipsets.NewIPVersionConfig(winipsets.IPFamilyV4))
	ipc.SetCallback(func(string) {})
	for id, m := range g.sets[cs.Sets].Members {
		typ := winipsets.IPSetType("hash:net")
		if id == "P" {
			typ = winipsets.IPSetTypeHashIPPort
		}
		ipc.AddOrReplaceIPSet(winipsets.IPSetMetadata{SetID: id, Type: typ, MaxSize: 1000}, m)
	}
	ps := policysets.NewPolicySets(c30HNS{}, []policysets.IPSetCache{ipc}, c30Reader{})
	policysets.VerifSetChunk(ps, cs.Chunk)
	defer policysets.VerifClearChunk(ps)
	pm := newPolicyManager(ps)
	em := &endpointManager{
		hns:                 c30HNS{},
		hnsNetworkRegexp:    regexp.MustCompile(defaultNetworkName),
		policysetsDataplane: ps,
		addressToEndpointId: map[string]string{},
		activeWlEndpoints:   map[types.WorkloadEndpointID]*proto.WorkloadEndpoint{},
		activeWlACLPolicies: map[types.WorkloadEndpointID][]*hns.ACLPolicy{},
		pendingWlEpUpdates:  map[types.WorkloadEndpointID]*proto.WorkloadEndpoint{},
		pendingIPSetUpdate:  set.New[string](),
	}
	wep := &proto.WorkloadEndpoint{Name: "ep", Ipv4Nets: []string{c30EpIP + "/32"}, ProfileIds: []string{"prof"}}
	n := 0
	for _, t := range cs.Tiers {
		ti := &proto.TierInfo{Name: t.Name, DefaultAction: t.DefaultAction}
		for pi, pol := range t.Policies {
			id := &proto.PolicyID{Name: fmt.Sprintf("%s.p%d", t.Name, pi), Kind: "GlobalNetworkPolicy"}
			var rules []*proto.Rule
			for _, rs := range pol {
				n++
				rules = append(rules, g.rule(rs, cs.Inbound, fmt.Sprintf("r%d", n)))
			}
			p := &proto.Policy{Tier: t.Name}
			if cs.Inbound {
				p.InboundRules = rules
				ti.IngressPolicies = append(ti.IngressPolicies, id)
			} else {
				p.OutboundRules = rules
				ti.EgressPolicies = append(ti.EgressPolicies, id)
			}
			pm.OnUpdate(&proto.ActivePolicyUpdate{Id: id, Policy: p})
		}
		wep.Tiers = append(wep.Tiers, ti)
	}
	var prules []*proto.Rule
	for _, rs := range cs.Profile {
		n++
		prules = append(prules, g.rule(rs, cs.Inbound, fmt.Sprintf("r%d", n)))
	}
	prof := &proto.Profile{}
	if cs.Inbound {
		prof.InboundRules = prules
	} else {
		prof.OutboundRules = prules
	}
	pm.OnUpdate(&proto.ActiveProfileUpdate{Id: &proto.ProfileID{Name: "prof"}, Profile: prof})
	if len(cs.Tiers) == 1 {
		ti := wep.Tiers[0]
		ids := ti.EgressPolicies
		if cs.Inbound {
			ids = ti.IngressPolicies
		}
		b.direct = ps.GetPolicySetRules(policyIDsToStrings(policysets.PolicyNamePrefix, ids), cs.Inbound, cs.Tiers[0].DefaultAction != "Pass")
	}
	wid := &proto.WorkloadEndpointID{OrchestratorId: "k8s", WorkloadId: "ns/ep", EndpointId: "eth0"}
	em.OnUpdate(&proto.WorkloadEndpointUpdate{Id: wid, Endpoint: wep})
	if err := em.CompleteDeferredWork(); err != nil {
		b.err, b.key = "CompleteDeferredWork: "+err.Error(), "C30:pipeline-error"
		return
	}
	all, ok := em.activeWlACLPolicies[types.ProtoToWorkloadEndpointID(wid)]
	if !ok {
		b.err, b.key = "no ACL rules recorded for the endpoint", "C30:pipeline-error"
		return
	}
	dir := hns.Out
	if cs.Inbound {
		dir = hns.In
	}
	for _, r := range all {
		if r.Direction != dir || r.RuleType != hns.Switch {
			continue
		}
		if r.Action != hns.Allow && r.Action != hns.Block {
			b.err, b.key = fmt.Sprintf("rule %q has action %q after flattening", r.Id, r.Action), "C30:non-hns-action-in-final-rules"
			return
		}
		b.rules = append(b.rules, r)
	}
	sort.SliceStable(b.rules, func(i, j int) bool { return b.rules[i].Priority < b.rules[j].Priority })
	// "If we write two HNS rules at the same priority, HNS has a different tie-break algorithm to Calico":
	// rules sharing a priority must therefore share the action.
	for i := 1; i < len(b.rules); i++ {
		if b.rules[i].Priority == b.rules[i-1].Priority && b.rules[i].Action != b.rules[i-1].Action {
			b.err, b.key = fmt.Sprintf("rules %q and %q share priority %d but differ in action", b.rules[i-1].Id, b.rules[i].Id, b.rules[i].Priority), "C30:same-priority-different-action"
			return
		}
	}
	return
}

// ---- reference ----

func (g *c30Gen) reference(cs c30Case) *refpol.Endpoint {
	ep := &refpol.Endpoint{}
	n := 0
	mk := func(l []c30RuleSpec) []refpol.Rule {
		var rules []*proto.Rule
		for _, rs := range l {
			n++
			rules = append(rules, g.rule(rs, cs.Inbound, fmt.Sprintf("r%d", n)))
		}
		return refpol.ProtoRules(rules)
	}
	for _, t := range cs.Tiers {
		rt := refpol.Tier{Name: t.Name, DefaultAction: t.DefaultAction}
		for pi, pol := range t.Policies {
			rt.Policies = append(rt.Policies, refpol.Policy{Name: fmt.Sprintf("%s.p%d", t.Name, pi), Rules: mk(pol)})
		}
		ep.Tiers = append(ep.Tiers, rt)
	}
	ep.Profiles = []refpol.Profile{{Name: "prof", Rules: mk(cs.Profile)}}
	return ep
}

func (g *c30Gen) refPacket(cs c30Case, p c30Pkt) *refpol.Packet {
	remote, local := netip.MustParseAddr(p.Remote), netip.MustParseAddr(c30EpIP)
	rp := &refpol.Packet{IPVersion: 4, Proto: p.Proto, SrcPort: p.SPort, DstPort: p.DPort,
		SrcIPSets: map[string]bool{}, DstIPSets: map[string]bool{}, SrcIPPortSets: map[string]bool{}, DstIPPortSets: map[string]bool{}}
	if cs.Inbound {
		rp.Src, rp.Dst = remote, local
	} else {
		rp.Src, rp.Dst = local, remote
	}
	for id, members := range g.sets[cs.Sets].Members {
		if id == "P" {
			for _, m := range members {
				parts := strings.Split(m, ",")
				pp := strings.Split(parts[1], ":")
				port, _ := strconv.Atoi(pp[1])
				pn := map[string]int{"tcp": 6, "udp": 17}[pp[0]]
				if netip.MustParseAddr(parts[0]) == rp.Dst && pn == p.Proto && port == p.DPort {
					rp.DstIPPortSets[id] = true
				}
			}
			continue
		}
		for _, m := range members {
			pf := netip.MustParsePrefix(m)
			if pf.Contains(rp.Src) {
				rp.SrcIPSets[id] = true
			}
			if pf.Contains(rp.Dst) {
				rp.DstIPSets[id] = true
			}
		}
	}
	return rp
}

type c30W struct {
	c        *vk.Ctx
	g        *c30Gen
	pkts     []c30Pkt
	states   int64
	evals    int64
	undec    int64
	multiMis int64
	seen     map[string]bool
	outc     map[string]bool
}

func (w *c30W) flush() {
	w.c.Add("states", w.states)
	w.c.Add("transitions", w.evals)
	w.c.Add("reference_undecided_skipped", w.undec)
	w.c.Add("multi_ipset_field_union_mismatches_not_violations", w.multiMis)
	w.states, w.evals, w.undec, w.multiMis = 0, 0, 0, 0
	for s := range w.seen {
		w.c.Nontrivial(s)
	}
	for s := range w.outc {
		w.c.Outcome(s)
	}
	w.seen, w.outc = map[string]bool{}, map[string]bool{}
}

func (w *c30W) check(cs c30Case) {
	var b c30Built
	perr := vk.Catch(func() error { b = w.g.runPipeline(cs); return nil })
	w.states++
	w.evals++
	if perr != nil {
		key := "C30:pipeline-panics"
		if strings.Contains(perr.Error(), "bitset said no end of range") {
			key = "C30:flattener-combine-ports-panics"
		}
		w.c.Violation(key, map[string]any{"case": w.g.describe(cs), "panic": perr.Error()})
		return
	}
	if b.key != "" {
		w.c.Violation(b.key, map[string]any{"case": w.g.describe(cs), "problem": b.err})
		return
	}
	if b.direct != nil && !w.checkDirect(cs, b.direct) {
		return
	}
	ref := w.g.reference(cs)
	multi := false
	usesPass := false
	for _, t := range cs.Tiers {
		for _, p := range t.Policies {
			for _, r := range p {
				multi = multi || w.g.shapes[r.Shape].MultiSet
				usesPass = usesPass || r.Action == 2
			}
		}
		usesPass = usesPass || t.DefaultAction == "Pass"
	}
	for _, r := range cs.Profile {
		multi = multi || w.g.shapes[r.Shape].MultiSet
	}
	local := netip.MustParseAddr(c30EpIP)
	sawA, sawD := false, false
	for _, p := range w.pkts {
		rp := w.g.refPacket(cs, p)
		v := refpol.EndpointVerdict(ref, rp, refpol.Options{})
		w.evals++
		if v.Decision == refpol.Undecided {
			w.undec++
			continue
		}
		remote := netip.MustParseAddr(p.Remote)
		lport, rport := p.SPort, p.DPort
		if cs.Inbound {
			lport, rport = p.DPort, p.SPort
		}
		got := "no-rule-matched"
		var by *hns.ACLPolicy
		for _, r := range b.rules {
			m, err := c30ACLMatches(r, local, remote, p.Proto, lport, rport)
			if err != nil {
				w.c.Violation("C30:unparseable-hns-rule", map[string]any{"case": w.g.describe(cs), "rule": r, "error": err.Error()})
				return
			}
			if m {
				by = r
				if r.Action == hns.Allow {
					got = "allow"
				} else {
					got = "deny"
				}
				break
			}
		}
		want := v.Decision.String()
		if want == "allow" {
			sawA = true
		} else {
			sawD = true
		}
		if got == want {
			continue
		}
		if multi {
			// Several IP-set ids in one match field: PolicySets unions them where proto.Rule semantics intersect.
			// Not a violation: Felix's calculation graph never emits such a rule from a validated datastore
			// (at most one selector set per field; selector+services is rejected by the API) and the union is
			// pinned by the repo's own TestMultiIpPortChunks.  Counted as evidence only.
			w.multiMis++
			continue
		}
		tag := "flattening"
		defaultTierHasPolicies := false
		for _, t := range cs.Tiers {
			if t.Name == "default" && len(t.Policies) > 0 {
				defaultTierHasPolicies = true
			}
		}
		switch {
		case (v.Reason == refpol.ByProfileRule || v.Reason == refpol.ByNoProfileMatch) && defaultTierHasPolicies:
			tag = "profiles-unreachable-after-default-tier"
		case usesPass:
			tag = "pass-rule-combination"
		}
		if cs.Chunk < 4000 && tag == "flattening" {
			tag = "chunked-flattening"
		}
		dir := "outbound"
		if cs.Inbound {
			dir = "inbound"
		}
		w.c.Violation(fmt.Sprintf("C30:%s:%s:want-%s-got-%s", tag, dir, want, got), map[string]any{
			"case": w.g.describe(cs), "packet": map[string]any{"remote": p.Remote, "proto": p.Proto, "sport": p.SPort, "dport": p.DPort},
			"reference":   map[string]any{"decision": want, "reason": v.Reason.String(), "tier": v.Tier, "policy": v.Policy, "profile": v.Profile, "rule": v.Rule},
			"hns_verdict": got, "hns_deciding_rule": by, "hns_rules": b.rules})
	}
	if len(cs.Tiers) > 0 || len(cs.Profile) > 1 {
		w.seen[fmt.Sprintf("%+v", cs)] = true
	}
	w.outc[fmt.Sprintf("%s|in=%v|chunk=%d|allow=%v|deny=%v|nrules=%d", cs.Layout, cs.Inbound, cs.Chunk, sawA, sawD, len(b.rules))] = true
}

// checkDirect evaluates the per-tier output of GetPolicySetRules (before flattening and before the endpoint
// manager rewrites priorities): priority order, first match; a packet that the reference lets leave the tier
// must hit a "pass" rule.
func (w *c30W) checkDirect(cs c30Case, rules []*hns.ACLPolicy) bool {
	var rs []*hns.ACLPolicy
	dir := hns.Out
	if cs.Inbound {
		dir = hns.In
	}
	for _, r := range rules {
		if r.Direction == dir && r.RuleType == hns.Switch {
			rs = append(rs, r)
		}
	}
	sort.SliceStable(rs, func(i, j int) bool { return rs[i].Priority < rs[j].Priority })
	for i := 1; i < len(rs); i++ {
		if rs[i].Priority == rs[i-1].Priority && rs[i].Action != rs[i-1].Action {
			w.c.Violation("C30:same-priority-different-action", map[string]any{"case": w.g.describe(cs), "stage": "GetPolicySetRules", "rules": rs,
				"problem": fmt.Sprintf("rules %q and %q share priority %d but differ in action", rs[i-1].Id, rs[i].Id, rs[i].Priority)})
			return false
		}
	}
	full := w.g.reference(cs)
	ref := &refpol.Endpoint{Tiers: full.Tiers} // this tier only, no profiles
	for _, sp := range cs.Tiers[0].Policies {
		for _, r := range sp {
			if w.g.shapes[r.Shape].MultiSet {
				return true // reported by the end-to-end comparison under its own key
			}
		}
	}
	local := netip.MustParseAddr(c30EpIP)
	for _, p := range w.pkts {
		v := refpol.EndpointVerdict(ref, w.g.refPacket(cs, p), refpol.Options{})
		w.evals++
		want := ""
		switch {
		case v.Decision == refpol.Undecided:
			continue
		case v.Reason == refpol.ByPolicyRule || v.Reason == refpol.ByEndOfTier:
			want = v.Decision.String()
		default:
			want = "pass"
		}
		remote := netip.MustParseAddr(p.Remote)
		lport, rport := p.SPort, p.DPort
		if cs.Inbound {
			lport, rport = p.DPort, p.SPort
		}
		got := "no-rule-matched"
		for _, r := range rs {
			m, err := c30ACLMatches(r, local, remote, p.Proto, lport, rport)
			if err != nil {
				w.c.Violation("C30:unparseable-hns-rule", map[string]any{"case": w.g.describe(cs), "rule": r, "error": err.Error()})
				return false
			}
			if m {
				got = map[hns.ActionType]string{hns.Allow: "allow", hns.Block: "deny", policysets.ActionPass: "pass"}[r.Action]
				break
			}
		}
		if got != want {
			w.c.Violation(fmt.Sprintf("C30:tier-rules:want-%s-got-%s", want, got), map[string]any{"case": w.g.describe(cs), "stage": "GetPolicySetRules",
				"packet": map[string]any{"remote": p.Remote, "proto": p.Proto, "sport": p.SPort, "dport": p.DPort}, "rules": rs})
			return false
		}
	}
	return true
}

func c30BoundaryLengths(c int) []int {
	seen := map[int]bool{}
	var out []int
	for _, n := range []int{0, c - 1, c, c + 1, 2 * c} {
		if n >= 0 && !seen[n] {
			seen[n] = true
			out = append(out, n)
		}
	}
	return out
}

func TestVerif_C30(t *testing.T) {
	vk.Run(t, "C30", func(c *vk.Ctx) {
		logrus.SetLevel(logrus.PanicLevel)
		logrus.StandardLogger().ExitFunc = func(int) { panic("logrus.Fatal") }
		g := &c30Gen{shapes: c30Shapes(), sets: c30SetVariants()}
		nMainSets := len(g.sets)

		// is the chunk hook compiled in?
		hook := false
		{
			ps := policysets.NewPolicySets(c30HNS{}, nil, c30Reader{})
			policysets.VerifSetChunk(ps, 1)
			before := policysets.VerifChunkCalls.Load()
			ps.AddOrReplacePolicySet("policy-x", &proto.Policy{InboundRules: []*proto.Rule{{Action: "allow", SrcNet: []string{"10.0.1.0/24", "10.0.2.0/24"}}}})
			hook = policysets.VerifChunkCalls.Load() > before // the rewritten constant is read through the hook
			policysets.VerifClearChunk(ps)
		}
		c.Extra("chunk_hook_active", hook)
		chunks := []int{1, 2, 4000}
		if !hook {
			chunks = []int{4000}
			c.Extra("chunk_hook_note", "rewrite of 'const ipPortsPerRule = 4000' did not apply to this tree: only the production chunk size is explored")
		}
		{
			seen := map[int]bool{}
			var lengths []int
			for _, ch := range chunks {
				for _, n := range c30BoundaryLengths(ch) {
					if !seen[n] {
						seen[n] = true
						lengths = append(lengths, n)
					}
				}
			}
			g.addBoundaryShapes(lengths)
		}
		c.Rule("Splitter boundaries: for every chunk size c and every list-valued field (remote CIDRs, remote IP set, local CIDRs, dst ports, src ports) a rule whose list has exactly n entries, n in {0, c-1, c, c+1, 2c} (hits at the first and last position), x allow/deny followed by the opposite catch-all x direction. " +
			"Rules: 24 supported match shapes (protocol by name/number, 1-3 remote CIDRs incl. mixed v4/v6, IP sets alone / intersected with CIDRs / empty intersection, local nets and sets, dst/src port lists and ranges, dst ip-port set (egress), two IP sets in one field) x {allow, deny, pass}. " +
			"Layouts (r1, r2 range over the rule pool): A default tier, one policy [r1,r2]; B tier t1 [r1] then default tier [r2]; C t1 with default action Pass [r1] then default tier [r2]; D t1 [r1], profile [r2]; E t1 default action Pass [r1], profile [r2]; F profile [r1,r2] only; G default tier with two policies [r1],[r2]; profile = allow-all where not stated. " +
			"x direction {inbound,outbound} x chunk size {1,2,4000} x 4 IP-set content variants (single member, CIDR member overlapping the rule CIDRs, empty sets, overlapping sets). Every case is driven through the real ipsets cache, PolicySets, policyManager and endpointManager (flattenTiers, rewritePriorities); " +
			"the resulting ACL list is evaluated for 102 packets (6 remote addresses x tcp/udp x 4 dst ports x 2 src ports + icmp). Non-trivial = at least one policy tier or two profile rules.")
		c.Assume("HNS evaluates the Switch ACL rules of one direction by ascending Priority and the first matching rule decides; Protocol 256 = any; empty address/port fields = any; rules sharing a priority must share the action (asserted).")
		c.Assume("Reference = engine/refpol (tiers in order, pass -> next tier, tier without match denies unless default action Pass, then profiles). Cases where refpol answers Undecided (pass rule inside a profile) are counted and skipped.")
		c.Assume("Rules with several IP-set ids in ONE match field (shape remote-setA,B) are outside the violation space: unreachable from a validated datastore and pinned by the repo's TestMultiIpPortChunks; HNS/reference disagreements on them are only counted (multi_ipset_field_union_mismatches_not_violations).")
		c.Extra("multi_ipset_field_note", "PolicySets.getIPSetAddresses unions several IP-set ids of one field whereas proto.Rule semantics intersect them; classified unreachable (lead decision), counted not reported")
		c.Assume("The endpointManager is built without host addresses (no host->endpoint allow rule) and with HNS feature flags all on.")

		pkts := c30Packets()
		type job func(w *c30W)
		jobs := make(chan job, 4096)
		var wg sync.WaitGroup
		for i := 0; i < 6; i++ {
			wg.Add(1)
			go func() {
				defer wg.Done()
				w := &c30W{c: c, g: g, pkts: pkts, seen: map[string]bool{}, outc: map[string]bool{}}
				for j := range jobs {
					if c.Expired() {
						c.Capped("deadline")
						continue
					}
					j(w)
					w.flush()
				}
			}()
		}
		allow := []c30RuleSpec{{0, 0}}
		layouts := func(r1, r2 c30RuleSpec) []c30Case {
			return []c30Case{
				{Layout: "A", Tiers: []c30Tier{{"default", "Deny", [][]c30RuleSpec{{r1, r2}}}}, Profile: allow},
				{Layout: "B", Tiers: []c30Tier{{"t1", "Deny", [][]c30RuleSpec{{r1}}}, {"default", "Deny", [][]c30RuleSpec{{r2}}}}, Profile: allow},
				{Layout: "C", Tiers: []c30Tier{{"t1", "Pass", [][]c30RuleSpec{{r1}}}, {"default", "Deny", [][]c30RuleSpec{{r2}}}}, Profile: allow},
				{Layout: "D", Tiers: []c30Tier{{"t1", "Deny", [][]c30RuleSpec{{r1}}}}, Profile: []c30RuleSpec{r2}},
				{Layout: "E", Tiers: []c30Tier{{"t1", "Pass", [][]c30RuleSpec{{r1}}}}, Profile: []c30RuleSpec{r2}},
				{Layout: "F", Profile: []c30RuleSpec{r1, r2}},
				{Layout: "G", Tiers: []c30Tier{{"default", "Deny", [][]c30RuleSpec{{r1}, {r2}}}}, Profile: allow},
			}
		}
		r2Shapes := []int{0, 2, 4, 8, 11, 14, 18, 22}
		if c.Thorough() {
			r2Shapes = nil
			for i := 0; i < g.nMain; i++ {
				r2Shapes = append(r2Shapes, i)
			}
		}
		// Splitter boundaries: every list-valued field x list lengths {0, c-1, c, c+1, 2c} for every chunk size c.
		for _, ch := range chunks {
			for _, n := range c30BoundaryLengths(ch) {
				jobs <- func(w *c30W) {
					for _, f := range c30BoundaryFields {
						for a := 0; a < 2; a++ {
							for _, inbound := range []bool{true, false} {
								r := c30RuleSpec{g.bShape[fmt.Sprintf("%s/%d", f, n)], a}
								catchAll := c30RuleSpec{0, 1 - a}
								w.check(c30Case{Layout: "S-" + f, Tiers: []c30Tier{{"default", "Deny", [][]c30RuleSpec{{r, catchAll}}}}, Profile: allow,
									Inbound: inbound, Chunk: ch, Sets: g.bSets[n]})
							}
						}
					}
				}
			}
		}
		for s1 := 0; s1 < g.nMain; s1++ {
			for a1 := range c30Actions {
				jobs <- func(w *c30W) {
					for _, s2 := range r2Shapes {
						for a2 := range c30Actions {
							for _, inbound := range []bool{true, false} {
								if inbound && (g.shapes[s1].EgressOnly || g.shapes[s2].EgressOnly) {
									continue
								}
								for _, lay := range layouts(c30RuleSpec{s1, a1}, c30RuleSpec{s2, a2}) {
									for sv := 0; sv < nMainSets; sv++ {
										for _, ch := range chunks {
											if w.c.Quick() && sv >= 2 && ch != 4000 {
												continue
											}
											cs := lay
											cs.Inbound, cs.Chunk, cs.Sets = inbound, ch, sv
											w.check(cs)
										}
									}
								}
							}
						}
						if w.c.Expired() {
							w.c.Capped("deadline")
							return
						}
					}
				}
			}
		}
		close(jobs)
		wg.Wait()

		// sample
		cs := layouts(c30RuleSpec{9, 2}, c30RuleSpec{15, 0})[1]
		cs.Inbound, cs.Chunk, cs.Sets = true, 1, 1
		b := g.runPipeline(cs)
		verd := map[string]string{}
		ref := g.reference(cs)
		for _, p := range []c30Pkt{{"10.0.1.1", 6, 1000, 80}, {"10.0.1.1", 6, 1000, 83}, {"10.0.1.200", 6, 1000, 80}} {
			v := refpol.EndpointVerdict(ref, g.refPacket(cs, p), refpol.Options{})
			verd[fmt.Sprintf("%+v", p)] = "reference=" + v.Decision.String()
		}
		c.Sample(map[string]any{"case": g.describe(cs), "hns_rules": b.rules, "reference_verdicts": verd})
	})
}

package dedupebuffer

// C25 — reconnecting to Typha converges without stale or lost resources.
//
// Explicit-state search over the REAL DedupeBuffer. Every exported call of the buffer is one critical
// section under d.lock and the consumer's delivery (outside the lock) touches only the sink, so every
// thread interleaving of producer (Typha client goroutine) and consumer (SendToSinkForever) is an
// ordering of the atomic actions below; those orderings are enumerated exhaustively.
//
// Two environments drive the same buffer + sink + oracle:
//   - "any":   any upstream stream: update/delete of k1,k2 (values 1,2), any status, bare
//              OnTyphaConnectionRestarted, the client's exact restart triple, and consumer pulls.
//   - "typha": upstream generated from a ground-truth datastore per connection: on (re)connect the
//              connection replays a snapshot of the datastore as of the join (any order, singly or as
//              one batch), datastore changes made meanwhile queue up as deltas and are sent after the
//              snapshot, InSync is sent at any point after the snapshot. The restart is the client's
//              real 3-call sequence with the consumer free to run between the calls.
//
// Oracle (only what the statement says): the "connection view" is the fold of everything the latest
// connection has sent. Whenever the latest connection has reported InSync and the queue is empty the
// sink's view must equal it; every non-delete delivered to the sink must be typed New iff the sink
// does not hold the key.

import (
	"container/list"
	"fmt"
	"sort"
	"strings"
	"testing"

	"github.com/sirupsen/logrus"

	"github.com/projectcalico/calico/libcalico-go/lib/backend/api"
	"github.com/projectcalico/calico/libcalico-go/lib/backend/model"
	"github.com/projectcalico/calico/zzverif/hbfs"
	"github.com/projectcalico/calico/zzverif/vk"
)

type c25KV struct {
	K string
	V string // "" = delete
}

type c25Ev struct {
	Op string  // upd | status | restart | restart3 | pull | pullall | mut | snap | snapall | delta | insync | resync | rs-wait | rs-resync
	B  []c25KV `json:",omitempty"`
	S  int     `json:",omitempty"` // status for "status"
	N  int     `json:",omitempty"` // batch size for "pull"
	// Rev: for an InSync status, the deletions the buffer synthesizes for not-re-sent keys are queued in
	// descending key order instead of ascending (the real code iterates a Go map: either order can happen).
	Rev bool `json:",omitempty"`
}

func (e c25Ev) String() string { return vk.JSON(e) }

var c25Keys = []string{"k1", "k2"}
var c25Vals = []string{"1", "2"}

func c25Key(k string) model.Key { return model.HostConfigKey{Hostname: "h", Name: k} }

type c25Sink struct {
	st       *c25State
	view     map[string]string
	status   api.SyncStatus
	gotStat  bool
	nUpdates int
}

func (r *c25Sink) OnStatusUpdated(s api.SyncStatus) { r.status = s; r.gotStat = true }

func (r *c25Sink) OnUpdates(us []api.Update) {
	for _, u := range us {
		k := u.Key.(model.HostConfigKey).Name
		r.nUpdates++
		_, held := r.view[k]
		if u.Value == nil {
			if !held {
				r.st.delAbsent++
			}
			if _, inConn := r.st.conn[k]; inConn {
				r.st.transientDel++
			}
			delete(r.view, k)
			continue
		}
		switch {
		case u.UpdateType == api.UpdateTypeKVNew && held:
			r.st.fail("update-type:new-for-held-key", "sink holds %s=%s but received %s=%v typed 'new'", k, r.view[k], k, u.Value)
		case u.UpdateType == api.UpdateTypeKVUpdated && !held:
			r.st.fail("update-type:updated-for-absent-key", "sink does not hold %s but received %s=%v typed 'updated'", k, k, u.Value)
		case u.UpdateType != api.UpdateTypeKVNew && u.UpdateType != api.UpdateTypeKVUpdated:
			r.st.fail("update-type:other", "non-delete %s=%v delivered with update type %v", k, u.Value, u.UpdateType)
		}
		if r.st.conn[k] != u.Value.(string) {
			r.st.transientStale++
		}
		r.view[k] = u.Value.(string)
	}
}

type c25State struct {
	mode string
	d    *DedupeBuffer
	sink *c25Sink
	// fold of what the latest connection has sent
	conn       map[string]string
	connInSync bool
	restarts   int
	bad        []hbfs.Fail
	// informational counters (not part of the oracle)
	delAbsent, transientDel, transientStale int
	// "typha" environment
	ds       map[string]string // ground truth
	snapVals map[string]string // snapshot being replayed
	snapRem  []string          // keys of the snapshot not yet sent (sorted)
	backlog  []c25KV           // deltas waiting behind the snapshot
	phase    int               // 0 connected; 1 after OnTyphaConnectionRestarted; 2 after WaitForDatastore
	lastSent api.SyncStatus
}

func (s *c25State) fail(key, f string, a ...any) {
	s.bad = append(s.bad, hbfs.Fail{Key: "C25:" + key, Msg: fmt.Sprintf(f, a...)})
}

func c25New(mode string) *c25State {
	s := &c25State{mode: mode, d: New(), conn: map[string]string{}, ds: map[string]string{}, snapVals: map[string]string{}}
	s.sink = &c25Sink{st: s, view: map[string]string{}}
	if mode == "typha" {
		// first connection: SyncerClient.loop starts with ResyncInProgress; snapshot of the (empty) datastore.
		s.d.OnStatusUpdated(api.ResyncInProgress)
		s.lastSent = api.ResyncInProgress
	}
	return s
}

// send pushes a batch through the real OnUpdates and folds it into the connection view.
func (s *c25State) send(b []c25KV) {
	us := make([]api.Update, 0, len(b))
	for _, kv := range b {
		u := api.Update{KVPair: model.KVPair{Key: c25Key(kv.K)}}
		if kv.V == "" {
			u.UpdateType = api.UpdateTypeKVDeleted
			delete(s.conn, kv.K)
		} else {
			u.Value = kv.V
			// what a server that knows only this connection would say
			if _, ok := s.conn[kv.K]; ok {
				u.UpdateType = api.UpdateTypeKVUpdated
			} else {
				u.UpdateType = api.UpdateTypeKVNew
			}
			s.conn[kv.K] = kv.V
		}
		us = append(us, u)
	}
	s.d.OnUpdates(us)
}

func (s *c25State) status(st api.SyncStatus, rev ...bool) {
	n0 := s.d.pendingUpdates.Len()
	s.d.OnStatusUpdated(st)
	if st == api.InSync {
		// Control the one source of runtime nondeterminism: onInSyncAfterReconnection ranges over a map, so
		// the deletions it PUSHES (entries replaced in place keep their position) come in either order.
		// Put the newly pushed tail entries into the order this event asks for.
		var fresh []*list.Element
		i := 0
		for e := s.d.pendingUpdates.Front(); e != nil; e = e.Next() {
			if _, ok := e.Value.(updateWithKey); ok && i >= n0 {
				fresh = append(fresh, e)
			}
			i++
		}
		if len(fresh) == 2 {
			a := fresh[0].Value.(updateWithKey).key.(model.HostConfigKey).Name
			b := fresh[1].Value.(updateWithKey).key.(model.HostConfigKey).Name
			wantRev := len(rev) > 0 && rev[0]
			if (a > b) != wantRev {
				s.d.pendingUpdates.MoveBefore(fresh[1], fresh[0])
			}
		} else if len(fresh) > 2 {
			panic("harness: more than two synthesized deletions with two keys")
		}
	}
	s.lastSent = st
	if st == api.InSync {
		s.connInSync = true
	}
}

func (s *c25State) newConn() {
	s.conn = map[string]string{}
	s.connInSync = false
	s.restarts++
	s.snapVals = map[string]string{}
	s.snapRem = nil
	s.backlog = nil
}

func (s *c25State) join() {
	for k, v := range s.ds {
		s.snapVals[k] = v
		s.snapRem = append(s.snapRem, k)
	}
	sort.Strings(s.snapRem)
}

func c25Apply(s *c25State, e c25Ev) {
	switch e.Op {
	case "upd":
		s.send(e.B)
	case "status":
		s.status(api.SyncStatus(e.S), e.Rev)
	case "restart": // bare notification ("any") / first call of the triple ("typha")
		s.d.OnTyphaConnectionRestarted()
		s.newConn()
		if s.mode == "typha" {
			s.phase = 1
		}
	case "rs-wait":
		s.status(api.WaitForDatastore)
		s.phase = 2
	case "rs-resync":
		s.status(api.ResyncInProgress)
		s.phase = 0
		s.join()
	case "restart3": // exactly what SyncerClient does, without the consumer running in between
		s.d.OnTyphaConnectionRestarted()
		s.newConn()
		s.status(api.WaitForDatastore)
		s.status(api.ResyncInProgress)
	case "pull":
		// one consumer step with a chosen batch size: the body of sendNextBatchToSinkLockHeld's loop.
		s.d.lock.Lock()
		buf := s.d.pullNextBatch(make([]any, 0, e.N), e.N)
		s.d.dropLockAndSendBatch(s.sink, buf)
		s.d.lock.Unlock()
	case "pullall":
		if err := s.d.sendNextBatchToSinkNoBlock(s.sink); err != nil {
			panic("sendNextBatchToSinkNoBlock on a non-empty queue: " + err.Error())
		}
	case "mut":
		kv := e.B[0]
		if kv.V == "" {
			delete(s.ds, kv.K)
		} else {
			s.ds[kv.K] = kv.V
		}
		if s.phase != 0 {
			return // not connected: the next snapshot will carry it
		}
		if len(s.snapRem) == 0 && len(s.backlog) == 0 {
			s.send(e.B)
		} else {
			s.backlog = append(s.backlog, kv)
		}
	case "snap":
		k := e.B[0].K
		s.send([]c25KV{{k, s.snapVals[k]}})
		var rem []string
		for _, x := range s.snapRem {
			if x != k {
				rem = append(rem, x)
			}
		}
		s.snapRem = rem
	case "snapall":
		var b []c25KV
		for _, k := range s.snapRem {
			b = append(b, c25KV{k, s.snapVals[k]})
		}
		s.send(b)
		s.snapRem = nil
	case "delta":
		s.send(s.backlog[:1])
		s.backlog = append([]c25KV(nil), s.backlog[1:]...)
	case "insync":
		s.status(api.InSync, e.Rev)
	case "resync":
		s.status(api.ResyncInProgress)
	default:
		panic("bad op " + e.Op)
	}
}

func c25AnyEvents() (prod, cons []c25Ev) {
	for _, k := range c25Keys {
		for _, v := range c25Vals {
			prod = append(prod, c25Ev{Op: "upd", B: []c25KV{{k, v}}})
		}
		prod = append(prod, c25Ev{Op: "upd", B: []c25KV{{k, ""}}})
	}
	// a few two-element batches (same key twice, both keys)
	prod = append(prod,
		c25Ev{Op: "upd", B: []c25KV{{"k1", "1"}, {"k2", "1"}}},
		c25Ev{Op: "upd", B: []c25KV{{"k1", "2"}, {"k1", ""}}},
		c25Ev{Op: "upd", B: []c25KV{{"k2", ""}, {"k2", "2"}}},
	)
	for _, st := range []api.SyncStatus{api.WaitForDatastore, api.ResyncInProgress, api.InSync} {
		prod = append(prod, c25Ev{Op: "status", S: int(st)})
	}
	prod = append(prod, c25Ev{Op: "status", S: int(api.InSync), Rev: true})
	prod = append(prod, c25Ev{Op: "restart"}, c25Ev{Op: "restart3"})
	// order matters for c25Enabled's prefix-sharing: pull1, pullall, pull2
	cons = []c25Ev{{Op: "pull", N: 1}, {Op: "pullall"}, {Op: "pull", N: 2}}
	prod = append(prod, cons...)
	return
}

const c25BacklogCap = 2

func c25Enabled(s *c25State, anyProd, cons []c25Ev) []c25Ev {
	var evs []c25Ev
	if s.mode == "any" {
		// anyProd already carries the three consumer events at its end: share one backing array
		// between all states (the menus of a whole BFS level are held in memory).
		switch n := s.d.pendingUpdates.Len(); {
		case n == 0:
			return anyProd[:len(anyProd)-3]
		case n == 1:
			return anyProd[:len(anyProd)-1] // pull2 coincides with pullall
		default:
			return anyProd
		}
	} else {
		switch s.phase {
		case 1:
			evs = append(evs, c25Ev{Op: "rs-wait"})
		case 2:
			evs = append(evs, c25Ev{Op: "rs-resync"})
		default:
			for _, k := range s.snapRem {
				evs = append(evs, c25Ev{Op: "snap", B: []c25KV{{K: k}}})
			}
			if len(s.snapRem) >= 2 {
				evs = append(evs, c25Ev{Op: "snapall"})
			}
			if len(s.snapRem) == 0 {
				if len(s.backlog) > 0 {
					evs = append(evs, c25Ev{Op: "delta"})
				}
				if s.lastSent != api.InSync {
					evs = append(evs, c25Ev{Op: "insync"})
					if ns := s.d.liveKeysNotSeenSinceReconnect; ns != nil && ns.Len() >= 2 {
						evs = append(evs, c25Ev{Op: "insync", Rev: true})
					}
				} else {
					evs = append(evs, c25Ev{Op: "resync"})
				}
			}
			evs = append(evs, c25Ev{Op: "restart"})
		}
		// datastore mutations (effective ones only)
		if len(s.backlog) < c25BacklogCap {
			for _, k := range c25Keys {
				for _, v := range c25Vals {
					if s.ds[k] != v {
						evs = append(evs, c25Ev{Op: "mut", B: []c25KV{{k, v}}})
					}
				}
				if _, ok := s.ds[k]; ok {
					evs = append(evs, c25Ev{Op: "mut", B: []c25KV{{k, ""}}})
				}
			}
		}
	}
	if n := s.d.pendingUpdates.Len(); n > 0 {
		evs = append(evs, cons[0], cons[1])
		if n > 1 {
			evs = append(evs, cons[2])
		}
	}
	return evs
}

func c25Map(m map[string]string) string {
	ks := make([]string, 0, len(m))
	for k := range m {
		ks = append(ks, k)
	}
	sort.Strings(ks)
	var b strings.Builder
	b.WriteByte('{')
	for _, k := range ks {
		b.WriteString(k + "=" + m[k] + ",")
	}
	b.WriteByte('}')
	return b.String()
}

func c25KeySet(it func(func(model.Key) bool)) string {
	var ks []string
	it(func(k model.Key) bool { ks = append(ks, k.(model.HostConfigKey).Name); return true })
	sort.Strings(ks)
	return "[" + strings.Join(ks, ",") + "]"
}

// c25Internal renders the buffer's complete internal state (queue in order, tracking map, live sets).
func c25Internal(d *DedupeBuffer) string {
	var b strings.Builder
	for e := d.pendingUpdates.Front(); e != nil; e = e.Next() {
		switch m := e.Value.(type) {
		case api.SyncStatus:
			fmt.Fprintf(&b, "S%d;", m)
		case updateWithKey:
			fmt.Fprintf(&b, "%s/%s=%v/%d;", m.key.(model.HostConfigKey).Name, m.update.Key.(model.HostConfigKey).Name, m.update.Value, m.update.UpdateType)
		}
	}
	var tk []string
	for k, el := range d.keyToPendingUpdate {
		tk = append(tk, k.(model.HostConfigKey).Name+"->"+el.Value.(updateWithKey).key.(model.HostConfigKey).Name)
	}
	sort.Strings(tk)
	fmt.Fprintf(&b, "|%v|live%s|", tk, c25KeySet(d.liveResourceKeys.All()))
	if d.liveKeysNotSeenSinceReconnect == nil {
		b.WriteString("ns-nil")
	} else {
		b.WriteString("ns" + c25KeySet(d.liveKeysNotSeenSinceReconnect.All()))
	}
	fmt.Fprintf(&b, "|mr%d|stop%v", d.mostRecentStatusReceived, d.stopped)
	return b.String()
}

func c25StateKey(s *c25State) string {
	k := c25Internal(s.d) + "#" + c25Map(s.sink.view) + fmt.Sprintf("st%d%v", s.sink.status, s.sink.gotStat) +
		"#" + c25Map(s.conn) + fmt.Sprint(s.connInSync, len(s.bad))
	if s.mode == "typha" {
		k += "#" + c25Map(s.ds) + c25Map(s.snapVals) + fmt.Sprint(s.snapRem, s.backlog, s.phase, s.lastSent)
	}
	return k
}

func c25Check(s *c25State, hist []c25Ev) []hbfs.Fail {
	fails := append([]hbfs.Fail(nil), s.bad...)
	if s.connInSync && s.d.pendingUpdates.Len() == 0 {
		for _, k := range c25Keys {
			sv, sok := s.sink.view[k]
			cv, cok := s.conn[k]
			switch {
			case sok && !cok:
				fails = append(fails, hbfs.Fail{Key: "C25:drained:stale-key-not-deleted", Msg: fmt.Sprintf("latest connection in sync, queue empty: sink still holds %s=%s, connection view %s", k, sv, c25Map(s.conn))})
			case !sok && cok:
				fails = append(fails, hbfs.Fail{Key: "C25:drained:resource-lost", Msg: fmt.Sprintf("latest connection in sync, queue empty: sink lacks %s, connection view %s sink %s", k, c25Map(s.conn), c25Map(s.sink.view))})
			case sok && sv != cv:
				fails = append(fails, hbfs.Fail{Key: "C25:drained:stale-value", Msg: fmt.Sprintf("latest connection in sync, queue empty: sink has %s=%s, connection view %s", k, sv, c25Map(s.conn))})
			}
		}
		if s.mode == "typha" && s.phase == 0 && len(s.snapRem) == 0 && len(s.backlog) == 0 && c25Map(s.conn) != c25Map(s.ds) {
			// harness self-check: a quiescent connection's view is the datastore
			panic("harness: connection view " + c25Map(s.conn) + " != datastore " + c25Map(s.ds))
		}
	}
	return fails
}

func c25Spec(c *vk.Ctx, mode string, depth int, tree bool) *hbfs.Spec[*c25State, c25Ev] {
	prod, cons := c25AnyEvents()
	name := fmt.Sprintf("dedupe-%s-%s-d%d", mode, map[bool]string{true: "tree", false: "graph"}[tree], depth)
	sp := &hbfs.Spec[*c25State, c25Ev]{
		Name:     name,
		New:      func() *c25State { return c25New(mode) },
		Apply:    c25Apply,
		Enabled:  func(s *c25State, d int) []c25Ev { return c25Enabled(s, prod, cons) },
		Check:    c25Check,
		Key:      c25StateKey,
		MaxDepth: depth,
		Workers:  8,
		PanicKey: func(val string, hist []c25Ev) string {
			// logrus.Panicf panics with an *Entry whose rendering carries a timestamp: keep the key stable
			if strings.Contains(val, "Unexpected message on queue") {
				return "C25:panic:unexpected-message-on-queue"
			}
			if strings.HasPrefix(val, "harness:") {
				return "C25:harness-self-check"
			}
			cl := strings.Map(func(r rune) rune {
				if r >= '0' && r <= '9' {
					return -1
				}
				return r
			}, val)
			if len(cl) > 80 {
				cl = cl[:80]
			}
			return "C25:panic:" + cl
		},
		Nontrivial: func(s *c25State) bool {
			// a reconnect being reconciled, or a queued entry for a key the sink already holds
			if s.d.liveKeysNotSeenSinceReconnect != nil && s.d.liveResourceKeys.Len() > 0 {
				return true
			}
			for k := range s.d.keyToPendingUpdate {
				if s.d.liveResourceKeys.Contains(k) {
					return true
				}
			}
			return false
		},
		Outcome: func(s *c25State) string {
			if !(s.connInSync && s.d.pendingUpdates.Len() == 0) {
				return "not-quiescent"
			}
			if c != nil {
				c.Add("quiescent_transitions_compared", 1)
				c.Add("info_deletes_for_absent_keys", int64(s.delAbsent))
				c.Add("info_transient_deletes_of_present_keys", int64(s.transientDel))
				c.Add("info_transient_stale_values", int64(s.transientStale))
			}
			return fmt.Sprintf("quiescent sink=%s status=%d afterRestart=%v", c25Map(s.sink.view), s.sink.status, s.restarts > 0)
		},
	}
	if tree {
		sp.Key = nil
	}
	return sp
}

func TestVerif_C25(t *testing.T) {
	logrus.SetLevel(logrus.PanicLevel)
	vk.Run(t, "C25", func(c *vk.Ctx) {
		c.Rule("states = reachable (buffer internals: ordered queue, tracking map, live keys, not-seen-since-reconnect set, last status) x sink view x latest-connection view " +
			"[x ground-truth datastore, snapshot remainder, delta backlog in the typha environment] over keys {k1,k2} values {1,2}; " +
			"transitions = one real critical section (OnUpdates batch, OnStatusUpdated, OnTyphaConnectionRestarted, consumer pull of 1/2/all + delivery) replayed on a fresh buffer; " +
			"non-trivial = reconnect reconciliation in progress with live keys, or a queued entry for a key the sink already holds")
		c.Assume("consumer pull (under the lock) and delivery (outside it) are explored as one step: delivery touches only the sink, so it commutes with producer calls")
		c.Assume("SendToSinkForever's blocking wait (cond.Wait) and Stop are not explored; the consumer step is the body of its loop")
		if rf := c.ReplayFile(); rf != "" {
			var d struct {
				Spec    string
				History []string
			}
			if err := vk.LoadReplay(rf, &d); err != nil {
				c.ToolError(err.Error())
				return
			}
			mode := "any"
			if strings.Contains(d.Spec, "-typha-") {
				mode = "typha"
			}
			fails, err := hbfs.Replay(c25Spec(nil, mode, 99, false), d.History)
			if err != nil {
				c.ToolError(err.Error())
			}
			for _, f := range fails {
				c.Violation(f.Key, map[string]any{"spec": d.Spec, "history": d.History, "msg": f.Msg})
			}
			c.Add("states", 1)
			c.Add("transitions", int64(len(d.History)))
			return
		}
		c.Sample(map[string]any{"env": "any", "history": []string{
			`{"Op":"upd","B":[{"K":"k1","V":"1"}]}`, `{"Op":"pullall"}`, `{"Op":"restart3"}`, `{"Op":"upd","B":[{"K":"k2","V":"1"}]}`, `{"Op":"status","S":2}`, `{"Op":"pull","N":1}`, `{"Op":"pullall"}`},
			"expect": "sink ends with {k2=1}: k1 deleted by the synthesized deletion, k2 typed new"})
		c.Sample(map[string]any{"env": "typha", "history": []string{
			`{"Op":"mut","B":[{"K":"k1","V":"1"}]}`, `{"Op":"insync"}`, `{"Op":"pullall"}`, `{"Op":"restart"}`, `{"Op":"mut","B":[{"K":"k1","V":""}]}`, `{"Op":"rs-wait"}`, `{"Op":"rs-resync"}`, `{"Op":"insync"}`, `{"Op":"pullall"}`},
			"expect": "k1 vanished while disconnected: sink ends empty"})
		// graph mode, both environments; the state space is finite so a high bound reaches the fixpoint.
		dAny, dTy := c.Pick(9, 14), c.Pick(12, 19)
		st := hbfs.Explore(c, c25Spec(c, "any", dAny, false))
		c.Extra("any_fixpoint_reached", st.Complete && st.Depth < dAny)
		st = hbfs.Explore(c, c25Spec(c, "typha", dTy, false))
		c.Extra("typha_fixpoint_reached", st.Complete && st.Depth < dTy)
		// tree mode (no merging) as a guard against an unsound key
		hbfs.Explore(c, c25Spec(c, "any", c.Pick(4, 5), true))
		hbfs.Explore(c, c25Spec(c, "typha", c.Pick(6, 8), true))
	})
}

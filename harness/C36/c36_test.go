package ip

// C36 — CIDR trie lookups agree with plain prefix arithmetic after ANY insert/delete sequence.
//
// Explicit-state search over the real CIDRTrie (in-package: the state key is the trie's internal
// node structure, so no canonicity assumption is needed). The reference is a plain map
// prefix -> value; all prefix arithmetic of the oracle is done with net/netip, independent of
// felix/ip's own CommonPrefix/Contains/NthBit.

import (
	"fmt"
	"net/netip"
	"sort"
	"strconv"
	"strings"
	"testing"

	"github.com/sirupsen/logrus"

	"github.com/projectcalico/calico/zzverif/hbfs"
	"github.com/projectcalico/calico/zzverif/vk"
)

// ---- universes -------------------------------------------------------------------------------

type c36Univ struct {
	name    string
	v6      bool
	hostLen int
	keys    []CIDR         // prefixes that may be stored (events Update/Delete)
	queries []CIDR         // keys + outsiders (never stored)
	nq      []netip.Prefix // netip twin of queries (index-aligned; first len(keys) are keys)
	delOnly []int          // indexes (into queries) of outsiders that are also used as Delete events
	idx     map[CIDR]int
}

func c36Parse(s string) (CIDR, netip.Prefix) {
	c := MustParseCIDROrIP(s)
	p := netip.MustParsePrefix(s).Masked()
	if c.String() != p.String() {
		panic("c36: universe prefix not normalised the same way: " + c.String() + " vs " + p.String())
	}
	return c, p
}

// c36Subtree4 lists every prefix of base (an IPv4 /baseLen) with length baseLen..maxLen.
func c36Subtree4(base uint32, baseLen, maxLen int) []string {
	var out []string
	for l := baseLen; l <= maxLen; l++ {
		for k := 0; k < 1<<(l-baseLen); k++ {
			a := base | uint32(k)<<(32-l)
			out = append(out, fmt.Sprintf("%d.%d.%d.%d/%d", a>>24, a>>16&255, a>>8&255, a&255, l))
		}
	}
	return out
}

// c36Subtree6 lists every prefix under 2001:db8::/baseLen with length baseLen..maxLen where the
// lengths straddle the 64-bit boundary of the address (hi/lo words of V6Addr).
func c36Subtree6(baseLen, maxLen int) []string {
	var out []string
	hi0 := uint64(0x20010db800000000)
	for l := baseLen; l <= maxLen; l++ {
		for k := uint64(0); k < 1<<(l-baseLen); k++ {
			// k occupies bits baseLen+1..l (1-based from the top of the 128-bit address)
			hi, lo := hi0, uint64(0)
			for b := 0; b < l-baseLen; b++ { // b-th bit of k from the top
				bit := k >> (uint(l - baseLen - 1 - b)) & 1
				pos := baseLen + 1 + b // 1-based bit position
				if pos <= 64 {
					hi |= bit << uint(64-pos)
				} else {
					lo |= bit << uint(128-pos)
				}
			}
			var raw [16]byte
			for i := 0; i < 8; i++ {
				raw[i] = byte(hi >> uint(56-8*i))
				raw[8+i] = byte(lo >> uint(56-8*i))
			}
			out = append(out, fmt.Sprintf("%s/%d", netip.AddrFrom16(raw), l))
		}
	}
	return out
}

func c36NewUniv(name string, v6 bool, keys, outsiders []string, nDelOnly int) *c36Univ {
	u := &c36Univ{name: name, v6: v6, hostLen: 32, idx: map[CIDR]int{}}
	if v6 {
		u.hostLen = 128
	}
	seen := map[string]bool{}
	for _, s := range keys {
		c, p := c36Parse(s)
		if seen[c.String()] {
			panic("dup " + s)
		}
		seen[c.String()] = true
		u.keys = append(u.keys, c)
		u.queries = append(u.queries, c)
		u.nq = append(u.nq, p)
	}
	for i, s := range outsiders {
		c, p := c36Parse(s)
		if seen[c.String()] {
			panic("dup " + s)
		}
		seen[c.String()] = true
		if i < nDelOnly {
			u.delOnly = append(u.delOnly, len(u.queries))
		}
		u.queries = append(u.queries, c)
		u.nq = append(u.nq, p)
	}
	for i, q := range u.queries {
		u.idx[q] = i
	}
	return u
}

var c36Out4 = []string{"10.0.0.0/28", "10.0.0.8/29", "11.0.0.0/8", "10.0.0.8/32", "128.0.0.0/1"}
var c36Out6 = []string{"2001:db8::/61", "2001:db8:0:4::/62", "2001:db9::/32", "2001:db8::/128", "2001:db8:0:1:8000::1/128", "2001:db8:0:3:ffff::/128", "2001:db8:0:2::5/128", "8000::/1"}

func c36Universes() map[string]*c36Univ {
	m := map[string]*c36Univ{}
	m["v4big"] = c36NewUniv("v4big", false, append([]string{"0.0.0.0/0"}, c36Subtree4(10<<24, 29, 32)...), c36Out4, 3)
	m["v4small"] = c36NewUniv("v4small", false, append([]string{"0.0.0.0/0"}, c36Subtree4(10<<24, 30, 32)...), c36Out4, 3)
	m["v6big"] = c36NewUniv("v6big", true, append([]string{"::/0"}, c36Subtree6(62, 65)...), c36Out6, 3)
	m["v6small"] = c36NewUniv("v6small", true, append([]string{"::/0"}, c36Subtree6(63, 65)...), c36Out6, 3)
	return m
}

func c36Is(data any, v string) bool {
	d, ok := data.(string)
	return ok && d == v
}

// contains: p ⊇ q (plain prefix arithmetic, net/netip).
func c36Contains(p, q netip.Prefix) bool { return p.Bits() <= q.Bits() && p.Contains(q.Addr()) }

// ---- transition system -----------------------------------------------------------------------

type c36Ev struct {
	Op string // upd | del
	I  int    // index into univ.queries
	V  string // value for upd
}

func (e c36Ev) String() string { return fmt.Sprintf("%s:%d:%s", e.Op, e.I, e.V) }

type c36State struct {
	u    *c36Univ
	t    *CIDRTrie
	ref  map[int]string // key index -> value
	nops int
	spec string
}

func c36Events(u *c36Univ, vals []string) []c36Ev {
	var evs []c36Ev
	for i := range u.keys {
		if vals == nil {
			evs = append(evs, c36Ev{Op: "upd", I: i, V: "d:" + u.keys[i].String()})
		} else {
			for _, v := range vals {
				evs = append(evs, c36Ev{Op: "upd", I: i, V: v})
			}
		}
		evs = append(evs, c36Ev{Op: "del", I: i})
	}
	for _, i := range u.delOnly {
		evs = append(evs, c36Ev{Op: "del", I: i})
	}
	return evs
}

func c36Apply(s *c36State, e c36Ev) {
	switch e.Op {
	case "upd":
		s.t.Update(s.u.queries[e.I], e.V)
		s.ref[e.I] = e.V
	case "del":
		s.t.Delete(s.u.queries[e.I])
		delete(s.ref, e.I)
	default:
		panic("bad op")
	}
	s.nops++
}

func c36DumpU(u *c36Univ, n *CIDRNode, b *strings.Builder) {
	if n == nil {
		b.WriteString("-")
		return
	}
	if i, ok := u.idx[n.cidr]; ok {
		b.WriteString("(#")
		b.WriteString(strconv.Itoa(i))
	} else {
		b.WriteString("(")
		b.WriteString(n.cidr.String())
	}
	if n.data == nil {
		b.WriteString("=<nil> ")
	} else if d, ok := n.data.(string); ok {
		b.WriteString("=" + d + " ")
	} else {
		fmt.Fprintf(b, "=%v ", n.data)
	}
	c36DumpU(u, n.children[0], b)
	b.WriteString(" ")
	c36DumpU(u, n.children[1], b)
	b.WriteString(")")
}

func c36RefKey(s *c36State) string {
	ix := make([]int, 0, len(s.ref))
	for i := range s.ref {
		ix = append(ix, i)
	}
	sort.Ints(ix)
	var b strings.Builder
	for _, i := range ix {
		b.WriteString(strconv.Itoa(i))
		b.WriteString("=")
		b.WriteString(s.ref[i])
		b.WriteString(",")
	}
	return b.String()
}

func c36RefString(s *c36State) string {
	ix := make([]int, 0, len(s.ref))
	for i := range s.ref {
		ix = append(ix, i)
	}
	sort.Ints(ix)
	var b strings.Builder
	for _, i := range ix {
		fmt.Fprintf(&b, "%s=%s,", s.u.queries[i], s.ref[i])
	}
	return "{" + b.String() + "}"
}

func c36Key(s *c36State) string {
	var b strings.Builder
	c36DumpU(s.u, s.t.root, &b)
	return b.String() + "|" + c36RefKey(s)
}

// c36Canonical reports whether the trie's internal structure equals that of a trie built fresh
// from the stored set (informational only: the statement does not demand canonicity).
func c36Canonical(s *c36State) bool {
	f := NewCIDRTrie()
	ix := make([]int, 0, len(s.ref))
	for i := range s.ref {
		ix = append(ix, i)
	}
	sort.Ints(ix)
	for _, i := range ix {
		f.Update(s.u.queries[i], s.ref[i])
	}
	var a, b strings.Builder
	c36DumpU(s.u, s.t.root, &a)
	c36DumpU(s.u, f.root, &b)
	return a.String() == b.String()
}

func c36SameSet(a, b map[int]bool) bool {
	if len(a) != len(b) {
		return false
	}
	for i := range a {
		if !b[i] {
			return false
		}
	}
	return true
}

func c36SetStr(u *c36Univ, m map[int]bool) string {
	ix := make([]int, 0, len(m))
	for i := range m {
		ix = append(ix, i)
	}
	sort.Ints(ix)
	out := make([]string, len(ix))
	for k, i := range ix {
		out[k] = u.queries[i].String()
	}
	return "[" + strings.Join(out, " ") + "]"
}

// c36Check compares every query on every prefix of the universe (+ outsiders) with the reference.
func c36Check(c *vk.Ctx, s *c36State, hist []c36Ev) []hbfs.Fail {
	var fails []hbfs.Fail
	add := func(key, f string, a ...any) {
		if len(fails) < 6 {
			fails = append(fails, hbfs.Fail{Key: "C36:" + key, Msg: s.u.name + " stored " + c36RefString(s) + ": " + fmt.Sprintf(f, a...)})
		}
	}
	u, t := s.u, s.t
	idxOf := func(c CIDR) int {
		if i, ok := u.idx[c]; ok {
			return i
		}
		return -1
	}
	// enumeration: ToSlice and Visit
	got := map[int]bool{}
	for _, e := range t.ToSlice() {
		i := idxOf(e.CIDR)
		if i < 0 || got[i] {
			add("toslice", "ToSlice returned unknown or duplicate entry %v", e.CIDR)
			continue
		}
		got[i] = true
		if v, ok := s.ref[i]; !ok || !c36Is(e.Data, v) {
			add("toslice", "ToSlice entry %v data %v; reference has %q (present=%v)", e.CIDR, e.Data, v, ok)
		}
	}
	if len(got) != len(s.ref) {
		add("toslice", "ToSlice returned %d entries, reference holds %d", len(got), len(s.ref))
	}
	nvis := 0
	t.Visit(func(c CIDR, d any) bool {
		nvis++
		i := idxOf(c)
		if v, ok := s.ref[i]; i < 0 || !ok || !c36Is(d, v) {
			add("visit", "Visit yielded %v=%v not in reference", c, d)
		}
		return true
	})
	if nvis != len(s.ref) {
		add("visit", "Visit yielded %d entries, reference holds %d", nvis, len(s.ref))
	}
	if len(s.ref) > 1 {
		n := 0
		t.Visit(func(c CIDR, d any) bool { n++; return false })
		if n != 1 {
			add("visit", "Visit did not stop when the callback returned false (%d calls)", n)
		}
	}

	var jobs []func()
	for qi, q := range u.queries {
		nq := u.nq[qi]
		// reference sets
		var enclosing, within []int // stored P ⊇ q ; stored P ⊆ q
		bestA, bestB := -1, -1      // longest stored containing q.Addr() ; longest stored ⊇ q
		for i := range s.ref {
			p := u.nq[i]
			if c36Contains(p, nq) {
				enclosing = append(enclosing, i)
				if bestB < 0 || p.Bits() > u.nq[bestB].Bits() {
					bestB = i
				}
			}
			if c36Contains(nq, p) {
				within = append(within, i)
			}
			if p.Contains(nq.Addr()) {
				if bestA < 0 || p.Bits() > u.nq[bestA].Bits() {
					bestA = i
				}
			}
		}
		wantV, stored := s.ref[qi]

		// Get
		if g := t.Get(q); stored && !c36Is(g, wantV) || !stored && g != nil {
			add("get", "Get(%v)=%v want %q (stored=%v)", q, g, wantV, stored)
		}
		// Covers: some stored prefix encloses (or equals) q
		if g := t.Covers(q); g != (len(enclosing) > 0) {
			add("covers", "Covers(%v)=%v but stored prefixes enclosing it: %d", q, g, len(enclosing))
		}
		// Intersects: the code's meaning (see its only caller, which ORs it with Get and Covers) is
		// "some stored prefix lies within q"; the statement does not define it otherwise.
		gi := t.Intersects(q)
		if gi != (len(within) > 0) {
			add("intersects", "Intersects(%v)=%v but stored prefixes within it: %d", q, gi, len(within))
		}
		// the caller-level meaning: any overlap at all
		if (t.Get(q) != nil || gi || t.Covers(q)) != (len(within)+len(enclosing) > 0) {
			add("overlap", "Get||Intersects||Covers(%v) disagrees with plain overlap (within %d enclosing %d)", q, len(within), len(enclosing))
		}
		// CoveredBy: q encloses everything stored
		err := vk.Catch(func() error {
			g := t.CoveredBy(q)
			if len(s.ref) == 0 {
				return nil // vacuous case: statement silent on the answer, any (non-panicking) answer accepted
			}
			if g != (len(within) == len(s.ref)) {
				add("coveredby", "CoveredBy(%v)=%v but %d of %d stored prefixes lie within it", q, g, len(within), len(s.ref))
			}
			return nil
		})
		if err != nil {
			if len(s.ref) == 0 {
				// recorded directly (not as an hbfs.Fail) so that exploration continues through empty tries
				if qi == 0 {
					hs := make([]string, len(hist))
					for k, e := range hist {
						hs[k] = e.String()
					}
					c.Violation("C36:coveredby-panics-on-empty-trie", map[string]any{"spec": s.spec, "history": hs,
						"msg": fmt.Sprintf("CoveredBy(%v) on an empty trie: %v", q, err)})
				}
			} else {
				add("coveredby-panic", "CoveredBy(%v): %v", q, err)
			}
		}
		// LPM
		lc, ld := t.LPM(q)
		switch {
		case nq.Bits() == u.hostLen || bestA == bestB:
			// host query, or both readings of "longest prefix match" agree: exact answer demanded
			if bestA < 0 {
				if ld != nil {
					add("lpm", "LPM(%v)=%v,%v want no match", q, lc, ld)
				}
			} else if !c36Is(ld, s.ref[bestA]) || lc != u.queries[bestA] {
				add("lpm", "LPM(%v)=%v,%v want %v,%q", q, lc, ld, u.queries[bestA], s.ref[bestA])
			}
		default:
			// non-host query with a stored prefix strictly inside it at its base address: the
			// statement does not say whether the match must enclose the query or only its base
			// address; accept exactly those two readings.
			okA := bestA >= 0 && c36Is(ld, s.ref[bestA]) && lc == u.queries[bestA]
			okB := (bestB < 0 && ld == nil) || (bestB >= 0 && c36Is(ld, s.ref[bestB]) && lc == u.queries[bestB])
			if !okA && !okB {
				add("lpm-nonhost", "LPM(%v)=%v,%v matches neither longest-enclosing nor longest-containing-base-address", q, lc, ld)
			}
		}
		if ld == nil {
			want := CIDR(V4CIDR{})
			if u.v6 {
				want = V6CIDR{}
			}
			if lc != want {
				add("lpm", "LPM(%v) no-match returned CIDR %v", q, lc)
			}
		}
		// LookupPath: q stored -> exactly the stored prefixes enclosing q; else empty. Twice: nil
		// buffer and a dirty caller-supplied buffer.
		for pass := 0; pass < 2; pass++ {
			var buf []CIDRTrieEntry
			if pass == 1 {
				buf = make([]CIDRTrieEntry, 2, 3)
				buf[0] = CIDRTrieEntry{CIDR: u.queries[0], Data: "junk"}
				buf[1] = buf[0]
			}
			path := t.LookupPath(buf, q)
			if !stored {
				if len(path) != 0 {
					add("lookuppath", "LookupPath(%v) returned %d entries for a prefix that is not stored", q, len(path))
				}
				continue
			}
			gotp := map[int]bool{}
			for _, e := range path {
				i := idxOf(e.CIDR)
				if i < 0 || gotp[i] || !c36Is(e.Data, s.ref[i]) {
					add("lookuppath", "LookupPath(%v) entry %v=%v unknown/duplicate/wrong data", q, e.CIDR, e.Data)
				}
				gotp[i] = true
			}
			wantp := map[int]bool{}
			for _, i := range enclosing {
				wantp[i] = true
			}
			if !c36SameSet(gotp, wantp) {
				add("lookuppath", "LookupPath(%v)=%s want %s (pass %d)", q, c36SetStr(u, gotp), c36SetStr(u, wantp), pass)
			}
		}
		jobs = append(jobs, func() {
			// ClosestDescendants: stored strict descendants of q with no stored prefix in between.
			wantd := map[int]bool{}
			for _, i := range within {
				if i == qi {
					continue
				}
				closest := true
				for _, j := range within {
					if j != qi && j != i && c36Contains(u.nq[j], u.nq[i]) {
						closest = false
					}
				}
				if closest {
					wantd[i] = true
				}
			}
			for pass := 0; pass < 2; pass++ {
				var buf []CIDR
				if pass == 1 {
					buf = append(make([]CIDR, 0, 1), u.queries[len(u.queries)-1])
				}
				res := t.ClosestDescendants(buf, q)
				gotd := map[int]bool{}
				bad := false
				for k, c := range res {
					if pass == 1 && k == 0 && stored {
						if c != u.queries[len(u.queries)-1] {
							add("closest", "ClosestDescendants(%v) did not append to the caller's buffer", q)
						}
						continue
					}
					i := idxOf(c)
					if i < 0 || gotd[i] {
						bad = true
					}
					gotd[i] = true
				}
				if stored {
					// documented domain: parent is in the trie -> exact answer
					if bad || !c36SameSet(gotd, wantd) {
						add("closest", "ClosestDescendants(%v)=%v want %s (pass %d)", q, res, c36SetStr(u, wantd), pass)
					}
				} else if pass == 0 {
					// parent not stored: outside the documented domain; only demand that nothing wrong is listed
					for i := range gotd {
						if !wantd[i] {
							add("closest-unstored-parent", "ClosestDescendants(%v) (parent not stored) listed %v which is not a closest stored descendant", q, res)
							break
						}
					}
				}
			}
		})
	}
	// ClosestDescendants recurses through data-less nodes; on a malformed trie it may never return (a stack
	// overflow cannot be recovered), so it is only called when everything else agreed and every data-less
	// node is found again by its own CIDR (the precondition for its recursion to descend).
	if len(fails) > 0 {
		return fails
	}
	var walk func(n *CIDRNode) bool
	walk = func(n *CIDRNode) bool {
		if n == nil {
			return true
		}
		if n.data == nil && t.root.getNode(n.cidr, true) != n {
			return false
		}
		return walk(n.children[0]) && walk(n.children[1])
	}
	if !walk(t.root) {
		add("closest-nontermination", "a data-less trie node is not reachable by its own CIDR; ClosestDescendants would recurse without descending")
		return fails
	}
	for _, j := range jobs {
		j()
	}
	return fails
}

func c36Spec(u *c36Univ, vals []string, depth int, tree bool, c *vk.Ctx) *hbfs.Spec[*c36State, c36Ev] {
	evs := c36Events(u, vals)
	mode := "graph"
	if tree {
		mode = "tree"
	}
	name := fmt.Sprintf("trie-%s-%dval-%s", u.name, max(1, len(vals)), mode)
	sp := &hbfs.Spec[*c36State, c36Ev]{
		Name: name,
		New: func() *c36State {
			return &c36State{u: u, t: NewCIDRTrie(), ref: map[int]string{}, spec: name}
		},
		Apply:    c36Apply,
		Enabled:  func(s *c36State, d int) []c36Ev { return evs },
		Key:      c36Key,
		Check:    func(s *c36State, h []c36Ev) []hbfs.Fail { return c36Check(c, s, h) },
		MaxDepth: depth,
		Workers:  8,
		Nontrivial: func(s *c36State) bool {
			// at least one stored prefix nested inside another, or a data-less intermediate node
			for i := range s.ref {
				for j := range s.ref {
					if i != j && c36Contains(u.nq[i], u.nq[j]) {
						return true
					}
				}
			}
			return s.t.root != nil && s.t.root.data == nil
		},
		Outcome: func(s *c36State) string {
			canon := c36Canonical(s)
			if !canon {
				c.Add("noncanonical_states_seen", 1)
			}
			var b strings.Builder
			c36DumpU(s.u, s.t.root, &b)
			return fmt.Sprintf("%s stored=%d intermediates=%d canon=%v", u.name, len(s.ref), strings.Count(b.String(), "=<nil>"), canon)
		},
		PanicKey: func(val string, hist []c36Ev) string { return "C36:panic-in-update-or-delete" },
	}
	if tree {
		sp.Key = nil
	}
	return sp
}

func TestVerif_C36(t *testing.T) {
	logrus.SetLevel(logrus.PanicLevel)
	vk.Run(t, "C36", func(c *vk.Ctx) {
		c.Rule("states = reachable internal node structures of the real ip.CIDRTrie (cidr/data/children of every node) over a universe of nested prefixes " +
			"(v4: 0.0.0.0/0 + every /29../32 under 10.0.0.0/29; v6: ::/0 + every /62../65 under 2001:db8::/62, straddling the 64-bit word boundary); " +
			"transitions = one real Update or Delete (incl. re-Update, Delete of absent / enclosing / disjoint prefixes) replayed on a fresh trie, " +
			"after which Get, LPM, Covers, Intersects, CoveredBy, LookupPath (nil and dirty buffer), ClosestDescendants, ToSlice, Visit are evaluated for every universe prefix plus outsiders " +
			"and compared with net/netip arithmetic over a plain map; non-trivial = state with nested stored prefixes or a data-less intermediate root")
		c.Assume("one IP version per trie (mixing versions panics by design); prefixes are normalised by the package's own parser")
		c.Assume("Intersects(q) is read as 'some stored prefix lies within q' (the code's and its only caller's reading); LPM on non-host queries accepts either 'longest stored prefix enclosing q' or 'longest stored prefix containing q's base address' when the two differ")
		us := c36Universes()
		if rf := c.ReplayFile(); rf != "" {
			var d struct {
				Spec    string
				History []string
			}
			if err := vk.LoadReplay(rf, &d); err != nil {
				c.ToolError(err.Error())
				return
			}
			for _, u := range us {
				for _, vals := range [][]string{nil, {"1", "2"}} {
					sp := c36Spec(u, vals, 99, false, c)
					if !strings.HasPrefix(d.Spec, strings.TrimSuffix(sp.Name, "graph")) {
						continue
					}
					if len(d.History) == 0 {
						c36Check(c, sp.New(), nil)
					}
					fails, err := hbfs.Replay(sp, d.History)
					if err != nil {
						c.ToolError(err.Error())
					}
					for _, f := range fails {
						c.Violation(f.Key, map[string]any{"spec": d.Spec, "history": d.History, "msg": f.Msg})
					}
					c.Add("states", 1)
					c.Add("transitions", int64(len(d.History)))
					return
				}
			}
			c.ToolError("replay: unknown spec " + d.Spec)
			return
		}
		c.Sample(map[string]any{"universe": "v4big", "history": []string{"upd 10.0.0.0/31", "upd 10.0.0.2/31", "del 10.0.0.0/31", "upd 10.0.0.0/29"},
			"checked": "all 10 query kinds on 21 prefixes after every step"})
		c.Extra("universe_sizes", map[string]int{"v4big": len(us["v4big"].keys), "v6big": len(us["v6big"].keys), "v4small": len(us["v4small"].keys), "v6small": len(us["v6small"].keys)})
		// 1. graph mode on the big universes (one value per prefix): to fixpoint in thorough
		for _, n := range []string{"v4big", "v6big"} {
			st := hbfs.Explore(c, c36Spec(us[n], nil, c.Pick(5, 40), false, c))
			c.Extra("fixpoint:"+n, st.Complete && st.Depth < c.Pick(5, 40))
		}
		// 2. graph mode with two values per prefix on the small universes (value replacement): fixpoint
		for _, n := range []string{"v4small", "v6small"} {
			st := hbfs.Explore(c, c36Spec(us[n], []string{"1", "2"}, 40, false, c))
			c.Extra("fixpoint2:"+n, st.Complete && st.Depth < 40)
		}
		// 3. tree mode (no merging at all) on the small universes
		for _, n := range []string{"v4small", "v6small"} {
			hbfs.Explore(c, c36Spec(us[n], nil, c.Pick(3, 4), true, c))
		}
	})
}

package rules_test

// Shared by the rendered-policy harnesses C08, C09, C10 (overlaid through target.json "include").

import (
	"errors"
	"sync"

	"github.com/sirupsen/logrus"

	"github.com/projectcalico/calico/felix/ipsets"
	"github.com/projectcalico/calico/felix/iptables"
	"github.com/projectcalico/calico/felix/nftables"
	"github.com/projectcalico/calico/felix/rules"
	"github.com/projectcalico/calico/zzverif/nfsim"
	"github.com/projectcalico/calico/zzverif/vk"
)

// Mark bits handed to the real renderer (same layout as the repo's own rules tests).
const (
	vMarkAccept   = 0x8
	vMarkPass     = 0x10
	vMarkScratch0 = 0x20
	vMarkScratch1 = 0x40
	vMarkDrop     = 0x80
	vMarkEndpoint = 0xff00
	vMarkNonCali  = 0x0100
	// bits Felix does not own in this configuration
	vMarkForeign  = 0x4
	vMarkSentinel = 0x10000
)

var (
	vIPSetCfg4 = ipsets.NewIPVersionConfig(ipsets.IPFamilyV4, "cali", nil, nil)
	vIPSetCfg6 = ipsets.NewIPVersionConfig(ipsets.IPFamilyV6, "cali", nil, nil)
)

func vConfig(flowLogs bool) rules.Config {
	return rules.Config{
		IPSetConfigV4:         vIPSetCfg4,
		IPSetConfigV6:         vIPSetCfg6,
		WorkloadIfacePrefixes: []string{"cali", "tap"},
		MarkAccept:            vMarkAccept,
		MarkPass:              vMarkPass,
		MarkScratch0:          vMarkScratch0,
		MarkScratch1:          vMarkScratch1,
		MarkDrop:              vMarkDrop,
		MarkEndpoint:          vMarkEndpoint,
		MarkNonCaliEndpoint:   vMarkNonCali,
		FlowLogsEnabled:       flowLogs,
		VXLANPort:             4789,
	}
}

var vQuietOnce sync.Once

func vQuiet() {
	vQuietOnce.Do(func() {
		logrus.SetLevel(logrus.PanicLevel)
		logrus.StandardLogger().ExitFunc = func(int) { panic("logrus.Fatal") }
	})
}

var (
	vRendMu    sync.Mutex
	vRendCache = map[[2]bool]*rules.DefaultRuleRenderer{}
)

// vRenderer returns the REAL rule renderer (one instance per dataplane x flow-logs setting; the renderer
// is stateless after construction).
func vRenderer(kind nfsim.Kind, flowLogs bool) *rules.DefaultRuleRenderer {
	vQuiet()
	vRendMu.Lock()
	defer vRendMu.Unlock()
	k := [2]bool{kind == nfsim.Nft, flowLogs}
	if r := vRendCache[k]; r != nil {
		return r
	}
	r := rules.NewRenderer(vConfig(flowLogs), kind == nfsim.Nft).(*rules.DefaultRuleRenderer)
	vRendCache[k] = r
	return r
}

// vSetName is the dataplane name of IP set id for the IP version.
func vSetName(ipv int, id string) string {
	if ipv == 6 {
		return vIPSetCfg6.NameForMainIPSet(id)
	}
	return vIPSetCfg4.NameForMainIPSet(id)
}

// vSelfTest runs the nfsim self-test; failure is a tool error.
func vSelfTest(c *vk.Ctx) bool {
	if bad := nfsim.SelfTest(); len(bad) > 0 {
		for _, b := range bad {
			c.ToolError("nfsim self-test: " + b)
		}
		return false
	}
	return true
}

// vClassify splits an nfsim build error: load errors are findings about the rendered text, everything
// else (vocabulary, internal) is a tool error.
func vClassify(err error) (le *nfsim.LoadError, tool error) {
	if errors.As(err, &le) {
		return le, nil
	}
	return nil, err
}

// vMaxChainLen is the dataplane's chain-name length limit (what the renderer passes to EndpointChainName).
func vMaxChainLen(kind nfsim.Kind) int {
	if kind == nfsim.Nft {
		return nftables.MaxChainNameLength
	}
	return iptables.MaxChainNameLength
}

// vOutcomes collects outcome classes (also listed in the evidence so that vacuity can be judged by eye).
type vOutcomes struct {
	mu sync.Mutex
	m  map[string]int64
}

func (o *vOutcomes) add(c *vk.Ctx, sig string) {
	c.Outcome(sig)
	o.mu.Lock()
	if o.m == nil {
		o.m = map[string]int64{}
	}
	o.m[sig]++
	o.mu.Unlock()
}

func (o *vOutcomes) publish(c *vk.Ctx) {
	o.mu.Lock()
	defer o.mu.Unlock()
	c.Extra("outcome_classes", o.m)
}
